// hgv_recover (C20, recover / as-of stream): the RECOVER read of a sparse ':memory:' recording.
//
// For a textual schema + tick history it wires a REAL graph
//     replay(key "in")  -->  record (sparse, ':memory:nodes.record.out')      [name-resolved operators, backend "memory"]
//                       \->  value probe (the value of the stream after every tick)
// runs it in simulation, and then asks  record_replay::recorded_seed_resolver  - the read that
// component_detail::recovering_pass_through performs under Mode::Recover - for the state of the recording
// AS OF every cycle of the run.  A second graph replays the recording through the ordinary sparse replay
// (replay(key "out", recordable_id "nodes.record")), records it again and probes its values.
// One output line per input line:
//
//   case <n>              -> case <n>
//   schema <S>            -> ok | err:schema
//   tick <cycle> <delta>  -> ok | err:parse | err:order      (cycle i = MIN_ST + i*MIN_TD, strictly increasing)
//   record                -> srec <cycle>:<delta> ...        the sparse recording (time, delta) in buffer order
//   asof                  -> asof <c>:<as-of value>|<live value>|<=|!> ...   for c = 0 .. last recorded cycle + 2;
//                            <as-of value> = resolver(start_time = cycle c)  (- = no value, err:<class> = it threw),
//                            <live value>  = what the probe last saw at or before c (- = nothing yet),
//                            third field: Value::equals of the two (both absent counts as equal)
//   onetime               -> onetime <c>:<value> ...   bare TSOutput, NO graph: every entry with time <= c applied
//                            through ONE output view at cycle c (what "fold the recording at one time" would give;
//                            the resolver does NOT do that - see the counter-lemma in Props/C20Recover.lean)
//   replay                -> srec2 <cycle>:<delta> ...       sparse re-recording of the ordinary replay of the recording
//   values                -> vals <cycle>:<original>|<replayed> ...  per cycle in which either stream ticked (- = no tick)
//   source raw|delta      -> ok      raw: graph 1's source is hgv_rawsrc (harness/replay_raw.h): the ticks are WRITTEN through
//                            the raw output API instead of being applied with apply_delta by a replay node
//   touch <cycle> <i>     -> ok | err:mode | err:order | err:parse   (raw source, top-level dynamic TSL: at(i) without a write)
// (grammar of <S>, <delta>: harness/replay_text.h; values: print_value below)
#include "hgv_common.h"
#include "replay_text.h"
#include "replay_raw.h"

#include <hgraph/lib/std/operators/impl/record_replay_memory_impl.h>
#include <hgraph/lib/std/std_operators.h>
#include <hgraph/lib/testing/record_replay.h>
#include <hgraph/runtime/runtime.h>
#include <hgraph/types/graph_wiring.h>
#include <hgraph/types/metadata/type_registry.h>
#include <hgraph/types/operator_dispatch.h>
#include <hgraph/types/record_replay.h>
#include <hgraph/types/static_node.h>
#include <hgraph/types/time_series/ts_delta.h>
#include <hgraph/types/time_series/ts_input.h>

#include <map>
#include <memory>
#include <optional>
#include <span>

using namespace hgraph;
using namespace hgv;
using namespace hgv::rt;

namespace
{
    constexpr const char *RECORDING_KEY = ":memory:nodes.record.out";   // sparse_record_impl: default id + key "out"
    constexpr const char *RECORDING_FQ  = "nodes.record.out";
    constexpr const char *AGAIN_KEY     = ":memory:nodes.record.again";

    // probe key -> cycle -> value of the observed time-series after that cycle's tick
    std::map<std::string, std::map<std::size_t, Value>> g_values;

    struct ValueProbe
    {
        static constexpr auto name = "c20_value_probe";
        static void eval(In<"ts", TsVar<"S">, InputValidity::Unchecked> ts, Scalar<"key", Str> key, DateTime now)
        {
            if (!ts.base().modified() || !ts.base().valid()) { return; }
            g_values[key.value()].insert_or_assign(testing::cycle_offset(now), Value{ts.base().value()});
        }
    };

    WiringArg ts_arg(WiringPortRef port)
    {
        WiringArg arg;
        arg.kind = WiringArg::Kind::TimeSeries;
        arg.port = std::move(port);
        return arg;
    }

    WiringArg str_arg(const std::string &s, const std::string &name = {})
    {
        WiringArg arg;
        arg.kind         = WiringArg::Kind::Scalar;
        arg.scalar_value = Value{Str{s}};
        arg.scalar_meta  = scalar_meta(ScalarK::Str);
        arg.name         = name;
        return arg;
    }

    OperatorWireResult call_operator(Wiring &w, std::string_view name, std::vector<WiringArg> args,
                                     std::optional<bool> output_required, const TSValueTypeMetaData *expected)
    {
        ResolvedOperatorCall resolved = OperatorRegistry::instance().resolve(
            name, std::span<const WiringArg>{args.data(), args.size()}, output_required, expected, {},
            w.operator_state(), &w);
        return resolved.impl->wire(w, resolved.map, resolved.args, resolved.kwargs);
    }

    // ---------------------------------------------------------------- canonical text of a VALUE (Value{ts.value()})
    //   absent / unset position: _    TS: v   SIGNAL: T   TSS: {e,..}   TSD: {k=<v>,..}   TSL: [<v>,<v>]
    //   TSB: (f=<v>,..)   TSW: <e;e;e> (oldest first)
    std::string print_value(const Sch &sch, const ValueView &v)
    {
        if (!v.has_value()) return "_";
        switch (sch.kind)
        {
            case Kind::TS:
            case Kind::SIGNAL: return key_of(v).str();
            case Kind::TSW:
            {
                std::string out = "<";
                const auto  iv  = v.as_indexed_view();
                for (std::size_t i = 0; i < iv.size(); ++i)
                {
                    if (i) out += ";";
                    const auto e = iv.at(i);
                    out += e.has_value() ? key_of(e).str() : "_";
                }
                return out + ">";
            }
            case Kind::TSS:
            {
                std::vector<std::pair<Key, std::string>> items;
                const auto s = v.as_set();
                for (const auto &e : s) { Key k = key_of(e); items.emplace_back(k, k.str()); }
                return "{" + sorted_join(items) + "}";
            }
            case Kind::TSD:
            {
                const Sch &child = *sch.kids[0].second;
                std::vector<std::pair<Key, std::string>> items;
                const auto m = v.as_map();
                for (const auto &[kv, cv] : m)
                {
                    Key k = key_of(kv);
                    items.emplace_back(k, k.str() + "=" + print_value(child, cv));
                }
                return "{" + sorted_join(items) + "}";
            }
            case Kind::TSL:
            {
                const Sch  &child = *sch.kids[0].second;
                std::string out;
                const auto  iv = v.as_indexed_view();
                for (std::size_t i = 0; i < iv.size(); ++i)
                {
                    if (i) out += ",";
                    out += print_value(child, iv.at(i));
                }
                return "[" + out + "]" + (sch.dyn ? "#" + std::to_string(iv.size()) : std::string{});
            }
            case Kind::TSB:
            {
                std::string out;
                const auto  b = v.as_bundle();
                for (std::size_t i = 0; i < sch.kids.size(); ++i)
                {
                    if (i) out += ",";
                    out += sch.kids[i].first + "=";
                    out += b.element_valid(i) ? print_value(*sch.kids[i].second, b.at(i)) : std::string{"_"};
                }
                return "(" + out + ")";
            }
        }
        return "?";
    }

    struct GraphRun
    {
        GraphExecutorValue executor;
        explicit GraphRun(GraphExecutorValue e) : executor(std::move(e)) {}
        GlobalStateView gs() { return executor.view().graph().global_state(); }
    };

    // graph 1: replay(in) -> sparse record(out) + probe "live"
    // graph 2: sparse replay of ':memory:nodes.record.out' -> sparse record(again) + probe "replayed"
    template <typename Seed>
    std::unique_ptr<GraphRun> run_graph(const Sch &sch, bool second, Seed seed, bool raw = false)
    {
        Wiring w;
        record_replay::set_config(w.global_state(),
                                  record_replay::RecordReplayConfig{.backend = std::string{record_replay::MEMORY}});
        OperatorWireResult src = second
            ? call_operator(w, "replay", {str_arg("out"), str_arg("nodes.record", "recordable_id")}, true, sch.meta)
            : call_operator(w, raw ? "hgv_rawsrc" : "replay", {str_arg("in")}, true, sch.meta);
        if (!src.has_output) throw std::logic_error("source has no output");
        const WiringPortRef port = src.output.erased();
        (void)call_operator(w, "record", {ts_arg(port), str_arg(second ? "again" : "out")}, false, nullptr);
        (void)wire<ValueProbe>(w, Port<void>{w, port}, Str{second ? "replayed" : "live"});
        GraphBuilder gb = std::move(w).finish();
        seed(gb.global_state());
        GraphExecutorBuilder eb;
        eb.graph_builder(std::move(gb)).start_time(MIN_ST).end_time(MAX_ET);
        auto run = std::make_unique<GraphRun>(eb.make_executor());
        run->executor.view().run();
        return run;
    }

    std::string print_sparse(const Sch &sch, const char *tag, const std::vector<std::pair<std::size_t, Value>> &entries)
    {
        std::string out = tag;
        for (const auto &[cycle, delta] : entries) { out += " " + std::to_string(cycle) + ":" + print_delta(sch, delta.view()); }
        return out;
    }

    std::string err_class(const std::exception &e)
    {
        if (dynamic_cast<const ParseError *>(&e)) return "parse";
        if (dynamic_cast<const OperatorResolutionError *>(&e)) return "resolve";
        if (dynamic_cast<const std::invalid_argument *>(&e)) return "invalid";
        if (dynamic_cast<const std::logic_error *>(&e)) return "logic";
        return "other";
    }
}  // namespace

int main(int argc, char **argv)
{
    std::ios::sync_with_stdio(false);
    const bool verbose = argc > 1 && std::string(argv[1]) == "-v";
    hgraph::stdlib::register_standard_operators();
    register_rawsrc();

    std::unique_ptr<Sch>                             sch;
    std::vector<std::pair<std::size_t, std::string>> ticks;   // (cycle, delta text)
    std::vector<std::pair<std::size_t, std::size_t>> touches; // (cycle, index), raw source only
    bool                                             raw = false;
    std::unique_ptr<GraphRun>                        run1, run2;
    std::map<std::size_t, Value>                     live, replayed;
    std::vector<std::pair<std::size_t, Value>>       recorded;
    std::string                                      line;

    auto build_seed = [&]() {
        std::vector<std::optional<Value>> seq;
        for (auto &[cycle, text] : ticks)
        {
            while (seq.size() < cycle) seq.emplace_back(std::nullopt);
            Cursor c{text};
            Value  v = parse_delta(*sch, c);
            if (!c.eof()) throw ParseError("trailing input");
            seq.emplace_back(std::move(v));
        }
        return seq;
    };
    auto reset_runs = [&]() {
        run2.reset(); run1.reset(); live.clear(); replayed.clear(); recorded.clear(); g_values.clear();
    };

    while (std::getline(std::cin, line))
    {
        auto w = split(line);
        if (w.empty()) { std::cout << "\n"; continue; }
        const std::string &op = w[0];
        try
        {
            if (op == "case")
            {
                reset_runs(); sch.reset(); ticks.clear(); touches.clear(); raw = false;
                std::cout << line << "\n";
            }
            else if (op == "schema" && w.size() == 2)
            {
                try
                {
                    Cursor c{w[1]};
                    auto   s = parse_schema(c);
                    if (!c.eof()) throw ParseError("trailing input");
                    reset_runs(); ticks.clear(); touches.clear(); raw = false;
                    sch = std::move(s);
                    std::cout << "ok\n";
                }
                catch (const std::exception &e)
                {
                    if (verbose) std::cerr << e.what() << "\n";
                    std::cout << "err:schema\n";
                }
            }
            else if (op == "tick" && w.size() == 3)
            {
                if (!sch) { std::cout << "err:schema\n"; continue; }
                const long long cyc = std::stoll(w[1]);
                if (!raw_order_ok(cyc, true, ticks, touches))
                {
                    std::cout << "err:order\n";
                    continue;
                }
                try
                {
                    Cursor c{w[2]};
                    (void)parse_delta(*sch, c);
                    if (!c.eof()) throw ParseError("trailing input");
                    ticks.emplace_back(static_cast<std::size_t>(cyc), w[2]);
                    std::cout << "ok\n";
                }
                catch (const ParseError &e)
                {
                    if (verbose) std::cerr << e.what() << "\n";
                    std::cout << "err:parse\n";
                }
            }
            else if (op == "source" && w.size() == 2 && (w[1] == "raw" || w[1] == "delta"))
            {
                if (!sch) { std::cout << "err:schema\n"; continue; }
                if (!ticks.empty() || !touches.empty()) { std::cout << "err:order\n"; continue; }
                raw = w[1] == "raw";
                std::cout << "ok\n";
            }
            else if (op == "touch" && w.size() == 3)
            {
                if (!sch) { std::cout << "err:schema\n"; continue; }
                if (!raw || sch->kind != Kind::TSL || !sch->dyn) { std::cout << "err:mode\n"; continue; }
                long long cyc = -1, idx = -1;
                try { cyc = std::stoll(w[1]); idx = std::stoll(w[2]); }
                catch (...) { std::cout << "err:parse\n"; continue; }
                if (cyc < 0 || idx < 0 || static_cast<std::size_t>(idx) >= DYN_MAX) { std::cout << "err:parse\n"; continue; }
                if (!raw_order_ok(cyc, false, ticks, touches)) { std::cout << "err:order\n"; continue; }
                touches.emplace_back(static_cast<std::size_t>(cyc), static_cast<std::size_t>(idx));
                std::cout << "ok\n";
            }
            else if (op == "record" && w.size() == 1)
            {
                if (!sch) { std::cout << "err:schema\n"; continue; }
                reset_runs();
                if (raw)
                {
                    g_raw_script = build_raw_script(*sch, ticks, touches);
                    run1         = run_graph(*sch, false, [&](GlobalStateView) {}, true);
                    live         = g_values["live"];
                    recorded     = testing::get_recorded_sparse(run1->gs(), RECORDING_KEY);
                    std::cout << print_sparse(*sch, "srec", recorded) << "\n";
                    continue;
                }
                auto seq = build_seed();
                run1     = run_graph(*sch, false, [&](GlobalStateView gs) { testing::set_replay_deltas(gs, "in", seq); });
                live     = g_values["live"];
                recorded = testing::get_recorded_sparse(run1->gs(), RECORDING_KEY);
                std::cout << print_sparse(*sch, "srec", recorded) << "\n";
            }
            else if (op == "asof" && w.size() == 1)
            {
                if (!sch || !run1) { std::cout << "err:norun\n"; continue; }
                const std::size_t hi  = (recorded.empty() ? 0 : recorded.back().first) + 2;
                std::string       out = "asof";
                for (std::size_t c = 0; c <= hi; ++c)
                {
                    const Value *expected = nullptr;
                    for (const auto &[cycle, value] : live)
                    {
                        if (cycle <= c) { expected = &value; }
                    }
                    const std::string live_text = expected ? print_value(*sch, expected->view()) : std::string{"-"};
                    std::string       got_text;
                    bool              same = false;
                    try
                    {
                        const Value got = record_replay::recorded_seed_resolver(
                            run1->gs(), RECORDING_FQ, sch->meta, MIN_ST + MIN_TD * static_cast<std::int64_t>(c));
                        got_text = got.has_value() ? print_value(*sch, got.view()) : std::string{"-"};
                        same     = expected == nullptr ? !got.has_value() : (got.has_value() && got.equals(*expected));
                    }
                    catch (const std::exception &e)
                    {
                        if (verbose) std::cerr << "resolver: " << e.what() << "\n";
                        got_text = "err:" + err_class(e);
                    }
                    out += " " + std::to_string(c) + ":" + got_text + "|" + live_text + "|" + (same ? "=" : "!");
                }
                std::cout << out << "\n";
            }
            else if (op == "onetime" && w.size() == 1)
            {
                if (!sch || !run1) { std::cout << "err:norun\n"; continue; }
                const std::size_t hi  = (recorded.empty() ? 0 : recorded.back().first) + 2;
                std::string       out = "onetime";
                for (std::size_t c = 0; c <= hi; ++c)
                {
                    std::string text;
                    try
                    {
                        TSOutput   acc{sch->meta};
                        const auto view = acc.view(MIN_ST + MIN_TD * static_cast<std::int64_t>(c));
                        for (const auto &[cycle, delta] : recorded)
                        {
                            if (cycle > c) break;
                            apply_delta(view, delta.view());
                        }
                        text = view.valid() ? print_value(*sch, Value{view.value()}.view()) : std::string{"-"};
                    }
                    catch (const std::exception &e)
                    {
                        if (verbose) std::cerr << "onetime: " << e.what() << "\n";
                        text = "err:" + err_class(e);
                    }
                    out += " " + std::to_string(c) + ":" + text;
                }
                std::cout << out << "\n";
            }
            else if (op == "replay" && w.size() == 1)
            {
                if (!sch || !run1) { std::cout << "err:norun\n"; continue; }
                run2.reset();
                g_values.erase("replayed");
                const ValueView rec = run1->gs().get(RECORDING_KEY);
                run2 = run_graph(*sch, true, [&](GlobalStateView gs) {
                    if (rec.valid()) gs.set(RECORDING_KEY, Value{rec});
                });
                replayed = g_values["replayed"];
                std::cout << print_sparse(*sch, "srec2", testing::get_recorded_sparse(run2->gs(), AGAIN_KEY)) << "\n";
            }
            else if (op == "values" && w.size() == 1)
            {
                if (!sch || !run1 || !run2) { std::cout << "err:norun\n"; continue; }
                std::map<std::size_t, std::pair<std::string, std::string>> rows;
                for (const auto &[cycle, value] : live) { rows[cycle] = {print_value(*sch, value.view()), "-"}; }
                for (const auto &[cycle, value] : replayed)
                {
                    auto it = rows.find(cycle);
                    if (it == rows.end()) { rows[cycle] = {"-", print_value(*sch, value.view())}; }
                    else { it->second.second = print_value(*sch, value.view()); }
                }
                std::string out = "vals";
                for (const auto &[cycle, pr] : rows) { out += " " + std::to_string(cycle) + ":" + pr.first + "|" + pr.second; }
                std::cout << out << "\n";
            }
            else { std::cout << "bad-op\n"; }
        }
        catch (const std::exception &e)
        {
            if (verbose) std::cerr << "exception: " << e.what() << "\n";
            std::cout << "err:run:" << err_class(e) << "\n";
        }
    }
    // values of nested dynamic lists need their (function-local static) type contexts: drop them before static destruction
    reset_runs();
    g_raw_script = RawScript{};
    return 0;
}
