// hgv_dispatch: drives the real OperatorRegistry (src/hgraph/types/operator_dispatch.cpp,
// type_pattern.cpp, include/hgraph/types/operator_dispatch.h rank accumulator) with synthetic
// overload families built from textual pattern descriptions.  One output line per input line.
//
//   case <id>                         -> "case <id>"   (registry reset, family cleared)
//   ov <label> <param>* -> <out> [kw] -> "ok <base-rank>"          declare one overload
//        param = ts:<tp> | sc:<sp> ;  out = <tp> | - ;  kw = kw:* (un-annotated **kwargs collector)
//        | kw:<tp> (collector with a declared pack pattern); no call ever supplies a keyword
//        the LAST param may be written *ts:<tp>: a VARIADIC candidate (impl.variadic, that param is the tail
//        pattern, positional_params = the fixed ones).  Its base rank is operator_rank(params, /*skip tail*/ true),
//        exactly what make_operator_graph_impl computes.  A call hands it 0.. tail arguments (positional overflow);
//        a tail argument is a port (ts:<ct>) or a plain value (sc:<st>, promoted to a const: in the model).
//   perm <label>*                     -> "ok"          register the named overloads, in this order,
//                                                      under a fresh private operator name
//   call <arg>*                       -> "solo <l>=ok:<rank>|rej ... ## <perm0 result> ## <perm1 result> ..."
//        arg = ts:<ct> | sc:<st>
//        a perm result is
//          win:<label>:<rank> ts{..} sc{..} sz{..} out=<ct|-> ev=sel:<label>:<rank>;rej:[l:r,..];amb:[]
//          err:no-match ev=sel:-;rej:[..];amb:[]
//          err:ambiguous ev=sel:-;rej:[..];amb:[l:r,..]
//        (calls that would need scalar->const promotion into a FIXED time-series parameter, which is outside
//         the model: "unsupported")
//
// Syntax (no blanks inside one type):
//   <st>  = bool | int | float | str
//   <sp>  = <st> | ~name | ~name<st|st..>
//   <ct>  = TS[st] | TSS[st] | TSL[ct,n] | TSD[st,ct] | TSW[st,p,m] | TSB[f:ct,..] | TSB<name>[f:ct,..] | REF[ct] | SIGNAL
//   <tp>  = ~name | ~name<ct|ct..> | =<ct> | TS[sp] | TSS[sp] | TSL[tp,n] | TSL[tp,~N] | TSL[tp,~N<n|n..>]
//         | TSD[sp,tp] | TSW[sp,p,m] | TSW[sp,*] | TSB[f:tp,..] | TSB<name>[f:tp,..] | TSB[~S] | REF[tp] | SIGNAL
//   TSB<name>[..] is a NAMED bundle (schema: TypeRegistry::tsb(name, fields)) / a named field-listing bundle pattern.
//   Bundles are nominal: TSB<A>[x:..], TSB<B>[x:..] and TSB[x:..] are three different interned schemas with the same
//   field list (lean/HgVerif/Model/Dispatch.lean carries the optional name in the bundle term).  The registry's name
//   space is process-global (one name, one field list; a conflicting re-declaration is answered "bad-op"): the
//   generator of tools/props/c19.py derives every name from the field list.
#include "hgv_common.h"

#include <hgraph/types/graph_wiring.h>
#include <hgraph/types/metadata/type_registry.h>
#include <hgraph/types/operator_dispatch.h>
#include <hgraph/types/type_pattern.h>
#include <hgraph/types/wiring_observer.h>

#include <algorithm>
#include <map>
#include <optional>
#include <stdexcept>

using namespace hgraph;
using namespace hgv;

namespace
{
    struct ParseError : std::runtime_error
    {
        using std::runtime_error::runtime_error;
    };

    struct Cursor
    {
        const std::string &s;
        std::size_t        i{0};
        [[nodiscard]] bool done() const { return i >= s.size(); }
        [[nodiscard]] char peek() const { return i < s.size() ? s[i] : '\0'; }
        bool eat(char c)
        {
            if (peek() == c) { ++i; return true; }
            return false;
        }
        bool eat(const char *w)
        {
            std::size_t n = std::char_traits<char>::length(w);
            if (s.compare(i, n, w) == 0) { i += n; return true; }
            return false;
        }
        void expect(char c)
        {
            if (!eat(c)) { throw ParseError(std::string("expected '") + c + "' in " + s); }
        }
        std::string ident()
        {
            std::size_t j = i;
            while (j < s.size() && (std::isalnum(static_cast<unsigned char>(s[j])) || s[j] == '_')) { ++j; }
            if (j == i) { throw ParseError("identifier expected in " + s); }
            std::string out = s.substr(i, j - i);
            i = j;
            return out;
        }
        std::size_t number()
        {
            std::size_t j = i;
            while (j < s.size() && std::isdigit(static_cast<unsigned char>(s[j]))) { ++j; }
            if (j == i) { throw ParseError("number expected in " + s); }
            std::size_t out = std::stoull(s.substr(i, j - i));
            i = j;
            return out;
        }
    };

    const ValueTypeMetaData *scalar_meta(const std::string &name)
    {
        if (name == "bool") { return scalar_descriptor<Bool>::value_meta(); }
        if (name == "int") { return scalar_descriptor<Int>::value_meta(); }
        if (name == "float") { return scalar_descriptor<Float>::value_meta(); }
        if (name == "str") { return scalar_descriptor<Str>::value_meta(); }
        throw ParseError("unknown scalar " + name);
    }

    std::string scalar_name(const ValueTypeMetaData *m)
    {
        if (m == scalar_descriptor<Bool>::value_meta()) { return "bool"; }
        if (m == scalar_descriptor<Int>::value_meta()) { return "int"; }
        if (m == scalar_descriptor<Float>::value_meta()) { return "float"; }
        if (m == scalar_descriptor<Str>::value_meta()) { return "str"; }
        return "?scalar";
    }

    Value scalar_value(const ValueTypeMetaData *m)
    {
        if (m == scalar_descriptor<Bool>::value_meta()) { return Value{Bool{true}}; }
        if (m == scalar_descriptor<Int>::value_meta()) { return Value{Int{1}}; }
        if (m == scalar_descriptor<Float>::value_meta()) { return Value{Float{1.5}}; }
        return Value{Str{"x"}};
    }

    // ---- concrete schemas -------------------------------------------------------------
    const TSValueTypeMetaData *parse_ct(Cursor &c)
    {
        auto &reg = TypeRegistry::instance();
        if (c.eat("SIGNAL")) { return reg.signal(); }
        if (c.eat("TSS["))
        {
            const auto *s = scalar_meta(c.ident());
            c.expect(']');
            return reg.tss(s);
        }
        if (c.eat("TSL["))
        {
            const auto *e = parse_ct(c);
            c.expect(',');
            std::size_t n = c.number();
            c.expect(']');
            return reg.tsl(e, n);
        }
        if (c.eat("TSD["))
        {
            const auto *k = scalar_meta(c.ident());
            c.expect(',');
            const auto *v = parse_ct(c);
            c.expect(']');
            return reg.tsd(k, v);
        }
        if (c.eat("TSW["))
        {
            const auto *s = scalar_meta(c.ident());
            c.expect(',');
            std::size_t p = c.number();
            c.expect(',');
            std::size_t m = c.number();
            c.expect(']');
            return reg.tsw(s, p, m);
        }
        if (c.eat("TSB<"))
        {
            // a NAMED bundle: TypeRegistry::tsb(name, fields).  The name space is process-global (one name, one
            // field list); a conflicting re-declaration makes the registry throw, reported as a bad line.
            std::string name = c.ident();
            c.expect('>');
            c.expect('[');
            std::vector<std::pair<std::string, const TSValueTypeMetaData *>> fields;
            do
            {
                std::string f = c.ident();
                c.expect(':');
                fields.emplace_back(f, parse_ct(c));
            } while (c.eat(','));
            c.expect(']');
            try { return reg.tsb(name, fields); }
            catch (const std::invalid_argument &e) { throw ParseError(std::string("named bundle: ") + e.what()); }
        }
        if (c.eat("TSB["))
        {
            std::vector<std::pair<std::string, const TSValueTypeMetaData *>> fields;
            do
            {
                std::string f = c.ident();
                c.expect(':');
                fields.emplace_back(f, parse_ct(c));
            } while (c.eat(','));
            c.expect(']');
            return reg.un_named_tsb(fields);
        }
        if (c.eat("REF["))
        {
            const auto *t = parse_ct(c);
            c.expect(']');
            return reg.ref(t);
        }
        if (c.eat("TS["))
        {
            const auto *s = scalar_meta(c.ident());
            c.expect(']');
            return reg.ts(s);
        }
        throw ParseError("bad concrete type " + c.s);
    }

    const TSValueTypeMetaData *parse_ct(const std::string &s)
    {
        Cursor c{s};
        const auto *out = parse_ct(c);
        if (!c.done()) { throw ParseError("trailing input in " + s); }
        return out;
    }

    std::string show_ct(const TSValueTypeMetaData *m)
    {
        if (m == nullptr) { return "null"; }
        switch (m->kind)
        {
            case TSTypeKind::TS: return "TS[" + scalar_name(m->value_schema) + "]";
            case TSTypeKind::TSS:
                return "TSS[" + scalar_name(m->value_schema != nullptr ? m->value_schema->element_type : nullptr) + "]";
            case TSTypeKind::TSL: return "TSL[" + show_ct(m->element_ts()) + "," + std::to_string(m->fixed_size()) + "]";
            case TSTypeKind::TSD: return "TSD[" + scalar_name(m->key_type()) + "," + show_ct(m->element_ts()) + "]";
            case TSTypeKind::TSW:
                if (m->is_duration_based()) { return "TSW[?duration]"; }
                return "TSW[" + scalar_name(m->value_type) + "," + std::to_string(m->period()) + "," +
                       std::to_string(m->min_period()) + "]";
            case TSTypeKind::TSB:
            {
                std::string out = m->is_named_tsb()
                                      ? "TSB<" + std::string{m->bundle_name() != nullptr ? m->bundle_name() : "?"} + ">["
                                      : std::string{"TSB["};
                for (std::size_t i = 0; i < m->field_count(); ++i)
                {
                    if (i != 0) { out += ","; }
                    out += std::string{m->fields()[i].name != nullptr ? m->fields()[i].name : "?"} + ":" +
                           show_ct(m->fields()[i].type);
                }
                return out + "]";
            }
            case TSTypeKind::REF: return "REF[" + show_ct(m->referenced_ts()) + "]";
            case TSTypeKind::SIGNAL: return "SIGNAL";
        }
        return "?";
    }

    // ---- patterns ---------------------------------------------------------------------
    ScalarPattern parse_sp(Cursor &c)
    {
        if (c.eat('~'))
        {
            std::string                            name = c.ident();
            std::vector<const ValueTypeMetaData *> cs;
            if (c.eat('<'))
            {
                do { cs.push_back(scalar_meta(c.ident())); } while (c.eat('|'));
                c.expect('>');
            }
            return ScalarPattern::var(std::move(name), std::move(cs));
        }
        return ScalarPattern::concrete(scalar_meta(c.ident()));
    }

    TypePattern parse_tp(Cursor &c)
    {
        if (c.eat('~'))
        {
            std::string                              name = c.ident();
            std::vector<const TSValueTypeMetaData *> cs;
            if (c.eat('<'))
            {
                do { cs.push_back(parse_ct(c)); } while (c.eat('|'));
                c.expect('>');
            }
            return TypePattern::var(std::move(name), std::move(cs));
        }
        if (c.eat('=')) { return TypePattern::concrete(parse_ct(c)); }
        if (c.eat("SIGNAL")) { return TypePattern::signal(); }
        if (c.eat("TSS["))
        {
            ScalarPattern s = parse_sp(c);
            c.expect(']');
            return TypePattern::tss(std::move(s));
        }
        if (c.eat("TSL["))
        {
            TypePattern e = parse_tp(c);
            c.expect(',');
            if (c.eat('~'))
            {
                std::string              name = c.ident();
                std::vector<std::size_t> cs;
                if (c.eat('<'))
                {
                    do { cs.push_back(c.number()); } while (c.eat('|'));
                    c.expect('>');
                }
                c.expect(']');
                return TypePattern::tsl_var(std::move(e), std::move(name), std::move(cs));
            }
            std::size_t n = c.number();
            c.expect(']');
            return TypePattern::tsl(std::move(e), n);
        }
        if (c.eat("TSD["))
        {
            ScalarPattern k = parse_sp(c);
            c.expect(',');
            TypePattern v = parse_tp(c);
            c.expect(']');
            return TypePattern::tsd(std::move(k), std::move(v));
        }
        if (c.eat("TSW["))
        {
            ScalarPattern s = parse_sp(c);
            c.expect(',');
            if (c.eat('*'))
            {
                c.expect(']');
                return TypePattern::tsw_any(std::move(s));
            }
            std::size_t p = c.number();
            c.expect(',');
            std::size_t m = c.number();
            c.expect(']');
            return TypePattern::tsw(std::move(s), p, m);
        }
        if (c.eat("TSB[~"))
        {
            std::string name = c.ident();
            c.expect(']');
            return TypePattern::tsb_var(std::move(name));
        }
        if (c.eat("TSB<"))
        {
            // a named field-listing bundle pattern (what to_pattern<TSB<Name, Fields...>> lowers to)
            std::string bundle = c.ident();
            c.expect('>');
            c.expect('[');
            std::vector<std::string> names;
            std::vector<TypePattern> children;
            do
            {
                names.push_back(c.ident());
                c.expect(':');
                children.push_back(parse_tp(c));
            } while (c.eat(','));
            c.expect(']');
            return TypePattern::tsb(std::move(names), std::move(children), std::move(bundle), true);
        }
        if (c.eat("TSB["))
        {
            std::vector<std::string> names;
            std::vector<TypePattern> children;
            do
            {
                names.push_back(c.ident());
                c.expect(':');
                children.push_back(parse_tp(c));
            } while (c.eat(','));
            c.expect(']');
            return TypePattern::tsb(std::move(names), std::move(children));
        }
        if (c.eat("REF["))
        {
            TypePattern t = parse_tp(c);
            c.expect(']');
            return TypePattern::ref(std::move(t));
        }
        if (c.eat("TS["))
        {
            ScalarPattern s = parse_sp(c);
            c.expect(']');
            return TypePattern::ts(std::move(s));
        }
        throw ParseError("bad pattern " + c.s);
    }

    TypePattern parse_tp(const std::string &s)
    {
        Cursor      c{s};
        TypePattern out = parse_tp(c);
        if (!c.done()) { throw ParseError("trailing input in " + s); }
        return out;
    }

    ScalarPattern parse_sp(const std::string &s)
    {
        Cursor        c{s};
        ScalarPattern out = parse_sp(c);
        if (!c.done()) { throw ParseError("trailing input in " + s); }
        return out;
    }

    // ---- overload family ----------------------------------------------------------------
    struct OverloadSpec
    {
        std::string               label;
        std::vector<ParamPattern> params;
        bool                      variadic{false};   // the last entry of params is the tail pattern
        bool                      has_output{false};
        TypePattern               output{};
        bool                      has_kwargs{false};
        bool                      has_kwargs_pattern{false};
        TypePattern               kwargs_pattern{};
    };

    OperatorImpl make_impl(const OverloadSpec &spec, const std::string &op_name)
    {
        OperatorImpl impl;
        impl.name       = op_name;
        impl.label      = spec.label;
        impl.params     = spec.params;
        impl.variadic   = spec.variadic;
        if (spec.variadic) { impl.positional_params = spec.params.size() - 1; }
        impl.has_output = spec.has_output;
        impl.output     = spec.output;
        impl.has_kwargs         = spec.has_kwargs;
        impl.has_kwargs_pattern = spec.has_kwargs_pattern;
        impl.kwargs_pattern     = spec.kwargs_pattern;
        // exactly what make_operator_impl / make_operator_graph_impl do for a C++ candidate
        impl.rank = operator_dispatch_detail::operator_rank(impl.params, impl.variadic);
        return impl;
    }

    struct Capture final : WiringObserver
    {
        std::vector<WiringResolutionEvent> events;
        void on_overload_resolution(const WiringResolutionEvent &e) override { events.push_back(e); }
    };

    std::string show_cands(std::vector<WiringCandidateDiagnostic> cands)
    {
        std::sort(cands.begin(), cands.end(), [](const auto &a, const auto &b) {
            return a.label != b.label ? a.label < b.label : a.rank < b.rank;
        });
        std::string out = "[";
        for (std::size_t i = 0; i < cands.size(); ++i)
        {
            if (i != 0) { out += ","; }
            out += cands[i].label + ":" + std::to_string(cands[i].rank);
        }
        return out + "]";
    }

    template <typename M, typename F>
    std::string show_map(const M &m, F show)
    {
        std::vector<std::pair<std::string, std::string>> items;
        for (const auto &[k, v] : m) { items.emplace_back(k, show(v)); }
        std::sort(items.begin(), items.end());
        std::string out = "{";
        for (std::size_t i = 0; i < items.size(); ++i)
        {
            if (i != 0) { out += ","; }
            out += items[i].first + "=" + items[i].second;
        }
        return out + "}";
    }

    struct Outcome
    {
        std::string text;      // the canonical result
        bool        won{false};
        int         rank{0};
    };

    Outcome resolve_once(const std::string &op_name, const std::vector<WiringArg> &args)
    {
        Wiring  w;
        Capture cap;
        w.add_wiring_observer(&cap);
        Outcome     out;
        std::string head;
        try
        {
            ResolvedOperatorCall r = OperatorRegistry::instance().resolve(
                op_name, std::span<const WiringArg>{args.data(), args.size()}, std::nullopt, nullptr, {},
                w.operator_state(), &w);
            int rank = cap.events.empty() || !cap.events.back().selected.has_value() ? -1 : cap.events.back().selected->rank;
            out.won  = true;
            out.rank = rank;
            head     = "win:" + r.impl->label + ":" + std::to_string(rank);
            head += " ts" + show_map(r.map.ts_vars, [](const TSValueTypeMetaData *m) { return show_ct(m); });
            head += " sc" + show_map(r.map.scalar_vars, [](const ValueTypeMetaData *m) { return scalar_name(m); });
            head += " sz" + show_map(r.map.size_vars, [](std::size_t n) { return std::to_string(n); });
            head += " out=";
            head += r.impl->has_output ? show_ct(ts_pattern_resolve(r.impl->output, r.map)) : std::string{"-"};
        }
        catch (const OperatorRequirementsError &) { head = "err:requirements"; }
        catch (const OperatorResolutionError &e)
        {
            const std::string msg = e.what();
            if (msg.rfind("ambiguous overloads", 0) == 0) { head = "err:ambiguous"; }
            else if (msg.rfind("no matching overload", 0) == 0) { head = "err:no-match"; }
            else if (msg.rfind("no operator", 0) == 0) { head = "err:unregistered"; }
            else { head = "err:other"; }
        }
        catch (const std::exception &) { head = "err:other"; }
        std::string ev = " ev=";
        if (cap.events.size() != 1) { ev += "events:" + std::to_string(cap.events.size()); }
        else
        {
            const auto &e = cap.events.back();
            ev += "sel:";
            ev += e.selected.has_value() ? e.selected->label + ":" + std::to_string(e.selected->rank) : std::string{"-"};
            ev += ";rej:" + show_cands(e.rejected) + ";amb:" + show_cands(e.ambiguous);
        }
        out.text = head + ev;
        return out;
    }
}  // namespace

int main()
{
    std::ios::sync_with_stdio(false);
    std::string               case_id = "0";
    std::vector<OverloadSpec> family;
    std::vector<std::string>  perm_names;
    std::size_t               serial = 0;   // process-unique suffix for private operator names
    std::string               line;
    while (std::getline(std::cin, line))
    {
        auto w = split(line);
        if (w.empty()) { std::cout << "\n"; continue; }
        try
        {
            const std::string &op = w[0];
            if (op == "case" && w.size() == 2)
            {
                OperatorRegistry::instance().reset();
                family.clear();
                perm_names.clear();
                case_id = w[1];
                std::cout << line << "\n";
            }
            else if (op == "ov" && w.size() >= 4)
            {
                OverloadSpec spec;
                spec.label = w[1];
                std::size_t i = 2;
                for (; i < w.size() && w[i] != "->"; ++i)
                {
                    ParamPattern p;
                    p.name = "p" + std::to_string(i - 2);
                    if (spec.variadic) { throw ParseError("the variadic parameter must be the last one"); }
                    if (w[i].rfind("*ts:", 0) == 0)
                    {
                        spec.variadic = true;
                        p.kind        = ParamPattern::Kind::Input;
                        p.ts          = parse_tp(w[i].substr(4));
                    }
                    else if (w[i].rfind("ts:", 0) == 0)
                    {
                        p.kind = ParamPattern::Kind::Input;
                        p.ts   = parse_tp(w[i].substr(3));
                    }
                    else if (w[i].rfind("sc:", 0) == 0)
                    {
                        p.kind   = ParamPattern::Kind::Scalar;
                        p.scalar = parse_sp(w[i].substr(3));
                    }
                    else { throw ParseError("bad param " + w[i]); }
                    spec.params.push_back(std::move(p));
                }
                if (i + 2 != w.size() && i + 3 != w.size()) { throw ParseError("expected '-> out [kw]'"); }
                if (w[i + 1] != "-")
                {
                    spec.has_output = true;
                    spec.output     = parse_tp(w[i + 1]);
                }
                if (i + 3 == w.size())
                {
                    if (w[i + 2].rfind("kw:", 0) != 0) { throw ParseError("bad kw " + w[i + 2]); }
                    spec.has_kwargs = true;
                    if (w[i + 2] != "kw:*")
                    {
                        spec.has_kwargs_pattern = true;
                        spec.kwargs_pattern     = parse_tp(w[i + 2].substr(3));
                    }
                }
                for (const auto &o : family)
                {
                    if (o.label == spec.label) { throw ParseError("duplicate label"); }
                }
                const int rank = operator_dispatch_detail::operator_rank(spec.params, spec.variadic);
                family.push_back(std::move(spec));
                std::cout << "ok " << rank << "\n";
            }
            else if (op == "perm" && w.size() >= 2)
            {
                std::string name = "hgv.c19." + case_id + "." + std::to_string(serial++);
                std::vector<const OverloadSpec *> chosen;
                for (std::size_t i = 1; i < w.size(); ++i)
                {
                    const OverloadSpec *found = nullptr;
                    for (const auto &o : family)
                    {
                        if (o.label == w[i]) { found = &o; }
                    }
                    if (found == nullptr) { throw ParseError("unknown label " + w[i]); }
                    chosen.push_back(found);
                }
                for (const OverloadSpec *o : chosen) { OperatorRegistry::instance().register_overload(make_impl(*o, name)); }
                perm_names.push_back(std::move(name));
                std::cout << "ok\n";
            }
            else if (op == "call")
            {
                std::vector<WiringArg> args;
                for (std::size_t i = 1; i < w.size(); ++i)
                {
                    WiringArg a;
                    if (w[i].rfind("ts:", 0) == 0)
                    {
                        a.kind        = WiringArg::Kind::TimeSeries;
                        a.port.schema = parse_ct(w[i].substr(3));
                    }
                    else if (w[i].rfind("sc:", 0) == 0)
                    {
                        a.kind         = WiringArg::Kind::Scalar;
                        a.scalar_meta  = scalar_meta(w[i].substr(3));
                        a.scalar_value = scalar_value(a.scalar_meta);
                    }
                    else { throw ParseError("bad arg " + w[i]); }
                    args.push_back(std::move(a));
                }
                // scalar -> const promotion into a FIXED time-series parameter is outside the model
                // (a plain value in a variadic TAIL is modelled)
                bool unsupported = false;
                for (const auto &o : family)
                {
                    const std::size_t fixed = o.variadic ? o.params.size() - 1 : o.params.size();
                    if (o.variadic ? args.size() < fixed : o.params.size() != args.size()) { continue; }
                    for (std::size_t i = 0; i < fixed; ++i)
                    {
                        if (args[i].kind == WiringArg::Kind::Scalar && o.params[i].kind == ParamPattern::Kind::Input)
                        {
                            unsupported = true;
                        }
                    }
                }
                if (unsupported) { std::cout << "unsupported\n"; continue; }
                std::string out = "solo";
                for (const auto &o : family)
                {
                    std::string solo_name = "hgv.c19.solo." + std::to_string(serial++);
                    OperatorRegistry::instance().register_overload(make_impl(o, solo_name));
                    Outcome r = resolve_once(solo_name, args);
                    out += " " + o.label + "=" + (r.won ? "ok:" + std::to_string(r.rank) : std::string{"rej"});
                }
                for (const auto &name : perm_names) { out += " ## " + resolve_once(name, args).text; }
                std::cout << out << "\n";
            }
            else { std::cout << "bad-op\n"; }
        }
        catch (const ParseError &e) { std::cout << "bad-op\n"; }
        catch (const std::exception &e) { std::cout << "err:other\n"; }
    }
    return 0;
}
