// hgv_push: drives the REAL push source (push_source_node.cpp: PushSourceSender /
// PushSourceSenderControl / QueuePolicyStorage / ConflatingPolicyStorage), the real-time
// executor's push_update_pending flag (executor.cpp) and the push phase of graph.cpp
// evaluate_impl from a schedule of steps (C16).  No source hooks are used: a single controller
// thread issues the steps in order; every send runs on its own producer thread and is joined
// before the next step unless it blocks inside send_blocking (bounded queue at capacity), in
// which case it stays blocked until a later step (a cycle that pops, or the graph stop) releases
// it.  The mutex-protected sections are therefore executed one after the other, in schedule order.
//
// Lines (one output line per input line):
//   case <n>
//   cfg <cap> <policy q|b|c>
//   sched <step> ...     S start | t<i>:<v> try_send | b<i>:<v> send_blocking | c cycle |
//                        r request_stop | X graph stop
//   -> per step "<step>[=<result>] [+b<i>:<v>=<r> ...] p<pending_items> f<flag>", joined by " | ",
//      then "accepted=[..] delivered=[t:v ..]"
#include "hgv_common.h"

#include <hgraph/lib/testing/runtime_support.h>
#include <hgraph/runtime/push_source_node.h>
#include <hgraph/runtime/runtime.h>
#include <hgraph/types/static_schema.h>
#include <hgraph/types/type_resolution.h>
#include <hgraph/util/verif_hooks.h>

#include <atomic>
#include <chrono>
#include <functional>
#include <future>
#include <map>
#include <mutex>
#include <memory>
#include <optional>
#include <thread>

using namespace hgraph;
using namespace hgv;

namespace
{
    struct Outstanding
    {
        int               producer;
        std::int64_t      value;
        std::future<int>  result;     // 1 accepted, 0 refused, -1 threw
        std::thread       thread;
    };

    struct Run
    {
        std::size_t  cap{0};
        char         policy{'q'};
        bool         started{false}, stopped{false}, rstop{false};
        std::int64_t time{1000};
        PushSourceSender sender;
        std::vector<std::string> cycle_vals;     // values the sink saw in the current cycle
        std::vector<std::string> delivered;      // "t:v"
        std::vector<std::int64_t> accepted;
        std::vector<Outstanding>  blocked;
    };

    std::string res_str(int r) { return r == 1 ? "1" : (r == 0 ? "0" : "E"); }

    NodeBuilder int_sink(const TSValueTypeMetaData &input_schema, const TSValueTypeMetaData &input_ts, Run &run)
    {
        NodeTypeMetaData schema;
        schema.display_name = "hgv_push_sink";
        schema.input_schema = &input_schema;
        schema.node_kind    = NodeKind::Sink;
        NodeCallbacks callbacks;
        callbacks.evaluate = [&run](const NodeView &view, DateTime evaluation_time) {
            auto root   = view.input(evaluation_time);
            auto bundle = root.as_bundle();
            auto in     = bundle[0];
            run.cycle_vals.push_back(std::to_string(in.value().checked_as<Int>()));
        };
        return NodeBuilder::native(std::move(schema), std::move(callbacks),
                                   hgraph::testing::single_input_endpoint(input_schema, input_ts));
    }

    NodeBuilder tuple_sink(const TSValueTypeMetaData &input_schema, const TSValueTypeMetaData &input_ts, Run &run)
    {
        NodeTypeMetaData schema;
        schema.display_name = "hgv_push_tuple_sink";
        schema.input_schema = &input_schema;
        schema.node_kind    = NodeKind::Sink;
        NodeCallbacks callbacks;
        callbacks.evaluate = [&run](const NodeView &view, DateTime evaluation_time) {
            auto root   = view.input(evaluation_time);
            auto bundle = root.as_bundle();
            auto tuple  = bundle[0].value().as_list();
            std::string s = "[";
            for (std::size_t i = 0; i < tuple.size(); ++i) { s += (i ? "," : "") + std::to_string(tuple[i].checked_as<Int>()); }
            run.cycle_vals.push_back(s + "]");
        };
        return NodeBuilder::native(std::move(schema), std::move(callbacks),
                                   hgraph::testing::single_input_endpoint(input_schema, input_ts));
    }

    // ------------------------------------------------------------------ optional protocol points
    // When push_source_node.cpp is built with the HGRAPH_VERIF_POINTs "push.admitted" (a send was
    // admitted, its mark has not happened yet) and "push.popped" (the push node popped, its re-arm
    // has not happened yet), a schedule step may carry one nested step in braces that is executed
    // at that point, on the thread that reached it:  t1:5{c}  b1:5{r}  c{t2:7}.
    struct Nest
    {
        const char                              *point{nullptr};
        std::string                              step;
        std::function<std::string(const std::string &)> exec;
        std::function<void()>                    on_fire;
        bool                                     armed{false}, fired{false};
        std::string                              out;
    };
    Nest g_nest;

    int g_points_seen = 0;

    void hook_point(void *, const char *name)
    {
        ++g_points_seen;
        if (!g_nest.armed || g_nest.fired || g_nest.point == nullptr || std::string(name) != g_nest.point) { return; }
        g_nest.fired = true;
        if (g_nest.on_fire) { g_nest.on_fire(); }
        g_nest.out = g_nest.exec(g_nest.step);
    }

    const verif::Hooks g_hooks{nullptr, nullptr, nullptr, &hook_point};

    std::string run_schedule(std::size_t cap, char policy, const std::vector<std::string> &steps)
    {
        Run run;
        run.cap = cap;
        run.policy = policy;
        std::vector<std::string> out;

        const auto *ts_int   = ts_type<TS<Int>>();
        const auto *ts_tuple = ts_type<TS<HomogeneousTuple<Int>>>();
        const TSValueTypeMetaData *out_ts = policy == 'b' ? ts_tuple : ts_int;
        const auto *input_schema = hgraph::testing::single_input_schema(*out_ts);

        PushSourcePolicy pol = policy == 'b'   ? make_push_source_burst_policy(*ts_tuple, cap)
                               : policy == 'c' ? make_push_source_conflating_policy(*ts_int)
                                               : make_push_source_queue_policy(*ts_int, cap);
        GraphBuilder gb;
        gb.add_node(make_push_source_node(*out_ts, pol, [&run](PushSourceSender s) { run.sender = std::move(s); }));
        gb.add_node(policy == 'b' ? tuple_sink(*input_schema, *out_ts, run) : int_sink(*input_schema, *out_ts, run));
        gb.add_edge(GraphEdge{.source_node = make_graph_edge_source(0), .source_path = {}, .target_node = 1, .target_path = {0}});

        GraphExecutorBuilder eb;
        eb.graph_builder(std::move(gb)).mode(GraphExecutorMode::RealTime).start_time(dt(1000)).end_time(dt(100000000));
        GraphExecutorValue executor = eb.make_executor();
        GraphExecutorView  view     = executor.view();
        GraphView          graph    = view.graph();

        auto pending = [&]() -> std::size_t {
            if (!run.started || run.stopped) { return 0; }
            auto m = graph.node_at(0).inspection_metrics().pending_items;
            return m.has_value() ? *m : 0;
        };
        auto flag = [&]() { return view.push_queue_engine().is_push_update_pending(); };
        auto full_now = [&]() { return run.policy != 'c' && run.cap != 0 && pending() >= run.cap; };

        // Completions of parked senders.  `expect` = how many the last step must have released (a cycle
        // that popped frees room and notifies; the graph stop wakes every waiter): those are awaited
        // (a sender that does not come back within 2 s is reported as "+stuck"); any other sender
        // that has already returned is collected without waiting.
        auto settle = [&](std::string &line, std::size_t expect) {
            for (;;)
            {
                if (run.blocked.empty()) { return; }
                const auto deadline = std::chrono::steady_clock::now() +
                                      (expect > 0 ? std::chrono::seconds{2} : std::chrono::milliseconds{0});
                std::size_t ready = run.blocked.size();
                do
                {
                    for (std::size_t i = 0; i < run.blocked.size(); ++i)
                    {
                        if (run.blocked[i].result.wait_for(std::chrono::seconds{0}) == std::future_status::ready) { ready = i; break; }
                    }
                    if (ready != run.blocked.size()) { break; }
                    std::this_thread::sleep_for(std::chrono::microseconds{100});
                } while (std::chrono::steady_clock::now() < deadline);
                if (ready == run.blocked.size())
                {
                    if (expect > 0) { line += " +stuck"; }
                    return;
                }
                Outstanding o = std::move(run.blocked[ready]);
                run.blocked.erase(run.blocked.begin() + static_cast<std::ptrdiff_t>(ready));
                const int r = o.result.get();
                o.thread.join();
                if (r == 1) { run.accepted.push_back(o.value); }
                line += " +b" + std::to_string(o.producer) + ":" + std::to_string(o.value) + "=" + res_str(r);
                if (expect > 0) { --expect; }
            }
        };

        std::size_t expect = 0;
        // one plain step (no braces); `inline_send`: run a try_send on the calling thread (nested use)
        std::function<std::string(const std::string &, bool)> plain = [&](const std::string &st, bool nested) -> std::string {
            std::string line = st;
            if (st == "S")
            {
                if (run.started) { line += "=-"; }
                else { graph.start(dt(run.time)); run.started = true; }
            }
            else if (st == "c")
            {
                if (!run.started || run.stopped || run.rstop) { line += ":-"; }
                else
                {
                    run.time += 1;
                    run.cycle_vals.clear();
                    graph.evaluate(dt(run.time));
                    const std::vector<std::string> vals = run.cycle_vals;      // a nested send cannot add to it
                    line += std::to_string(run.time) + ":";
                    if (vals.empty()) { line += "-"; }
                    for (std::size_t i = 0; i < vals.size(); ++i)
                    {
                        line += (i ? "," : "") + vals[i];
                        run.delivered.push_back(std::to_string(run.time) + ":" + vals[i]);
                    }
                    // a pop made room: queue policy one slot, burst the whole capacity
                    if (!vals.empty()) { expect = std::min(run.blocked.size(), run.policy == 'b' ? run.cap : std::size_t{1}); }
                }
            }
            else if (st == "r") { view.request_stop(); run.rstop = true; }
            else if (st == "X")
            {
                if (!run.started || run.stopped) { line += "=-"; }
                else { graph.stop(dt(run.time)); run.stopped = true; expect = run.blocked.size(); }
            }
            else if ((st[0] == 't' || st[0] == 'b') && st.find(':') != std::string::npos)
            {
                const auto   c        = st.find(':');
                const int    producer = static_cast<int>(to_i(st.substr(1, c - 1)));
                const auto   value    = to_i(st.substr(c + 1));
                const bool   blocking = st[0] == 'b';
                bool busy = false;
                for (const auto &o : run.blocked) { busy = busy || o.producer == producer; }
                if (busy) { line += "=busy"; }
                else if (nested)
                {
                    // at a protocol point: a non-blocking send on the thread that reached the point
                    int r = -1;
                    try { r = run.sender.try_send(Int{value}) ? 1 : 0; } catch (...) {}
                    if (r == 1) { run.accepted.push_back(value); }
                    line += "=" + res_str(r);
                }
                else
                {
                    // does the real state predict that this call parks in capacity_available.wait?
                    const bool expect_block = blocking && run.started && !run.stopped && !run.rstop && full_now();
                    bool recorded = false;
                    g_nest.on_fire = [&run, &recorded, value] { run.accepted.push_back(value); recorded = true; };
                    std::promise<int> promise;
                    Outstanding o{producer, value, promise.get_future(), {}};
                    PushSourceSender sender = run.sender;
                    auto running = std::make_shared<std::atomic<bool>>(false);
                    o.thread = std::thread([sender, value, blocking, running, p = std::move(promise)]() mutable {
                        running->store(true, std::memory_order_release);
                        try { p.set_value((blocking ? sender.send_blocking(Int{value}) : sender.try_send(Int{value})) ? 1 : 0); }
                        catch (...) { p.set_value(-1); }
                    });
                    // the 30 ms that tell "parked" from "returned" start once the thread is really running
                    // (on a loaded machine the new thread may not be scheduled for longer than that)
                    while (!running->load(std::memory_order_acquire)) { std::this_thread::yield(); }
                    const auto wait = expect_block ? std::chrono::milliseconds{30} : std::chrono::milliseconds{10000};
                    if (o.result.wait_for(wait) == std::future_status::ready)
                    {
                        const int r = o.result.get();
                        o.thread.join();
                        if (r == 1 && !recorded) { run.accepted.push_back(value); }
                        line += "=" + res_str(r);
                    }
                    else
                    {
                        line += "=B";
                        run.blocked.push_back(std::move(o));
                    }
                    g_nest.on_fire = nullptr;
                }
            }
            else { line += "=?"; }
            return line;
        };
        auto status = [&] { return " p" + std::to_string(pending()) + " f" + (flag() ? "1" : "0"); };

        verif::install(&g_hooks);
        for (const std::string &full : steps)
        {
            expect = 0;
            std::string st = full, inner;
            const auto  br = full.find('{');
            if (br != std::string::npos) { st = full.substr(0, br); inner = full.substr(br + 1, full.size() - br - 2); }
            g_nest = Nest{};
            if (!inner.empty())
            {
                g_nest.point = st == "c" ? "push.popped" : "push.admitted";
                g_nest.step  = inner;
                g_nest.exec  = [&](const std::string &x) { std::string r = plain(x, true); r += status(); return r; };
                g_nest.armed = true;
            }
            std::string line = plain(st, false);
            if (!inner.empty()) { line += "{" + (g_nest.fired ? g_nest.out : std::string("-")) + "}"; }
            g_nest = Nest{};
            settle(line, expect);
            line += status();
            out.push_back(line);
        }
        verif::install(nullptr);
        // release whatever is still blocked so the threads can be joined
        if (run.started && !run.stopped) { graph.stop(dt(run.time)); run.stopped = true; }
        std::string tail;
        settle(tail, run.blocked.size());
        for (auto &o : run.blocked) { if (o.thread.joinable()) { o.thread.detach(); } }
        run.sender = PushSourceSender{};

        std::string result;
        for (std::size_t i = 0; i < out.size(); ++i) { result += (i ? " | " : "") + out[i]; }
        result += " | end" + tail + " accepted=[";
        for (std::size_t i = 0; i < run.accepted.size(); ++i) { result += (i ? "," : "") + std::to_string(run.accepted[i]); }
        result += "] delivered=[";
        for (std::size_t i = 0; i < run.delivered.size(); ++i) { result += (i ? " " : "") + run.delivered[i]; }
        result += "]";
        return result;
    }

    // ------------------------------------------------------------------ real threads (monitor-only stream)
    // `stress <producers> <messages> <cap> <mode 0 blocking | 1 try+retry | 2 mixed>`: the REAL real-time
    // executor runs on its own thread (no hooks installed: production clock, mutexes and condition
    // variables), the producers hammer the sender concurrently.  The interleaving is whatever the
    // OS picks; the output holds only the verdict-level facts the monitor needs.
    std::string run_stress(int producers, int messages, std::size_t cap, int mode)
    {
        const auto *ts_int       = ts_type<TS<Int>>();
        const auto *input_schema = hgraph::testing::single_input_schema(*ts_int);
        std::mutex                                        mu;
        std::vector<std::pair<std::int64_t, std::int64_t>> delivered;   // (evaluation time, value)
        std::atomic<bool>                                 have_sender{false};
        PushSourceSender                                  sender;

        NodeTypeMetaData schema;
        schema.display_name = "hgv_push_stress_sink";
        schema.input_schema = input_schema;
        schema.node_kind    = NodeKind::Sink;
        NodeCallbacks callbacks;
        callbacks.evaluate = [&](const NodeView &view, DateTime evaluation_time) {
            auto root   = view.input(evaluation_time);
            auto bundle = root.as_bundle();
            auto in     = bundle[0];
            std::lock_guard lock{mu};
            delivered.emplace_back(us(evaluation_time), in.value().checked_as<Int>());
        };
        GraphBuilder gb;
        gb.add_node(make_push_source_node(*ts_int, make_push_source_queue_policy(*ts_int, cap), [&](PushSourceSender s) {
            sender = std::move(s);
            have_sender.store(true, std::memory_order_release);
        }));
        gb.add_node(NodeBuilder::native(std::move(schema), std::move(callbacks),
                                        hgraph::testing::single_input_endpoint(*input_schema, *ts_int)));
        gb.add_edge(GraphEdge{.source_node = make_graph_edge_source(0), .source_path = {}, .target_node = 1, .target_path = {0}});

        const DateTime start = hgraph::testing::wall_now();
        GraphExecutorBuilder eb;
        eb.graph_builder(std::move(gb)).mode(GraphExecutorMode::RealTime).start_time(start).end_time(start + TimeDelta{300'000'000});
        GraphExecutorValue executor = eb.make_executor();
        GraphExecutorView  view     = executor.view();
        std::string        run_error;
        std::thread        runner([&] {
            try { view.run(); }
            catch (const std::exception &e) { run_error = e.what(); }
        });
        const auto t0 = std::chrono::steady_clock::now();
        while (!have_sender.load(std::memory_order_acquire) && std::chrono::steady_clock::now() - t0 < std::chrono::seconds{60})
        {
            std::this_thread::sleep_for(std::chrono::microseconds{100});
        }
        std::atomic<std::int64_t> refused{0}, failed{0};
        std::atomic<bool>         give_up{false};     // set once the verdict (timeout) is in: retry loops end
        std::atomic<std::size_t>  max_pending{0};
        std::vector<std::thread>  threads;
        const std::size_t         total = static_cast<std::size_t>(producers) * static_cast<std::size_t>(messages);
        if (have_sender.load())
        {
            for (int p = 0; p < producers; ++p)
            {
                threads.emplace_back([&, p] {
                    PushSourceSender mine = sender;
                    for (int k = 0; k < messages; ++k)
                    {
                        const std::int64_t value = static_cast<std::int64_t>(p) * 1'000'000 + k;
                        const bool blocking = mode == 0 || (mode == 2 && (p + k) % 2 == 0);
                        if (blocking) { if (!mine.send_blocking(Int{value})) { ++failed; } }
                        else
                        {
                            const auto s0 = std::chrono::steady_clock::now();
                            while (!mine.try_send(Int{value}))
                            {
                                ++refused;
                                std::this_thread::yield();
                                if (give_up.load() || std::chrono::steady_clock::now() - s0 > std::chrono::seconds{15}) { ++failed; break; }
                            }
                            if (give_up.load()) { return; }
                        }
                    }
                });
            }
        }
        // sample pending_items while the producers run
        auto sample = [&] {
            auto m = view.graph().node_at(0).inspection_metrics().pending_items;
            if (m.has_value())
            {
                std::size_t cur = max_pending.load();
                while (*m > cur && !max_pending.compare_exchange_weak(cur, *m)) {}
            }
        };
        bool timeout = false;
        const auto t1 = std::chrono::steady_clock::now();
        for (;;)
        {
            sample();
            std::size_t n;
            { std::lock_guard lock{mu}; n = delivered.size(); }
            if (n >= total - static_cast<std::size_t>(failed.load()) && n >= total) { break; }
            if (std::chrono::steady_clock::now() - t1 > std::chrono::seconds{15}) { timeout = true; break; }
            std::this_thread::sleep_for(std::chrono::microseconds{50});
        }
        if (timeout) { give_up.store(true); view.request_stop(); }      // releases parked senders through the graph stop
        for (auto &t : threads) { t.join(); }
        view.request_stop();
        runner.join();

        // verdict-level facts
        std::lock_guard lock{mu};
        std::map<std::int64_t, std::int64_t> last;     // producer -> last k delivered
        std::size_t dup = 0, order_bad = 0, time_bad = 0;
        std::map<std::int64_t, int> seen;
        for (std::size_t i = 0; i < delivered.size(); ++i)
        {
            const auto [t, v] = delivered[i];
            const std::int64_t p = v / 1'000'000, k = v % 1'000'000;
            if (seen[v]++ > 0) { ++dup; }
            auto it = last.find(p);
            if (it != last.end() && k <= it->second) { ++order_bad; }
            if (it == last.end() && k != 0) { ++order_bad; }
            if (it != last.end() && k != it->second + 1) { ++order_bad; }
            last[p] = k;
            if (i > 0 && t <= delivered[i - 1].first) { ++time_bad; }
        }
        std::string r = "stress sent=" + std::to_string(total) + " failed=" + std::to_string(failed.load()) +
                        " delivered=" + std::to_string(delivered.size()) + " dup=" + std::to_string(dup) +
                        " order_bad=" + std::to_string(order_bad) + " time_bad=" + std::to_string(time_bad) +
                        " maxpend=" + std::to_string(max_pending.load()) + " cap=" + std::to_string(cap) +
                        " refused=" + std::string(refused.load() > 0 ? "some" : "none") +
                        " timeout=" + (timeout ? "1" : "0") + (run_error.empty() ? "" : " run_error=" + run_error);
        return r;
    }
}  // namespace

int main()
{
    std::ios::sync_with_stdio(false);
    std::string line;
    std::size_t cap = 0;
    char        policy = 'q';
    while (std::getline(std::cin, line))
    {
        auto w = split(line);
        try
        {
            if (w.empty()) { std::cout << "\n"; continue; }
            if (w[0] == "case" && w.size() == 2) { cap = 0; policy = 'q'; std::cout << line << "\n"; }
            else if (w[0] == "cfg" && w.size() == 3 && (w[2] == "q" || w[2] == "b" || w[2] == "c"))
            {
                cap = static_cast<std::size_t>(to_i(w[1]));
                policy = w[2][0];
                std::cout << "ok\n";
            }
            else if (w[0] == "points" && w.size() == 1)
            {
                // are the optional protocol points compiled into push_source_node.cpp?
                g_points_seen = 0;
                (void)run_schedule(0, 'q', {"S", "t1:1", "c"});
                std::cout << "points=" << (g_points_seen > 0 ? 1 : 0) << "\n";
            }
            else if (w[0] == "stress" && w.size() == 5)
            {
                std::cout << run_stress(static_cast<int>(to_i(w[1])), static_cast<int>(to_i(w[2])),
                                        static_cast<std::size_t>(to_i(w[3])), static_cast<int>(to_i(w[4])))
                          << "\n";
            }
            else if (w[0] == "sched")
            {
                std::vector<std::string> steps(w.begin() + 1, w.end());
                bool ok = true;
                auto plain_ok = [](const std::string &s) {
                    const bool simple = s == "S" || s == "c" || s == "r" || s == "X";
                    bool send = false;
                    if (!simple && !s.empty() && (s[0] == 't' || s[0] == 'b'))
                    {
                        const auto c = s.find(':');
                        send = c != std::string::npos && c > 1 && c + 1 < s.size() &&
                               s.substr(1, c - 1).find_first_not_of("0123456789") == std::string::npos &&
                               s.substr(c + 1).find_first_not_of("0123456789") == std::string::npos;
                    }
                    return simple || send;
                };
                for (const auto &full : steps)
                {
                    std::string s = full;
                    const auto  br = full.find('{');
                    if (br != std::string::npos)
                    {
                        // outer: a send or a cycle; inner: c / r / a try_send
                        const std::string inner = full.back() == '}' ? full.substr(br + 1, full.size() - br - 2) : "{";
                        s = full.substr(0, br);
                        const bool outer_ok = s == "c" || (!s.empty() && (s[0] == 't' || s[0] == 'b'));
                        const bool inner_ok = inner == "c" || inner == "r" || (!inner.empty() && inner[0] == 't');
                        ok = ok && outer_ok && inner_ok && plain_ok(inner) && (s == "c" ? inner[0] == 't' : inner[0] != 't');
                    }
                    const bool simple = s == "S" || s == "c" || s == "r" || s == "X";
                    bool send = false;
                    if (!simple && (s[0] == 't' || s[0] == 'b'))
                    {
                        const auto c = s.find(':');
                        send = c != std::string::npos && c > 1 && c + 1 < s.size() &&
                               s.substr(1, c - 1).find_first_not_of("0123456789") == std::string::npos &&
                               s.substr(c + 1).find_first_not_of("0123456789") == std::string::npos;
                    }
                    ok = ok && (simple || send);
                }
                if (!ok) { std::cout << "bad-op\n"; continue; }
                std::cout << run_schedule(cap, policy, steps) << "\n";
            }
            else { std::cout << "bad-op\n"; }
        }
        catch (const std::exception &e) { std::cout << "err:" << e.what() << "\n"; }
    }
    return 0;
}
