// hgv_map: runs a REAL graph
//     replay(TSD<Int,TS<Int>> "a") [, replay(TSD "b")] [, replay(TS<Int> "z")] -> map_(f, ...) -> record
// compiled from the working tree, in simulation, for a textual key/element history and prints what was
// observed per engine cycle.  One output line per input line.
//
//   case <id>                      -> "case <id>"      (flushes a pending history first)
//   cfg <fn> <key> <err>           -> "ok" | "bad-op"
//        fn : inc | acc | addkey | echo1 | echo2 | echo3 | echov | even | neg | negecho | eguard | addb | pair | nest
//             inc     stateless           out = v + 1
//             acc     stateful            out = running sum of the ticks
//             addkey  key-consuming       out = v + 1000 * key                       (needs key = 1)
//             echoK   self-scheduling     on a tick: out = v, and K steps later out = v + 100 (tagged
//                                         NodeScheduler event; a newer tick replaces the pending one)
//             echov   self-scheduling     as echoK with K = 1 + (v mod 3): a newer tick can move the wake-up earlier
//             even    sometimes invalid   out = v only when v is even
//             neg     throwing            throws on v < 0, else out = running sum
//             negecho throwing + self-scheduling in ONE child: thrower node ranked before an echo2 node
//             eguard  the same nodes with the echo2 node ranked BEFORE the thrower
//             addb    broadcast argument  out = v + z            (z: a TS<Int> bound whole to every child)
//             pair    two multiplexed dictionaries with differing key sets: out = a[k] + 1000 * b[k]
//             nest    nested map: elements are TSD<Int,TS<Int>>, the child is map_(inc, element)
//           reference-routed child outputs (the map element FORWARDS to the child's terminal; binding mode
//           OutputElementForwardsToChildTerminal) -- the child's output can go from valid to INVALID (empty reference):
//             evenref   out = if_(v % 2 == 0, v).true         (valid exactly while the key's own element is even)
//             flagref   out = if_(flag[k], a[k]).true         (two multiplexed dictionaries: a, and per-key flags
//                                                             fed by `bset <k> <0|1>` / `bdel <k>` as TSD<Int,TS<Bool>>)
//             bflagref  out = if_(z, a[k]).true               (z: ONE broadcast TS<Bool> fed by `z <0|1>`)
//             swref     out = switch_(v mod 3, {0: v, 1: v + 1000, 2: a node that never emits})(v)
//        key: 0 | 1   the function takes the key as first argument `key` (a tag node then maps every child
//                     graph to its key, so lifecycle/evaluation events are printed per key)
//        err: 0 | 1   exception_time_series on the map (keyed error capture), errors recorded as TSD<Int,TS<Int>>
//   c [set <k> <v> | del <k> | bset <k> <v> | bdel <k> | z <v> | tick | nset <k> <j> <v> | ndel <k> <j>]*
//        one engine cycle (MIN_ST + i); answered when the run happens:
//        "rec=<delta|-> val=<value|_> ev=<events|-> run=<keys|-> act=<n> cg=<n> [erec=<delta|-> eval=<value|_>]"
//          delta : {-k,..,k=v,..}  removed (sorted) then modified (sorted); value: {k=v,..} sorted (valid elements only;
//                  elements present but not valid are listed as k=_)
//          ev    : child-graph stop events (-k, sorted) then start events (+k, sorted); `?` when the key is unknown
//          run   : keys of the child graphs evaluated in this cycle, sorted
//          act/cg: MapNodeView::active_count() / child_graph_count() after the cycle
//        "idle" the root graph was not evaluated in that cycle
//   run                            -> "end ev=<stop events at shutdown>"
//        for the reference-routed functions `k=_` marks a live key whose child output is NOT valid (empty reference);
//        HGV_DEBUG_ELEM=1 appends `@lm<last_modified_time><dv|di><m>` of every element (diagnosis only)
// A history is run when `run`, the next `case` or EOF is read.  Errors -> "err:<class>".
#include "hgv_common.h"

#include <hgraph/lib/std/std_nodes.h>
#include <hgraph/lib/std/std_operators.h>
#include <hgraph/lib/std/operators/impl/record_replay_memory_impl.h>
#include <hgraph/lib/testing/record_replay.h>
#include <hgraph/runtime/lifecycle_observer.h>
#include <hgraph/runtime/map_node.h>
#include <hgraph/runtime/node_error.h>
#include <hgraph/runtime/runtime.h>
#include <hgraph/types/graph_wiring.h>
#include <hgraph/types/metadata/type_registry.h>
#include <hgraph/types/operator_dispatch.h>
#include <hgraph/types/static_node.h>
#include <hgraph/types/subgraph_wiring.h>
#include <hgraph/types/wired_fn.h>

#include <algorithm>
#include <map>
#include <optional>
#include <set>
#include <stdexcept>

using namespace hgraph;
using namespace hgv;

namespace
{
    using IntDict  = TSD<Int, TS<Int>>;
    using NestDict = TSD<Int, TSD<Int, TS<Int>>>;

    // ---- child graph -> key registry (filled by the tag node, read by the observer) -------------
    std::map<const void *, Int> g_graph_key;   // live child graph memory -> key (erased on start of that memory)

    // ---- vocabulary nodes ------------------------------------------------------------------------
    struct HTag
    {
        static constexpr auto name = "hgv_tag";
        static void eval(NodeView node, In<"key", TS<Int>> key) { g_graph_key[node.graph().data()] = key.value(); }
    };

    struct HInc
    {
        static constexpr auto name = "hgv_inc";
        static void eval(In<"ts", TS<Int>> ts, Out<TS<Int>> out) { out.set(ts.value() + Int{1}); }
    };

    struct HAcc
    {
        static constexpr auto name = "hgv_acc";
        static void start(State<Int> total) { total.set(Int{0}); }
        static void eval(In<"ts", TS<Int>> ts, State<Int> total, Out<TS<Int>> out)
        {
            total.set(total.get() + ts.value());
            out.set(total.get());
        }
    };

    struct HAddKey
    {
        static constexpr auto name = "hgv_addkey";
        static void eval(In<"key", TS<Int>> key, In<"ts", TS<Int>> ts, Out<TS<Int>> out)
        {
            out.set(ts.value() + Int{1000} * key.value());
        }
    };

    template <int K>
    struct HEcho
    {
        static constexpr const char *name = K == 1 ? "hgv_echo1" : K == 2 ? "hgv_echo2" : "hgv_echo3";
        static void start(State<Int> echo) { echo.set(Int{0}); }
        static void eval(In<"ts", TS<Int>> ts, NodeScheduler sched, State<Int> echo, Out<TS<Int>> out)
        {
            if (ts.modified())
            {
                out.set(ts.value());
                echo.set(ts.value() + Int{100});
                sched.schedule(TimeDelta{K}, std::optional<std::string>{"e"});
            }
            else { out.set(echo.get()); }
        }
    };

    // self-scheduling with a value-dependent delay (1..3 steps): a newer tick can move the pending wake-up EARLIER
    struct HEchoV
    {
        static constexpr auto name = "hgv_echov";
        static void start(State<Int> echo) { echo.set(Int{0}); }
        static void eval(In<"ts", TS<Int>> ts, NodeScheduler sched, State<Int> echo, Out<TS<Int>> out)
        {
            if (ts.modified())
            {
                out.set(ts.value());
                echo.set(ts.value() + Int{100});
                sched.schedule(TimeDelta{1 + ((ts.value() % 3) + 3) % 3}, std::optional<std::string>{"e"});
            }
            else { out.set(echo.get()); }
        }
    };

    struct HEven
    {
        static constexpr auto name = "hgv_even";
        static void eval(In<"ts", TS<Int>> ts, Out<TS<Int>> out)
        {
            if (ts.value() % 2 == 0) { out.set(ts.value()); }
        }
    };

    struct HNeg
    {
        static constexpr auto name = "hgv_neg";
        static void start(State<Int> total) { total.set(Int{0}); }
        static void eval(In<"ts", TS<Int>> ts, State<Int> total, Out<TS<Int>> out)
        {
            if (ts.value() < 0) { throw std::runtime_error("neg:" + std::to_string(ts.value()) + ";"); }
            total.set(total.get() + ts.value());
            out.set(total.get());
        }
    };

    // passes its input on, throws on negative values (used in front of an echo node)
    struct HGuard
    {
        static constexpr auto name = "hgv_guard";
        static void eval(In<"ts", TS<Int>> ts, Out<TS<Int>> out)
        {
            if (ts.value() < 0) { throw std::runtime_error("neg:" + std::to_string(ts.value()) + ";"); }
            out.set(ts.value());
        }
    };

    struct HSum2
    {
        static constexpr auto name = "hgv_sum2";
        static void eval(In<"a", TS<Int>, InputValidity::Unchecked> a, In<"b", TS<Int>, InputValidity::Unchecked> b, Out<TS<Int>> out)
        {
            Int v = 0;
            if (a.valid()) { v += a.value(); }
            if (b.valid()) { v += Int{1000000} * b.value(); }
            out.set(v);
        }
    };

    struct HAddB
    {
        static constexpr auto name = "hgv_addb";
        static void eval(In<"ts", TS<Int>> ts, In<"z", TS<Int>> z, Out<TS<Int>> out) { out.set(ts.value() + z.value()); }
    };

    struct HPair
    {
        static constexpr auto name = "hgv_pair";
        static void eval(In<"lhs", TS<Int>> lhs, In<"rhs", TS<Int>> rhs, Out<TS<Int>> out)
        {
            out.set(lhs.value() + Int{1000} * rhs.value());
        }
    };

    // error value: the integer that made the child throw ("neg:<v>;" in the message)
    struct HErrCode
    {
        static constexpr auto name = "hgv_err_code";
        static void eval(In<"e", TS<NodeError>> e, Out<TS<Int>> out)
        {
            const auto msg = std::string{e.base().value().as_bundle().at("error_msg").checked_as<Str>()};
            const auto p   = msg.find("neg:");
            Int        v   = 0;
            if (p != std::string::npos) { v = Int{std::stoll(msg.substr(p + 4))}; }
            out.set(v);
        }
    };

    // ---- mapped functions (sub-graphs) -------------------------------------------------------------
    using P = Port<TS<Int>>;
    using KP = NamedPort<"key", TS<Int>>;

    template <typename Node, int Id>
    struct G1
    {
        static constexpr const char *names[] = {"hgv_g_inc", "hgv_g_acc", "hgv_g_echo1", "hgv_g_echo2", "hgv_g_echo3",
                                                "hgv_g_even", "hgv_g_neg", "hgv_g_echov"};
        static constexpr const char *name = names[Id];
        static P compose(Wiring &w, P ts) { return wire<Node>(w, ts); }
    };

    template <typename Node, int Id>
    struct G1K
    {
        static constexpr const char *names[] = {"hgv_k_inc", "hgv_k_acc", "hgv_k_echo1", "hgv_k_echo2", "hgv_k_echo3",
                                                "hgv_k_even", "hgv_k_neg", "hgv_k_echov"};
        static constexpr const char *name = names[Id];
        static P compose(Wiring &w, KP key, P ts)
        {
            wire<HTag>(w, key);
            return wire<Node>(w, ts);
        }
    };

    struct GAddKey
    {
        static constexpr auto name = "hgv_k_addkey";
        static P compose(Wiring &w, KP key, P ts)
        {
            wire<HTag>(w, key);
            return wire<HAddKey>(w, key, ts);
        }
    };

    // thrower ranked before a self-scheduling node, both driven by the element
    struct GNegEcho
    {
        static constexpr auto name = "hgv_g_negecho";
        static P compose(Wiring &w, P ts)
        {
            auto g = wire<HGuard>(w, ts);
            auto e = wire<HEcho<2>>(w, ts);
            return wire<HSum2>(w, g, e);
        }
    };
    // the SAME nodes, the self-scheduling node ranked BEFORE the thrower: in a failing cycle the echo node has already
    // run (ticked, armed its wake-up) when the guard throws; the wake-up must survive the captured failure
    struct GEGuard
    {
        static constexpr auto name = "hgv_g_eguard";
        static P compose(Wiring &w, P ts)
        {
            auto e = wire<HEcho<2>>(w, ts);
            auto g = wire<HGuard>(w, ts);
            return wire<HSum2>(w, g, e);
        }
    };
    struct GEGuardK
    {
        static constexpr auto name = "hgv_k_eguard";
        static P compose(Wiring &w, KP key, P ts)
        {
            wire<HTag>(w, key);
            auto e = wire<HEcho<2>>(w, ts);
            auto g = wire<HGuard>(w, ts);
            return wire<HSum2>(w, g, e);
        }
    };
    struct GNegEchoK
    {
        static constexpr auto name = "hgv_k_negecho";
        static P compose(Wiring &w, KP key, P ts)
        {
            wire<HTag>(w, key);
            auto g = wire<HGuard>(w, ts);
            auto e = wire<HEcho<2>>(w, ts);
            return wire<HSum2>(w, g, e);
        }
    };

    struct GAddB
    {
        static constexpr auto name = "hgv_g_addb";
        static P compose(Wiring &w, P ts, P z) { return wire<HAddB>(w, ts, z); }
    };
    struct GAddBK
    {
        static constexpr auto name = "hgv_k_addb";
        static P compose(Wiring &w, KP key, P ts, P z)
        {
            wire<HTag>(w, key);
            return wire<HAddB>(w, ts, z);
        }
    };

    struct GPair
    {
        static constexpr auto name = "hgv_g_pair";
        static P compose(Wiring &w, P lhs, P rhs) { return wire<HPair>(w, lhs, rhs); }
    };
    struct GPairK
    {
        static constexpr auto name = "hgv_k_pair";
        static P compose(Wiring &w, KP key, P lhs, P rhs)
        {
            wire<HTag>(w, key);
            return wire<HPair>(w, lhs, rhs);
        }
    };

    struct GNest
    {
        static constexpr auto name = "hgv_g_nest";
        static Port<IntDict> compose(Wiring &w, Port<IntDict> d)
        {
            return wire<stdlib::map_>(w, fn<G1<HAcc, 1>>(), d).as<IntDict>();
        }
    };
    struct GNestK
    {
        static constexpr auto name = "hgv_k_nest";
        static Port<IntDict> compose(Wiring &w, KP key, Port<IntDict> d)
        {
            wire<HTag>(w, key);
            return wire<stdlib::map_>(w, fn<G1<HAcc, 1>>(), d).as<IntDict>();
        }
    };

    // ---- reference-routed child outputs ---------------------------------------------------------------
    using BoolDict       = TSD<Int, TS<Bool>>;
    using BP             = Port<TS<Bool>>;
    using IfIntRefBundle = UnNamedTSB<Field<"true", REF<TS<Int>>>, Field<"false", REF<TS<Int>>>>;

    P route_true(Wiring &w, BP cond, P ts)
    {
        auto routed = wire<stdlib::if_, IfIntRefBundle>(w, cond, ts).as<IfIntRefBundle>();
        return wire<stdlib::getitem_>(w, routed, Str{"true"}).as<TS<Int>>();
    }

    P even_or_empty(Wiring &w, P ts)
    {
        using namespace hgraph::stdlib::syntax;
        auto even = ((ts % Int{2}) == Int{0}).as<TS<Bool>>();
        return route_true(w, even, ts);
    }

    struct GEvenRef
    {
        static constexpr auto name = "hgv_g_evenref";
        static P compose(Wiring &w, P ts) { return even_or_empty(w, ts); }
    };
    struct GEvenRefK
    {
        static constexpr auto name = "hgv_k_evenref";
        static P compose(Wiring &w, KP key, P ts)
        {
            wire<HTag>(w, key);
            return even_or_empty(w, ts);
        }
    };

    struct GFlagRef
    {
        static constexpr auto name = "hgv_g_flagref";
        static P compose(Wiring &w, P ts, BP flag) { return route_true(w, flag, ts); }
    };
    struct GFlagRefK
    {
        static constexpr auto name = "hgv_k_flagref";
        static P compose(Wiring &w, KP key, P ts, BP flag)
        {
            wire<HTag>(w, key);
            return route_true(w, flag, ts);
        }
    };

    // switch_-routed output: the selector is the element's own value mod 3; branch 2 never emits (output invalid)
    struct HMod3
    {
        static constexpr auto name = "hgv_mod3";
        static void eval(In<"ts", TS<Int>> ts, Out<TS<Int>> out) { out.set(((ts.value() % Int{3}) + Int{3}) % Int{3}); }
    };
    struct HAdd1000
    {
        static constexpr auto name = "hgv_add1000";
        static void eval(In<"ts", TS<Int>> ts, Out<TS<Int>> out) { out.set(ts.value() + Int{1000}); }
    };
    struct GSwPass
    {
        static constexpr auto name = "hgv_sw_pass";
        static P compose(Wiring &, P ts) { return ts; }
    };
    struct GSwAdd
    {
        static constexpr auto name = "hgv_sw_add";
        static P compose(Wiring &w, P ts) { return wire<HAdd1000>(w, ts); }
    };
    struct HNever
    {
        static constexpr auto name = "hgv_never";
        static void eval(In<"ts", TS<Int>>, Out<TS<Int>>) {}
    };
    struct GSwNone
    {
        static constexpr auto name = "hgv_sw_none";
        static P compose(Wiring &w, P ts) { return wire<HNever>(w, ts); }
    };
    P switch_routed(Wiring &w, P ts)
    {
        auto sel = wire<HMod3>(w, ts);
        return wire<stdlib::switch_>(w, sel,
                                     stdlib::switch_cases({{Value{Int{0}}, fn<GSwPass>()}, {Value{Int{1}}, fn<GSwAdd>()},
                                                           {Value{Int{2}}, fn<GSwNone>()}}),
                                     ts)
            .as<TS<Int>>();
    }
    struct GSwRef
    {
        static constexpr auto name = "hgv_g_swref";
        static P compose(Wiring &w, P ts) { return switch_routed(w, ts); }
    };
    struct GSwRefK
    {
        static constexpr auto name = "hgv_k_swref";
        static P compose(Wiring &w, KP key, P ts)
        {
            wire<HTag>(w, key);
            return switch_routed(w, ts);
        }
    };

    struct GErrCode
    {
        static constexpr auto name = "hgv_g_err_code";
        static P compose(Wiring &w, Port<TS<NodeError>> e) { return wire<HErrCode>(w, e); }
    };

    // ---- configuration / history ------------------------------------------------------------------
    struct Cfg
    {
        std::string fn{"inc"};
        bool        key{false};
        bool        err{false};
    };

    bool fn_known(const std::string &f)
    {
        static const std::set<std::string> k{"inc", "acc", "addkey", "echo1", "echo2", "echo3", "echov", "even", "neg", "negecho", "eguard", "addb", "pair", "nest",
                                           "evenref", "flagref", "bflagref", "swref"};
        return k.count(f) > 0;
    }

    struct Op
    {
        std::string  what;
        std::int64_t k{0}, j{0}, v{0};
    };

    template <typename Node, int Id>
    WiredFn unary(bool key) { return key ? fn<G1K<Node, Id>>() : fn<G1<Node, Id>>(); }

    // ---- observation ---------------------------------------------------------------------------------
    std::string key_str(std::optional<Int> k) { return k.has_value() ? std::to_string(*k) : std::string{"?"}; }

    struct Ev
    {
        char               kind;   // '+' start, '-' stop, 'r' evaluated
        std::optional<Int> key;
        const void        *mem;
    };

    struct CycleObs
    {
        bool        seen{false};
        std::string val{"_"}, eval{"_"};
        std::size_t act{0}, cg{0};
        std::vector<Ev> events;
    };

    std::string join_sorted(std::vector<std::pair<std::pair<int, Int>, std::string>> items)
    {
        std::sort(items.begin(), items.end(), [](const auto &a, const auto &b) { return a.first < b.first; });
        std::string out;
        for (auto &it : items)
        {
            if (!out.empty()) { out += ","; }
            out += it.second;
        }
        return out;
    }

    std::string value_of_element(const TSOutputView &child, bool nested)
    {
        if (!child.valid()) { return "_"; }
        if (!nested) { return std::to_string(child.value().checked_as<Int>()); }
        std::vector<std::pair<std::pair<int, Int>, std::string>> items;
        auto d = child.as_dict();
        for (const auto [key, c] : d.items())
        {
            const Int k = key.checked_as<Int>();
            items.push_back({{0, k}, std::to_string(k) + ":" + (c.valid() ? std::to_string(c.value().checked_as<Int>()) : std::string{"_"})});
        }
        return "[" + join_sorted(std::move(items)) + "]";
    }

    std::string dict_state(const TSOutputView &out, bool nested)
    {
        if (!out.valid()) { return "_"; }
        std::vector<std::pair<std::pair<int, Int>, std::string>> items;
        auto d = out.as_dict();
        for (const auto [key, child] : d.items())
        {
            const Int k = key.checked_as<Int>();
            std::string dbg;
            if (std::getenv("HGV_DEBUG_ELEM"))
            {
                dbg = "@lm" + std::to_string(us(child.data_view().last_modified_time())) +
                      (child.data_view().valid() ? "dv" : "di") + (child.modified() ? "m" : "");
            }
            items.push_back({{0, k}, std::to_string(k) + "=" + value_of_element(child, nested) + dbg});
        }
        return "{" + join_sorted(std::move(items)) + "}";
    }

    std::string delta_of_element(const ValueView &dv, bool nested)
    {
        if (!nested) { return std::to_string(dv.checked_as<Int>()); }
        const auto bundle = dv.as_bundle();
        std::vector<std::pair<std::pair<int, Int>, std::string>> items;
        for (const auto &e : bundle.at(0).as_set()) { const Int k = e.checked_as<Int>(); items.push_back({{0, k}, "-" + std::to_string(k)}); }
        for (const auto &[kv, v] : bundle.at(1).as_map())
        {
            const Int k = kv.checked_as<Int>();
            items.push_back({{1, k}, std::to_string(k) + ":" + std::to_string(v.checked_as<Int>())});
        }
        return "[" + join_sorted(std::move(items)) + "]";
    }

    std::string dict_delta_text(const ValueView &v, bool nested)
    {
        const auto bundle = v.as_bundle();
        std::vector<std::pair<std::pair<int, Int>, std::string>> items;
        for (const auto &e : bundle.at(0).as_set()) { const Int k = e.checked_as<Int>(); items.push_back({{0, k}, "-" + std::to_string(k)}); }
        for (const auto &[kv, dv] : bundle.at(1).as_map())
        {
            const Int k = kv.checked_as<Int>();
            items.push_back({{1, k}, std::to_string(k) + "=" + delta_of_element(dv, nested)});
        }
        return "{" + join_sorted(std::move(items)) + "}";
    }

    struct Obs final : LifecycleObserver
    {
        bool                          nested{false};
        std::vector<CycleObs>         cycles;
        std::vector<Ev>               pending;       // events since the last completed root evaluation
        std::vector<Ev>               shutdown;
        std::optional<std::size_t>    main_map, err_map;
        bool                          stopping{false};

        // the child graphs of the MAIN map node (a direct child of the root graph)
        bool is_main_child(const GraphView &g)
        {
            if (!g.valid() || g.is_root() || !g.is_nested()) { return false; }
            auto parent = g.as_nested().parent_node();
            if (!parent.graph().is_root() || !parent.is<MapNodeView>()) { return false; }
            if (!main_map.has_value()) { locate(parent.graph()); }
            return main_map.has_value() && parent.node_index() == *main_map;
        }

        void locate(const GraphView &root)
        {
            for (std::size_t i = 0; i < root.node_count(); ++i)
            {
                auto node = root.node_at(i);
                if (!node.is<MapNodeView>()) { continue; }
                if (!main_map.has_value()) { main_map = i; }
                else if (!err_map.has_value()) { err_map = i; }
            }
        }

        std::optional<Int> key_of(const void *mem) const
        {
            auto it = g_graph_key.find(mem);
            if (it == g_graph_key.end()) { return std::nullopt; }
            return it->second;
        }

        void on_before_start_graph(const GraphView &g) override
        {
            if (is_main_child(g)) { g_graph_key.erase(g.data()); }
        }
        void on_after_start_graph(const GraphView &g) override
        {
            if (is_main_child(g)) { pending.push_back(Ev{'+', std::nullopt, g.data()}); }
        }
        void on_before_stop_graph(const GraphView &g) override
        {
            if (g.valid() && g.is_root()) { stopping = true; return; }
            if (is_main_child(g)) { (stopping ? shutdown : pending).push_back(Ev{'-', key_of(g.data()), g.data()}); }
        }
        void on_before_graph_evaluation(const GraphView &g) override
        {
            if (!g.is_root() && is_main_child(g)) { pending.push_back(Ev{'r', std::nullopt, g.data()}); }
        }
        void on_after_graph_evaluation(const GraphView &g) override
        {
            if (!g.is_root()) { return; }
            const auto i = testing::cycle_offset(g.evaluation_time());
            if (i >= cycles.size()) { cycles.resize(i + 1); }
            CycleObs &o = cycles[i];
            o.seen      = true;
            if (!main_map.has_value()) { locate(g); }
            if (main_map.has_value())
            {
                auto node = g.node_at(*main_map);
                o.val     = dict_state(node.output(g.evaluation_time()), nested);
                auto mv   = node.as<MapNodeView>();
                o.act     = mv.active_count();
                o.cg      = mv.child_graph_count();
            }
            if (err_map.has_value()) { o.eval = dict_state(g.node_at(*err_map).output(g.evaluation_time()), false); }
            // keys of graphs started (and tagged) in this cycle are known by now
            for (Ev &e : pending)
            {
                if (!e.key.has_value()) { e.key = key_of(e.mem); }
            }
            o.events = std::move(pending);
            pending.clear();
        }
    };

    std::string events_text(const std::vector<Ev> &events, bool runs)
    {
        std::vector<std::pair<std::pair<int, Int>, std::string>> items;
        for (const Ev &e : events)
        {
            if (runs != (e.kind == 'r')) { continue; }
            const Int  k     = e.key.value_or(Int{std::numeric_limits<std::int32_t>::max()});
            const int  group = e.kind == '-' ? 0 : 1;
            items.push_back({{group, k}, (runs ? std::string{} : std::string(1, e.kind)) + key_str(e.key)});
        }
        auto s = join_sorted(std::move(items));
        return s.empty() ? "-" : s;
    }

    // ---- one run ------------------------------------------------------------------------------------------
    std::vector<std::string> run_history(const Cfg &cfg, const std::vector<std::vector<Op>> &cycles)
    {
        const bool nested = cfg.fn == "nest";
        const bool bcast  = cfg.fn == "addb";
        const bool two    = cfg.fn == "pair";
        const bool flags  = cfg.fn == "flagref";     // second multiplexed dictionary: TSD<Int,TS<Bool>> "hgv::f"
        const bool bflag  = cfg.fn == "bflagref";    // broadcast TS<Bool> "hgv::zf"
        g_graph_key.clear();

        Wiring w{WiringKind::TopLevel, WiringOptions{}};
        if (nested)
        {
            auto a = wire<stdlib::replay_impl, NestDict>(w, Str{"hgv::a"});
            auto m = wire<stdlib::map_>(w, cfg.key ? fn<GNestK>() : fn<GNest>(), a).as<NestDict>();
            wire<stdlib::dense_record_impl>(w, m, Str{"hgv::out"});
        }
        else
        {
            auto          a = wire<stdlib::replay_impl, IntDict>(w, Str{"hgv::a"});
            Port<IntDict> m;
            if (bcast)
            {
                auto z = wire<stdlib::replay_impl, TS<Int>>(w, Str{"hgv::z"});
                m      = wire<stdlib::map_>(w, cfg.key ? fn<GAddBK>() : fn<GAddB>(), a, z).as<IntDict>();
            }
            else if (two)
            {
                auto b = wire<stdlib::replay_impl, IntDict>(w, Str{"hgv::b"});
                m      = wire<stdlib::map_>(w, cfg.key ? fn<GPairK>() : fn<GPair>(), a, b).as<IntDict>();
            }
            else if (flags)
            {
                auto f = wire<stdlib::replay_impl, BoolDict>(w, Str{"hgv::f"});
                m      = wire<stdlib::map_>(w, cfg.key ? fn<GFlagRefK>() : fn<GFlagRef>(), a, f).as<IntDict>();
            }
            else if (bflag)
            {
                auto zf = wire<stdlib::replay_impl, TS<Bool>>(w, Str{"hgv::zf"});
                m       = wire<stdlib::map_>(w, cfg.key ? fn<GFlagRefK>() : fn<GFlagRef>(), a, zf).as<IntDict>();
            }
            else
            {
                WiredFn f = cfg.fn == "inc"       ? unary<HInc, 0>(cfg.key)
                            : cfg.fn == "acc"     ? unary<HAcc, 1>(cfg.key)
                            : cfg.fn == "echo1"   ? unary<HEcho<1>, 2>(cfg.key)
                            : cfg.fn == "echo2"   ? unary<HEcho<2>, 3>(cfg.key)
                            : cfg.fn == "echo3"   ? unary<HEcho<3>, 4>(cfg.key)
                            : cfg.fn == "echov"   ? unary<HEchoV, 7>(cfg.key)
                            : cfg.fn == "even"    ? unary<HEven, 5>(cfg.key)
                            : cfg.fn == "neg"     ? unary<HNeg, 6>(cfg.key)
                            : cfg.fn == "negecho" ? (cfg.key ? fn<GNegEchoK>() : fn<GNegEcho>())
                            : cfg.fn == "eguard"  ? (cfg.key ? fn<GEGuardK>() : fn<GEGuard>())
                            : cfg.fn == "evenref" ? (cfg.key ? fn<GEvenRefK>() : fn<GEvenRef>())
                            : cfg.fn == "swref"   ? (cfg.key ? fn<GSwRefK>() : fn<GSwRef>())
                                                  : fn<GAddKey>();
                m = wire<stdlib::map_>(w, f, a).as<IntDict>();
            }
            wire<stdlib::dense_record_impl>(w, m, Str{"hgv::out"});
            if (cfg.err)
            {
                Port<TSD<Int, TS<NodeError>>> errors = exception_time_series(m);
                auto codes = wire<stdlib::map_>(w, fn<GErrCode>(), errors).as<IntDict>();
                wire<stdlib::dense_record_impl>(w, codes, Str{"hgv::err"});
            }
        }
        GraphBuilder gb = std::move(w).finish();

        std::vector<std::optional<Value>> a_deltas, b_deltas, z_deltas, f_deltas, zf_deltas;
        for (const auto &ops : cycles)
        {
            std::map<Int, Int>                modified, bmodified;
            std::vector<Int>                  removed, bremoved;
            std::map<Int, std::map<Int, Int>> nmod;
            std::map<Int, std::vector<Int>>   nrem;
            bool                              ticked = false, bticked = false;
            std::optional<Value>              z;
            for (const Op &op : ops)
            {
                if (op.what == "set") { modified[Int{op.k}] = Int{op.v}; ticked = true; }
                else if (op.what == "del") { removed.push_back(Int{op.k}); ticked = true; }
                else if (op.what == "bset") { bmodified[Int{op.k}] = Int{op.v}; bticked = true; }
                else if (op.what == "bdel") { bremoved.push_back(Int{op.k}); bticked = true; }
                else if (op.what == "z") { z = Value{Int{op.v}}; }
                else if (op.what == "tick") { ticked = true; }
                else if (op.what == "nset") { nmod[Int{op.k}][Int{op.j}] = Int{op.v}; ticked = true; }
                else if (op.what == "ndel") { nrem[Int{op.k}].push_back(Int{op.j}); ticked = true; }
            }
            if (!ticked) { a_deltas.emplace_back(std::nullopt); }
            else if (nested)
            {
                std::map<Int, Value> outer;
                std::set<Int>        keys;
                for (auto &kv : nmod) { keys.insert(kv.first); }
                for (auto &kv : nrem) { keys.insert(kv.first); }
                for (Int k : keys)
                {
                    outer.emplace(k, static_node_detail::build_dict_delta<Int, TS<Int>>(nmod[k], nrem[k]));
                }
                a_deltas.emplace_back(static_node_detail::build_dict_delta<Int, IntDict>(outer, removed));
            }
            else { a_deltas.emplace_back(static_node_detail::build_dict_delta<Int, TS<Int>>(modified, removed)); }
            if (!bticked)
            {
                b_deltas.emplace_back(std::nullopt);
                f_deltas.emplace_back(std::nullopt);
            }
            else
            {
                b_deltas.emplace_back(static_node_detail::build_dict_delta<Int, TS<Int>>(bmodified, bremoved));
                std::map<Int, Bool> fmodified;
                for (const auto &[k, v] : bmodified) { fmodified[k] = v != Int{0}; }
                f_deltas.emplace_back(static_node_detail::build_dict_delta<Int, TS<Bool>>(fmodified, bremoved));
            }
            zf_deltas.push_back(z.has_value() ? std::optional<Value>{Value{Bool{z->view().checked_as<Int>() != Int{0}}}} : std::nullopt);
            z_deltas.push_back(std::move(z));
        }
        testing::set_replay_deltas(gb.global_state(), "hgv::a", a_deltas);
        if (two) { testing::set_replay_deltas(gb.global_state(), "hgv::b", b_deltas); }
        if (bcast) { testing::set_replay_deltas(gb.global_state(), "hgv::z", z_deltas); }
        if (flags) { testing::set_replay_deltas(gb.global_state(), "hgv::f", f_deltas); }
        if (bflag) { testing::set_replay_deltas(gb.global_state(), "hgv::zf", zf_deltas); }

        Obs obs;
        obs.nested = nested;
        std::vector<std::string> lines;
        bool                     failed = false;
        {
            GraphExecutorBuilder eb;
            eb.graph_builder(std::move(gb))
                .mode(GraphExecutorMode::Simulation)
                .start_time(MIN_ST)
                .end_time(MIN_ST + TimeDelta{static_cast<std::int64_t>(cycles.size())});
            eb.add_lifecycle_observer(&obs);
            GraphExecutorValue executor = eb.make_executor();
            auto               view     = executor.view();
            // an uncaptured child exception ends the run: the cycles before it are still reported
            std::size_t failed_at = cycles.size();
            try { view.run(); }
            catch (const std::exception &e)
            {
                if (std::getenv("HGV_DEBUG")) { std::cerr << e.what() << "\n"; }
                failed_at = testing::cycle_offset(view.graph().evaluation_time());
                failed    = true;
            }

            auto recorded = testing::get_recorded_deltas(view.graph().global_state(), "hgv::out");
            std::vector<std::optional<Value>> erecorded;
            if (cfg.err) { erecorded = testing::get_recorded_deltas(view.graph().global_state(), "hgv::err"); }
            for (std::size_t i = 0; i < cycles.size(); ++i)
            {
                if (i >= failed_at)
                {
                    lines.push_back("err:exception");
                    continue;
                }
                const bool have = i < obs.cycles.size() && obs.cycles[i].seen;
                const bool rec  = i < recorded.size() && recorded[i].has_value();
                if (!have)
                {
                    lines.push_back(rec ? "err:record-without-evaluation" : "idle");
                    continue;
                }
                const CycleObs   &o = obs.cycles[i];
                std::ostringstream s;
                s << "rec=" << (rec ? dict_delta_text(recorded[i]->view(), nested) : std::string{"-"});
                s << " val=" << o.val << " ev=" << events_text(o.events, false) << " run=" << events_text(o.events, true)
                  << " act=" << o.act << " cg=" << o.cg;
                if (cfg.err)
                {
                    const bool erec = i < erecorded.size() && erecorded[i].has_value();
                    s << " erec=" << (erec ? dict_delta_text(erecorded[i]->view(), false) : std::string{"-"}) << " eval=" << o.eval;
                }
                lines.push_back(s.str());
            }
        }
        lines.push_back(failed ? std::string{"err:exception"} : "end ev=" + events_text(obs.shutdown, false));
        return lines;
    }
}  // namespace

int main()
{
    std::ios::sync_with_stdio(false);
    hgraph::stdlib::register_standard_operators();
    (void)TypeRegistry::instance().register_scalar<Int>("int");

    Cfg                          cfg;
    std::vector<std::vector<Op>> cycles;
    bool                         cfg_bad = false;

    auto flush = [&](bool with_run_line) {
        if (cycles.empty() && !with_run_line) { return; }
        std::vector<std::string> lines;
        try
        {
            if (cfg_bad) { throw std::invalid_argument("cfg"); }
            if (cycles.empty()) { lines = {"end ev=-"}; }   // nothing to run
            else { lines = run_history(cfg, cycles); }
        }
        catch (const OperatorResolutionError &) { lines.assign(cycles.size() + 1, "err:resolution"); }
        catch (const std::invalid_argument &e)
        {
            lines.assign(cycles.size() + 1, "err:invalid-argument");
            if (std::getenv("HGV_DEBUG")) { std::cerr << e.what() << "\n"; }
        }
        catch (const std::exception &e)
        {
            lines.assign(cycles.size() + 1, std::string{"err:exception"});
            if (std::getenv("HGV_DEBUG")) { std::cerr << e.what() << "\n"; }
        }
        if (lines.size() != cycles.size() + 1) { lines.resize(cycles.size() + 1, lines.empty() ? "err:short" : lines.back()); }
        for (std::size_t i = 0; i < cycles.size(); ++i) { std::cout << lines[i] << "\n"; }
        if (with_run_line) { std::cout << lines.back() << "\n"; }
        cycles.clear();
    };

    std::string line;
    while (std::getline(std::cin, line))
    {
        auto w = split(line);
        if (w.empty()) { flush(false); std::cout << "\n"; continue; }
        const std::string &op = w[0];
        try
        {
            if (op == "case")
            {
                flush(false);
                cfg     = Cfg{};
                cfg_bad = false;
                std::cout << line << "\n";
            }
            else if (op == "cfg" && w.size() == 4)
            {
                flush(false);
                Cfg  c;
                bool ok = fn_known(w[1]) && (w[2] == "0" || w[2] == "1") && (w[3] == "0" || w[3] == "1");
                c.fn    = w[1];
                c.key   = w[2] == "1";
                c.err   = w[3] == "1";
                if (c.fn == "addkey" && !c.key) { ok = false; }
                if (c.fn == "nest" && c.err) { ok = false; }
                if (ok) { cfg = c; cfg_bad = false; std::cout << "ok\n"; }
                else { cfg_bad = true; std::cout << "bad-op\n"; }
            }
            else if (op == "c")
            {
                std::vector<Op> ops;
                bool            ok = true;
                for (std::size_t i = 1; i < w.size() && ok;)
                {
                    if ((w[i] == "set" || w[i] == "bset") && i + 2 < w.size()) { ops.push_back({w[i], to_i(w[i + 1]), 0, to_i(w[i + 2])}); i += 3; }
                    else if ((w[i] == "del" || w[i] == "bdel") && i + 1 < w.size()) { ops.push_back({w[i], to_i(w[i + 1]), 0, 0}); i += 2; }
                    else if (w[i] == "z" && i + 1 < w.size()) { ops.push_back({"z", 0, 0, to_i(w[i + 1])}); i += 2; }
                    else if (w[i] == "tick") { ops.push_back({"tick", 0, 0, 0}); i += 1; }
                    else if (w[i] == "nset" && i + 3 < w.size()) { ops.push_back({"nset", to_i(w[i + 1]), to_i(w[i + 2]), to_i(w[i + 3])}); i += 4; }
                    else if (w[i] == "ndel" && i + 2 < w.size()) { ops.push_back({"ndel", to_i(w[i + 1]), to_i(w[i + 2]), 0}); i += 3; }
                    else { ok = false; }
                }
                if (!ok) { flush(false); std::cout << "bad-op\n"; }
                else { cycles.push_back(std::move(ops)); }
            }
            else if (op == "run") { flush(true); }
            else { flush(false); std::cout << "bad-op\n"; }
        }
        catch (const std::exception &) { flush(false); std::cout << "bad-op\n"; }
    }
    flush(false);
    return 0;
}
