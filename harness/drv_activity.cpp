// hgv_activity (C03, streams `activity-*`): run-time input activity of STRUCTURED node inputs.
//
// One REAL graph per case: replay sources -> one native probe node (NodeBuilder::native, so the generic
// start / readiness code of node.cpp is used: activate_input_slots over NodeTypeMetaData::active_inputs,
// ready_to_evaluate over valid_inputs / all_valid_inputs).  The probe has 1-3 inputs a, b, c (slot 0, 1, 2):
//
//   shape   schema                               binding
//   ts      TS<Int>                              peered (one producer output)
//   tsl2p   TSL<TS<Int>,2>                       peered: bound whole to ONE TSL producer output
//   tsl2n   TSL<TS<Int>,2>                       NON-peered: assembled from 2 separate TS producers
//   tsl3p / tsl3n                                the same with 3 elements
//   tsb2p   TSB{x:TS<Int>, y:TS<Int>}            peered: bound whole to ONE TSB producer output
//   tsb2n   TSB{x,y}                             NON-peered: assembled from 2 separate TS producers
//   nestn   TSL<TSL<TS<Int>,2>,2>                outer non-peered, inner lists non-peered (4 TS producers)
//   nestm   TSL<TSL<TS<Int>,2>,2>                outer non-peered, inner lists peered (2 TSL producers)
//   nestp   TSL<TSL<TS<Int>,2>,2>                peered whole (1 producer of the nested list)
//
// Positions are paths: a, a.0, a.1, b.1.0 ...; leaves are the TS<Int> positions.
//
// Lines (exactly one output line per input line; the output of a case is printed when `end` is read):
//   case <n>                              -> case <n>
//   in <shape> <a|p> <v|a|u>              -> ok      next input; initially active / passive (active_inputs
//                                                    selector); readiness: valid / all_valid / unchecked
//   init <cmd>...                         -> ok      commands run in the probe's START hook (after the generic
//                                                    slot activation), e.g. init pas:a act:a.0 act:a.1
//   t <leaf>=<int>... <cmd>...            -> cycle k (k = 0, 1, ... in line order; engine time MIN_ST + k):
//                                                    the named source leaves tick with the values; the commands
//                                                    are QUEUED for the probe's user code:
//        cmd = pas:<pos> | act:<pos>      make_passive() / make_active() on that position's input view
//        RULE: when the probe's user code runs in cycle T it first logs what it sees, then executes, in order,
//        every queued command of the cycles <= T that has not been executed yet (a command of a cycle in which
//        the user code does not run is carried to its next run), then logs the active() flag of every position.
//                                         -> `-` (user code did not run) or
//                                            run <in>.. | <pos>:<0|1>..        (`||`-joined if it ran twice)
//        <in>   leaf      <valid><modified>,<value or ->
//               composite <valid><all_valid><modified>[<child> <child>..]
//   end                                   -> end | err:build | err:run | err:bad-case
// Unknown / malformed line: bad-op (then every `t` of the case prints `skip`, `end` prints err:bad-case).
#include "hgv_common.h"

#include <hgraph/lib/std/std_operators.h>
#include <hgraph/lib/testing/eval_node.h>
#include <hgraph/lib/testing/record_replay.h>
#include <hgraph/lib/testing/runtime_support.h>
#include <hgraph/runtime/runtime.h>
#include <hgraph/types/graph_wiring.h>
#include <hgraph/types/metadata/type_registry.h>
#include <hgraph/types/static_node.h>

#include <array>
#include <map>
#include <memory>
#include <optional>
#include <span>
#include <stdexcept>
#include <typeindex>

using namespace hgraph;
using namespace hgraph::testing;
using namespace hgv;

namespace
{
    using S_TS  = TS<Int>;
    using S_L2  = TSL<TS<Int>, 2>;
    using S_L3  = TSL<TS<Int>, 3>;
    using S_B2  = UnNamedTSB<Field<"x", TS<Int>>, Field<"y", TS<Int>>>;
    using S_N22 = TSL<S_L2, 2>;

    using Path = std::vector<std::size_t>;

    struct Shape
    {
        enum class K { Leaf, List, Bundle } k{K::Leaf};
        bool               peered{true};   // bound whole to one producer output (a leaf always is)
        std::vector<Shape> ch;
    };

    Shape leaf() { return Shape{}; }
    Shape comp(Shape::K k, bool peered, std::vector<Shape> ch)
    {
        Shape s;
        s.k = k;
        s.peered = peered;
        s.ch = std::move(ch);
        if (peered) { for (auto &c : s.ch) { c.peered = true; } }
        return s;
    }

    std::optional<Shape> shape_of(const std::string &n)
    {
        using K = Shape::K;
        if (n == "ts") { return leaf(); }
        if (n == "tsl2p") { return comp(K::List, true, {leaf(), leaf()}); }
        if (n == "tsl2n") { return comp(K::List, false, {leaf(), leaf()}); }
        if (n == "tsl3p") { return comp(K::List, true, {leaf(), leaf(), leaf()}); }
        if (n == "tsl3n") { return comp(K::List, false, {leaf(), leaf(), leaf()}); }
        if (n == "tsb2p") { return comp(K::Bundle, true, {leaf(), leaf()}); }
        if (n == "tsb2n") { return comp(K::Bundle, false, {leaf(), leaf()}); }
        if (n == "nestn")
        {
            return comp(K::List, false, {comp(K::List, false, {leaf(), leaf()}), comp(K::List, false, {leaf(), leaf()})});
        }
        if (n == "nestm")
        {
            return comp(K::List, false, {comp(K::List, true, {leaf(), leaf()}), comp(K::List, true, {leaf(), leaf()})});
        }
        if (n == "nestp")
        {
            return comp(K::List, true, {comp(K::List, true, {leaf(), leaf()}), comp(K::List, true, {leaf(), leaf()})});
        }
        return std::nullopt;
    }

    enum class Src { TS, L2, L3, B2, N22 };

    Src src_kind(const Shape &s)
    {
        if (s.k == Shape::K::Leaf) { return Src::TS; }
        if (s.k == Shape::K::Bundle) { return Src::B2; }
        if (s.ch.front().k != Shape::K::Leaf) { return Src::N22; }
        return s.ch.size() == 2 ? Src::L2 : Src::L3;
    }

    const TSValueTypeMetaData *meta_of(const Shape &s)
    {
        switch (src_kind(s))
        {
            case Src::TS: return schema_descriptor<S_TS>::ts_meta();
            case Src::L2: return schema_descriptor<S_L2>::ts_meta();
            case Src::L3: return schema_descriptor<S_L3>::ts_meta();
            case Src::B2: return schema_descriptor<S_B2>::ts_meta();
            default: return schema_descriptor<S_N22>::ts_meta();
        }
    }

    struct Cmd { bool act{false}; Path path; };
    struct InDecl { Shape shape; bool active{true}; char validity{'v'}; };
    struct Cycle { std::map<Path, Int> ticks; std::vector<Cmd> cmds; };

    struct CaseCfg
    {
        std::vector<InDecl> ins;
        std::vector<Cmd>    init;
        std::vector<Cycle>  cycles;
    };

    CaseCfg g_cfg;
    // run state of the probe
    std::size_t                        g_next_cmd_cycle = 0;
    std::vector<Cmd>                   g_queue;
    std::map<std::size_t, std::string> g_runs;

    struct SourceRec { std::string key; Path prefix; Shape shape; };
    std::vector<SourceRec> g_sources;

    std::string path_key(const Path &p)
    {
        std::string s(1, static_cast<char>('a' + p.at(0)));
        for (std::size_t i = 1; i < p.size(); ++i) { s += "." + std::to_string(p[i]); }
        return s;
    }

    const Shape *shape_at(const CaseCfg &cfg, const Path &p)
    {
        if (p.empty() || p[0] >= cfg.ins.size()) { return nullptr; }
        const Shape *s = &cfg.ins[p[0]].shape;
        for (std::size_t i = 1; i < p.size(); ++i)
        {
            if (p[i] >= s->ch.size()) { return nullptr; }
            s = &s->ch[p[i]];
        }
        return s;
    }

    std::optional<Path> parse_path(const std::string &t)
    {
        if (t.empty() || t[0] < 'a' || t[0] > 'c') { return std::nullopt; }
        Path p{static_cast<std::size_t>(t[0] - 'a')};
        std::size_t i = 1;
        while (i < t.size())
        {
            if (t[i] != '.' || i + 2 > t.size() || t[i + 1] < '0' || t[i + 1] > '9') { return std::nullopt; }
            p.push_back(static_cast<std::size_t>(t[i + 1] - '0'));
            i += 2;
        }
        return p;
    }

    std::optional<Cmd> parse_cmd(const CaseCfg &cfg, const std::string &t)
    {
        if (t.size() < 5 || (t.rfind("pas:", 0) != 0 && t.rfind("act:", 0) != 0)) { return std::nullopt; }
        auto p = parse_path(t.substr(4));
        if (!p || shape_at(cfg, *p) == nullptr) { return std::nullopt; }
        return Cmd{t[0] == 'a', *p};
    }

    std::optional<Int> parse_int(const std::string &s)
    {
        const std::string body = (!s.empty() && s[0] == '-') ? s.substr(1) : s;
        if (body.empty() || body.size() > 9 || body.find_first_not_of("0123456789") != std::string::npos) { return std::nullopt; }
        return Int{std::stoll(s)};
    }

    // ------------------------------------------------------------------ wiring
    WiringPortRef wire_source(Wiring &w, const Shape &s, const Path &prefix)
    {
        if (s.peered)
        {
            const std::string key = path_key(prefix);
            g_sources.push_back(SourceRec{key, prefix, s});
            switch (src_kind(s))
            {
                case Src::TS: return wire<stdlib::replay_impl, S_TS>(w, Str{key}).erased();
                case Src::L2: return wire<stdlib::replay_impl, S_L2>(w, Str{key}).erased();
                case Src::L3: return wire<stdlib::replay_impl, S_L3>(w, Str{key}).erased();
                case Src::B2: return wire<stdlib::replay_impl, S_B2>(w, Str{key}).erased();
                default: return wire<stdlib::replay_impl, S_N22>(w, Str{key}).erased();
            }
        }
        std::vector<WiringPortRef> children;
        for (std::size_t i = 0; i < s.ch.size(); ++i)
        {
            Path p = prefix;
            p.push_back(i);
            children.push_back(wire_source(w, s.ch[i], p));
        }
        return WiringPortRef::structural_source(meta_of(s), children);
    }

    // ------------------------------------------------------------------ probe
    struct Views
    {
        // keeps every projected view alive (child views may borrow from their parents)
        std::vector<std::unique_ptr<TSInputView>> keep;
        TSInputView &push(TSInputView v)
        {
            keep.push_back(std::make_unique<TSInputView>(std::move(v)));
            return *keep.back();
        }
    };

    TSInputView &view_at(Views &vs, TSInputView &root, const Path &p)
    {
        TSInputView *cur = &root;
        for (const auto i : p) { cur = &vs.push(cur->indexed_child_at(i)); }
        return *cur;
    }

    std::string b01(bool b) { return b ? "1" : "0"; }

    std::string describe(Views &vs, TSInputView &v, const Shape &s)
    {
        if (s.k == Shape::K::Leaf)
        {
            const bool valid = v.valid();
            return b01(valid) + b01(v.modified()) + "," +
                   (valid ? std::to_string(static_cast<long long>(v.value().checked_as<Int>())) : std::string("-"));
        }
        std::string out = b01(v.valid()) + b01(v.all_valid()) + b01(v.modified()) + "[";
        for (std::size_t i = 0; i < s.ch.size(); ++i)
        {
            auto &c = vs.push(v.indexed_child_at(i));
            out += (i ? " " : "") + describe(vs, c, s.ch[i]);
        }
        return out + "]";
    }

    void flags(Views &vs, TSInputView &v, const Shape &s, const Path &p, std::string &out)
    {
        out += " " + path_key(p) + ":" + b01(v.active());
        for (std::size_t i = 0; i < s.ch.size(); ++i)
        {
            auto &c = vs.push(v.indexed_child_at(i));
            Path q = p;
            q.push_back(i);
            flags(vs, c, s.ch[i], q, out);
        }
    }

    void exec_cmd(const NodeView &view, DateTime now, const Cmd &c)
    {
        Views vs;
        auto  root = view.input(now);
        auto &target = view_at(vs, root, c.path);
        if (c.act) { target.make_active(); }
        else { target.make_passive(); }
    }

    void probe_start(const NodeView &view, DateTime now)
    {
        for (const auto &c : g_cfg.init) { exec_cmd(view, now, c); }
    }

    void probe_eval(const NodeView &view, DateTime now)
    {
        const std::size_t cycle = static_cast<std::size_t>((now - MIN_ST).count());
        std::string       line = "run";
        {
            Views vs;
            auto  root = view.input(now);
            for (std::size_t k = 0; k < g_cfg.ins.size(); ++k)
            {
                auto &in = vs.push(root.indexed_child_at(k));
                line += " " + describe(vs, in, g_cfg.ins[k].shape);
            }
        }
        while (g_next_cmd_cycle <= cycle && g_next_cmd_cycle < g_cfg.cycles.size())
        {
            for (const auto &c : g_cfg.cycles[g_next_cmd_cycle].cmds) { g_queue.push_back(c); }
            ++g_next_cmd_cycle;
        }
        for (const auto &c : g_queue) { exec_cmd(view, now, c); }
        g_queue.clear();
        line += " |";
        {
            Views vs;
            auto  root = view.input(now);
            for (std::size_t k = 0; k < g_cfg.ins.size(); ++k)
            {
                auto &in = vs.push(root.indexed_child_at(k));
                flags(vs, in, g_cfg.ins[k].shape, Path{k}, line);
            }
        }
        auto &slot = g_runs[cycle];
        slot = slot.empty() ? line : slot + " || " + line;
    }

    struct ProbeDef {};

    void wire_probe(Wiring &w)
    {
        auto &registry = TypeRegistry::instance();
        std::vector<WiringPortRef>                                       ins;
        std::vector<std::pair<std::string, const TSValueTypeMetaData *>> fields;
        for (std::size_t k = 0; k < g_cfg.ins.size(); ++k)
        {
            ins.push_back(wire_source(w, g_cfg.ins[k].shape, Path{k}));
            fields.emplace_back(std::string(1, static_cast<char>('a' + k)), meta_of(g_cfg.ins[k].shape));
        }
        const auto *input_schema = registry.un_named_tsb(fields);

        NodeTypeMetaData schema;
        schema.display_name = "activity_probe";
        schema.input_schema = input_schema;
        schema.node_kind    = NodeKind::Sink;
        std::vector<std::size_t> active, valid, all_valid;
        for (std::size_t k = 0; k < g_cfg.ins.size(); ++k)
        {
            if (g_cfg.ins[k].active) { active.push_back(k); }
            if (g_cfg.ins[k].validity == 'v') { valid.push_back(k); }
            if (g_cfg.ins[k].validity == 'a') { all_valid.push_back(k); }
        }
        schema.active_inputs    = std::move(active);
        schema.valid_inputs     = std::move(valid);
        schema.all_valid_inputs = std::move(all_valid);

        NodeCallbacks callbacks;
        callbacks.start    = &probe_start;
        callbacks.evaluate = &probe_eval;
        NodeBuilder nb = NodeBuilder::native(
            std::move(schema), std::move(callbacks),
            graph_wiring_detail::input_endpoint_for_sources(input_schema, std::span<const WiringPortRef>{ins.data(), ins.size()}));
        nb.label("activity_probe");
        static_cast<void>(w.add_node(std::type_index(typeid(ProbeDef)), std::move(nb),
                                     std::span<const WiringPortRef>{ins.data(), ins.size()}, Value{}));
    }

    // ------------------------------------------------------------------ replay buffers
    std::optional<Int> tick_of(const Cycle &c, Path p)
    {
        const auto it = c.ticks.find(p);
        if (it == c.ticks.end()) { return std::nullopt; }
        return it->second;
    }

    Path ext(Path p, std::size_t i)
    {
        p.push_back(i);
        return p;
    }

    std::optional<Value> list_leaf_delta(const Cycle &c, const Path &prefix, std::size_t n)
    {
        std::vector<std::optional<Int>> pos;
        bool                            any = false;
        for (std::size_t i = 0; i < n; ++i)
        {
            pos.push_back(tick_of(c, ext(prefix, i)));
            any = any || pos.back().has_value();
        }
        if (!any) { return std::nullopt; }
        return list_delta<S_TS>(pos);
    }

    std::optional<Value> delta_for(const SourceRec &s, const Cycle &c)
    {
        switch (src_kind(s.shape))
        {
            case Src::TS:
            {
                const auto v = tick_of(c, s.prefix);
                if (!v) { return std::nullopt; }
                return Value{*v};
            }
            case Src::L2: return list_leaf_delta(c, s.prefix, 2);
            case Src::L3: return list_leaf_delta(c, s.prefix, 3);
            case Src::B2:
            {
                const auto x = tick_of(c, ext(s.prefix, 0)), y = tick_of(c, ext(s.prefix, 1));
                if (!x && !y) { return std::nullopt; }
                return tsb_delta<S_B2>(x, y);
            }
            default:
            {
                std::vector<std::optional<Value>> pos;
                bool                              any = false;
                for (std::size_t i = 0; i < 2; ++i)
                {
                    pos.push_back(list_leaf_delta(c, ext(s.prefix, i), 2));
                    any = any || pos.back().has_value();
                }
                if (!any) { return std::nullopt; }
                return list_delta<S_L2>(pos);
            }
        }
    }

    std::string run_case()
    {
        g_next_cmd_cycle = 0;
        g_queue.clear();
        g_runs.clear();
        g_sources.clear();
        std::optional<GraphBuilder> gb;
        try
        {
            Wiring w{WiringKind::TopLevel, WiringOptions{}};
            wire_probe(w);
            gb.emplace(std::move(w).finish());
            auto gs = gb->global_state();
            for (const auto &s : g_sources)
            {
                std::vector<std::optional<Value>> deltas;
                for (const auto &c : g_cfg.cycles) { deltas.push_back(delta_for(s, c)); }
                set_replay_deltas(gs, s.key, deltas);
            }
        }
        catch (const std::exception &e)
        {
            std::cerr << "build-err " << e.what() << "\n";
            return "err:build";
        }
        try
        {
            GraphExecutorBuilder eb;
            eb.graph_builder(std::move(*gb))
                .mode(GraphExecutorMode::Simulation)
                .start_time(MIN_ST)
                .end_time(MIN_ST + TimeDelta{static_cast<std::int64_t>(g_cfg.cycles.size()) + 2});
            GraphExecutorValue ex = eb.make_executor();
            ex.view().run();
        }
        catch (const std::exception &e)
        {
            std::cerr << "run-err " << e.what() << "\n";
            return "err:run";
        }
        return "end";
    }
}  // namespace

int main()
{
    std::ios::sync_with_stdio(false);
    (void)TypeRegistry::instance().register_scalar<Int>("int");

    // per case: the immediate outputs (one per line) with placeholders for the `t` lines
    std::vector<std::string> out;
    std::vector<std::size_t> t_lines;   // indices into `out` of the cycle lines
    bool                     bad = false, in_case = false, seen_t = false, seen_init = false;

    auto flush_case = [&] {
        for (const auto &l : out) { std::cout << l << "\n"; }
        out.clear();
        t_lines.clear();
    };

    std::string line;
    while (std::getline(std::cin, line))
    {
        const auto ws = split(line);
        if (ws.empty()) { out.push_back(""); if (!in_case) { flush_case(); } continue; }
        if (ws[0] == "case" && ws.size() == 2)
        {
            flush_case();
            g_cfg = CaseCfg{};
            bad = false;
            in_case = true;
            seen_t = seen_init = false;
            out.push_back("case " + ws[1]);
            continue;
        }
        if (!in_case) { out.push_back("bad-op"); flush_case(); continue; }
        if (ws[0] == "in" && ws.size() == 4 && !seen_t && !seen_init && g_cfg.ins.size() < 3)
        {
            auto s = shape_of(ws[1]);
            const bool okA = ws[2] == "a" || ws[2] == "p";
            const bool okV = ws[3] == "v" || ws[3] == "a" || ws[3] == "u";
            if (!s || !okA || !okV) { bad = true; out.push_back("bad-op"); continue; }
            g_cfg.ins.push_back(InDecl{*s, ws[2] == "a", ws[3][0]});
            out.push_back("ok");
            continue;
        }
        if (ws[0] == "init" && !seen_t && !seen_init && !g_cfg.ins.empty())
        {
            std::vector<Cmd> cmds;
            bool             ok = true;
            for (std::size_t i = 1; i < ws.size(); ++i)
            {
                auto c = parse_cmd(g_cfg, ws[i]);
                if (!c) { ok = false; break; }
                cmds.push_back(*c);
            }
            if (!ok) { bad = true; out.push_back("bad-op"); continue; }
            seen_init = true;
            g_cfg.init = std::move(cmds);
            out.push_back("ok");
            continue;
        }
        if (ws[0] == "t" && !g_cfg.ins.empty() && g_cfg.cycles.size() < 64)
        {
            Cycle c;
            bool  ok = true;
            for (std::size_t i = 1; i < ws.size() && ok; ++i)
            {
                const auto eq = ws[i].find('=');
                if (eq != std::string::npos)
                {
                    auto       p = parse_path(ws[i].substr(0, eq));
                    const auto v = parse_int(ws[i].substr(eq + 1));
                    const Shape *s = p ? shape_at(g_cfg, *p) : nullptr;
                    if (!p || !v || s == nullptr || s->k != Shape::K::Leaf || c.ticks.count(*p) != 0) { ok = false; break; }
                    c.ticks.emplace(*p, *v);
                }
                else
                {
                    auto cmd = parse_cmd(g_cfg, ws[i]);
                    if (!cmd) { ok = false; break; }
                    c.cmds.push_back(*cmd);
                }
            }
            if (!ok) { bad = true; out.push_back("bad-op"); continue; }
            seen_t = true;
            g_cfg.cycles.push_back(std::move(c));
            t_lines.push_back(out.size());
            out.push_back("");
            continue;
        }
        if (ws[0] == "end" && ws.size() == 1)
        {
            std::string res = "err:bad-case";
            if (!bad && !g_cfg.ins.empty()) { res = run_case(); }
            const bool ran = res == "end";
            for (std::size_t k = 0; k < t_lines.size(); ++k)
            {
                if (bad || g_cfg.ins.empty()) { out[t_lines[k]] = "skip"; }
                else if (!ran) { out[t_lines[k]] = "?"; }
                else
                {
                    const auto it = g_runs.find(k);
                    out[t_lines[k]] = it == g_runs.end() ? "-" : it->second;
                }
            }
            out.push_back(res);
            flush_case();
            in_case = false;
            continue;
        }
        bad = true;
        out.push_back("bad-op");
    }
    flush_case();
    return 0;
}
