// hgv_intern: direct correspondence stream for the node interning of Wiring::add_node
// (graph_wiring.cpp: InputKey / SourceKey / InstanceKey / InstanceKeyHash / source_key_for / make_key).
// A textual wiring program is wired through the REAL public wiring API (wire<X>, Port<S>{w, node, path},
// passive(), error_output()); every declaration prints WHICH node it denotes, so two declarations that
// were interned into one WiringInstance print the same number.  One output line per input line.
//
//   case <n>                          -> "case <n>"    fresh Wiring
//   reset                             -> "ok"          fresh Wiring (next statement order of the same case)
//   src <lbl> <kind> <k>              -> "n<i>:<ty>"   a source node with scalar k; kind:
//        s  TS<Int>            p  TSL<TS<Int>,2>            b  TSB{a: TS<Int>, b: TS<Int>}
//        e  TS<Int> whose node also has an error output of schema TS<Int> (native builder)
//   node <lbl> <def> <k> <in>...      -> "n<i>:<ty>" | "err"     value node, scalar k; defs:
//        f1, g1 (TS<Int>) ; f2, g2 (TS<Int>, TS<Int>) ; t1 (TSL<TS<Int>,2>)
//        generic definitions (the RESOLVED type is part of the node's identity):
//        q:<t>   quote(In<TS<Int>>, Scalar k, Out<TsVar<"O">>) through the typed surface wire<Quote, TS<T>>(...):
//                the output type variable is bound ONLY by the requested output type <t> = i (Int) | f (Float) | b (Bool)
//        qn:<t>  the same definition called BY NAME (wire_operator("hgv_in_q", args, true, requested schema)): the
//                erased surface operator implementations and the Python bridge use; the result port is erased
//        ec      echo(In<TsVar<"S">>, Scalar k, Out<TsVar<"S">>): the output type follows the input (i / f / b port)
//                ec and r consume the result of a by-name call as the erased Port<void> it is, every other port typed
//        gs:<t>  gs(In<TS<Int>>, Scalar<"k", ScalarVar<"T">>, Out<TS<Int>>): the scalar type variable is bound by the type of
//                the scalar VALUE, <t> = i: Int{k} | f: Float{k}; value a + k (+ 1000 for a Float scalar)
//        f1 ... t1 and k1, k2 take TS<Int> ports only; a rank-free input (^) on a generic definition is "bad-op"
//   sink <lbl> <def> <k> <in>...      -> "sink" | "err"     output-less node; defs k0 (no input), k1 (TS<Int>), k2 (TS<Int>, TS<Int>),
//        r (In<TsVar<"S">>: records the string form of every tick of an i / f / b port under <lbl>, see run)
//        <in>   = [~][^]<body>        ~ = passive usage (passive(port));  ^ = rank-free input
//                                     (WiringInputRef.rank_dependency = false)
//        <body> = <elem> | [<elem>,<elem>]      the bracket form is a structural {x, y} initializer (t1 only, no ~)
//        <elem> = <lbl>  whole output | <lbl>.<0|1>  element / field sub-path of a p / b source
//               | <lbl>!  the error output of an e source
//        "err": the wiring API threw (e.g. "passive would deactivate every input"); nothing is declared.
//   finish                            -> "nodes=<N> edges=<src>[@<p>..][!]><dst>.<slot>[.<j>],..." | "build-err"
//        node names are the label of the FIRST declaration of the instance; edges sorted as strings.
//        The wiring is consumed: further declarations need a reset.
//   run                               -> "<finish line> rec=<lbl>:<v>/<v>..;<lbl>:.." | "build-err" | "run-err"
//        finish, then ONE simulation run of the built graph (every source ticks its scalar once at start; f = sum of
//        inputs + k; t1 = k; q:i = 3*a + k + 1, q:f = a + k + 0.5, q:b = (a + k) odd); the recorded stream of every r sink,
//        sorted by label.  "bad-op" (nothing consumed) when a rank-free input (^) was declared: such a consumer may be
//        ranked before its producer and what it then sees in the cycle is not a function of the dataflow.
//   anything else (unknown op/def, arity or type mismatch, unknown or duplicate label, ...) -> "bad-op"
//
// n<i> numbers the distinct WiringInstance* of the returned ports in first-seen order within one Wiring;
// <ty> is the schema stamped on the returned port: i TS<Int>, f TS<Float>, b TS<Bool>, l TSL<TS<Int>,2>, s the TSB, ? other.
#include "hgv_common.h"

#include <hgraph/runtime/runtime.h>
#include <hgraph/types/graph_wiring.h>
#include <hgraph/types/operator_dispatch.h>
#include <hgraph/types/static_node.h>

#include <algorithm>
#include <array>
#include <cstdlib>
#include <map>
#include <memory>
#include <optional>
#include <set>
#include <stdexcept>

using namespace hgraph;
using namespace hgv;

namespace
{
    using PairB = TSB<"HgvInternPair", Field<"a", TS<Int>>, Field<"b", TS<Int>>>;
    using PairL = TSL<TS<Int>, 2>;

    struct SrcS
    {
        static constexpr auto name              = "hgv_in_s";
        static constexpr bool schedule_on_start = true;
        static void           eval(Scalar<"k", Int> k, Out<TS<Int>> out) { out.set(k.value()); }
    };
    struct SrcP
    {
        static constexpr auto name              = "hgv_in_p";
        static constexpr bool schedule_on_start = true;
        static void           eval(Scalar<"k", Int> k, Out<PairL> out)
        {
            out.set(0, k.value());
            out.set(1, k.value());
        }
    };
    struct SrcB
    {
        static constexpr auto name              = "hgv_in_b";
        static constexpr bool schedule_on_start = true;
        static void           eval(Scalar<"k", Int> k, Out<PairB> out)
        {
            out.field<"a">().set(k.value());
            out.field<"b">().set(k.value());
        }
    };
    struct SrcETag
    {
    };
    struct F1
    {
        static constexpr auto name = "hgv_in_f1";
        static void           eval(In<"a", TS<Int>> a, Scalar<"k", Int> k, Out<TS<Int>> out) { out.set(a.value() + k.value()); }
    };
    struct G1
    {
        static constexpr auto name = "hgv_in_g1";
        static void           eval(In<"a", TS<Int>> a, Scalar<"k", Int> k, Out<TS<Int>> out) { out.set(a.value() + k.value()); }
    };
    struct F2
    {
        static constexpr auto name = "hgv_in_f2";
        static void eval(In<"a", TS<Int>> a, In<"b", TS<Int>> b, Scalar<"k", Int> k, Out<TS<Int>> out)
        {
            out.set(a.value() + b.value() + k.value());
        }
    };
    struct G2
    {
        static constexpr auto name = "hgv_in_g2";
        static void eval(In<"a", TS<Int>> a, In<"b", TS<Int>> b, Scalar<"k", Int> k, Out<TS<Int>> out)
        {
            out.set(a.value() + b.value() + k.value());
        }
    };
    struct T1
    {
        static constexpr auto name = "hgv_in_t1";
        static void           eval(In<"a", PairL> a, Scalar<"k", Int> k, Out<TS<Int>> out) { out.set(k.value()); }
    };
    // an output-less node WITHOUT time-series inputs (a start-up beacon): still a side-effecting node that must
    // never be shared, although its node kind is not "Sink" (that kind needs a time-series input)
    struct K0
    {
        static constexpr auto name              = "hgv_in_k0";
        static constexpr bool schedule_on_start = true;
        static void           eval(Scalar<"k", Int> k) {}
    };
    struct K1
    {
        static constexpr auto name = "hgv_in_k1";
        static void           eval(In<"a", TS<Int>> a, Scalar<"k", Int> k) {}
    };
    struct K2
    {
        static constexpr auto name = "hgv_in_k2";
        static void           eval(In<"a", TS<Int>> a, In<"b", TS<Int>> b, Scalar<"k", Int> k) {}
    };

    // Generic in its OUTPUT only: nothing but the requested output type (wire<Quote, TS<...>>, or the expected output
    // schema of a by-name call) binds "O".  The value written depends on the resolved type.
    struct Quote
    {
        static constexpr auto name = "hgv_in_q";
        static void           eval(In<"a", TS<Int>> a, Scalar<"k", Int> k, Out<TsVar<"O">> out)
        {
            const auto *schema = static_cast<const TSOutputView &>(out).schema();
            const auto *vs     = schema != nullptr ? schema->value_schema : nullptr;
            if (vs == scalar_descriptor<Float>::value_meta())
            {
                Value v{Float{static_cast<double>(a.value() + k.value()) + 0.5}};
                out.apply(v.view());
            }
            else if (vs == scalar_descriptor<Bool>::value_meta())
            {
                Value v{Bool{((a.value() + k.value()) % 2) != 0}};
                out.apply(v.view());
            }
            else
            {
                Value v{Int{a.value() * 3 + k.value() + 1}};
                out.apply(v.view());
            }
        }
    };
    // the same definition published as an operator overload: callable by name with a requested output schema
    struct quote_op : Operator<"hgv_in_q", In<"a", TS<Int>>, Scalar<"k", Int>, Out<TsVar<"O">>>
    {
    };
    // generic in input AND output: the resolved type follows the input
    struct Echo
    {
        static constexpr auto name = "hgv_in_ec";
        static void           eval(In<"a", TsVar<"S">> a, Scalar<"k", Int> k, Out<TsVar<"S">> out) { out.apply(a.value()); }
    };
    // generic in its SCALAR only: gs(a, k : T) -> TS<Int>; the resolved scalar schema is {k: int} or {k: float}
    struct GScale
    {
        static constexpr auto name = "hgv_in_gs";
        static void           eval(In<"a", TS<Int>> a, Scalar<"k", ScalarVar<"T">> k, Out<TS<Int>> out)
        {
            const auto  v = k.value();
            const Float *f = v.try_as<Float>();
            out.set(f != nullptr ? a.value() + static_cast<Int>(*f) + 1000 : a.value() + v.checked_as<Int>());
        }
    };
    // recorder: an output-less generic node; `id` is the driver's index of the recorder (its label)
    std::map<Int, std::vector<std::string>> g_rec;
    struct Rec
    {
        static constexpr auto name = "hgv_in_r";
        static void           eval(In<"a", TsVar<"S">> a, Scalar<"k", Int> k, Scalar<"id", Int> id)
        {
            g_rec[id.value()].push_back(Value{a.value()}.to_string());
        }
    };

    NodeBuilder error_source_builder()
    {
        const auto      *ts_int = ts_type<TS<Int>>();
        NodeTypeMetaData meta;
        meta.display_name        = "hgv_in_e";
        meta.output_schema       = ts_int;
        meta.error_output_schema = ts_int;
        meta.node_kind           = NodeKind::PullSource;
        meta.schedule_on_start   = true;
        NodeCallbacks callbacks;
        callbacks.evaluate = [](const NodeView &, DateTime) {};
        return NodeBuilder::native(std::move(meta), std::move(callbacks));
    }

    // ------------------------------------------------------------------ program state
    enum class Ty { Ts, Tsl, Tsb, TsErr, TsF, TsB };   // TsErr: a TS<Int> port whose node also has an error output;
                                                       // TsF / TsB: TS<Float> / TS<Bool> ports (generic definitions)

    struct Ent
    {
        Ty            ty;
        WiringPortRef ref;
        bool          erased{false};   // the result of a by-name call: an erased port, consumed as Port<void> by generic consumers
    };

    struct Prog
    {
        std::unique_ptr<Wiring>                     w;
        std::map<std::string, Ent>                  ents;
        std::set<std::string>                       used;
        std::map<const WiringInstance *, std::size_t> seen;
        std::vector<std::string>                    recs;   // label of recorder <id>
        bool                                        rank_free{false};   // a rank-free input was declared
    };

    Prog fresh()
    {
        Prog p;
        p.w = std::make_unique<Wiring>();
        return p;
    }

    bool is_label(const std::string &s)
    {
        if (s.empty()) return false;
        for (char c : s)
            if (!((c >= 'a' && c <= 'z') || (c >= '0' && c <= '9') || c == '_')) return false;
        return true;
    }

    std::optional<std::int64_t> to_nat(const std::string &s)
    {
        if (s.empty() || s.size() > 9) return std::nullopt;
        for (char c : s)
            if (c < '0' || c > '9') return std::nullopt;
        return std::stoll(s);
    }

    struct Elem
    {
        WiringPortRef ref;
        Ty            ty;   // Ts or Tsl (whole p) or Tsb (whole b)
        bool          erased{false};
    };

    // <lbl> | <lbl>.<0|1> | <lbl>!
    std::optional<Elem> parse_elem(Prog &prog, const std::string &s)
    {
        Wiring &w = *prog.w;
        if (!s.empty() && s.back() == '!')
        {
            auto it = prog.ents.find(s.substr(0, s.size() - 1));
            if (it == prog.ents.end() || it->second.ty != Ty::TsErr) return std::nullopt;
            Port<void> err = error_output(Port<TS<Int>>{w, it->second.ref});
            return Elem{err.erased(), Ty::Ts};
        }
        if (s.size() >= 3 && s[s.size() - 2] == '.' && (s.back() == '0' || s.back() == '1'))
        {
            auto it = prog.ents.find(s.substr(0, s.size() - 2));
            if (it == prog.ents.end() || (it->second.ty != Ty::Tsl && it->second.ty != Ty::Tsb)) return std::nullopt;
            const std::size_t index = static_cast<std::size_t>(s.back() - '0');
            Port<TS<Int>>     port{w, it->second.ref.peered_node(), {index}};
            return Elem{port.erased(), Ty::Ts};
        }
        auto it = prog.ents.find(s);
        if (it == prog.ents.end()) return std::nullopt;
        return Elem{it->second.ref, it->second.ty == Ty::TsErr ? Ty::Ts : it->second.ty, it->second.erased};
    }

    struct Input
    {
        bool                 passive{false};
        bool                 rank_free{false};
        bool                 structural{false};
        std::vector<Elem>    elems;   // 1, or 2 for the structural form
    };

    std::optional<Input> parse_input(Prog &prog, std::string s)
    {
        Input in;
        if (!s.empty() && s[0] == '~') { in.passive = true; s.erase(0, 1); }
        if (!s.empty() && s[0] == '^') { in.rank_free = true; s.erase(0, 1); }
        if (s.size() >= 2 && s.front() == '[' && s.back() == ']')
        {
            if (in.passive) return std::nullopt;
            const std::string body  = s.substr(1, s.size() - 2);
            const auto        comma = body.find(',');
            if (comma == std::string::npos || body.find(',', comma + 1) != std::string::npos) return std::nullopt;
            auto a = parse_elem(prog, body.substr(0, comma));
            auto b = parse_elem(prog, body.substr(comma + 1));
            if (!a || !b || a->ty != Ty::Ts || b->ty != Ty::Ts) return std::nullopt;
            in.structural = true;
            in.elems      = {*a, *b};
            return in;
        }
        auto e = parse_elem(prog, s);
        if (!e) return std::nullopt;
        in.elems = {*e};
        return in;
    }

    Port<TS<Int>> ts_port(Wiring &w, const Input &in)
    {
        Port<TS<Int>> port{w, in.elems[0].ref};
        return in.passive ? passive(port) : port;
    }

    // The concrete-node tail of wire<X>() (graph_wiring.h wire_static_node_normal) with explicit
    // WiringInputRef, needed only when an input is rank-free (the public wire<X> has no such argument).
    template <typename X>
    WiringPortRef add_explicit(Wiring &w, const std::vector<Input> &ins, Int k, const std::string &label)
    {
        using signature    = StaticNodeSignature<X>;
        const auto binding = value_type_for_wiring(signature::scalar_schema());
        Value      scalars{binding};
        {
            auto mutation                                    = scalars.as_bundle().begin_mutation();
            mutation["k"].template checked_mutable_as<Int>() = k;
        }
        NodeBuilder builder      = graph_wiring_detail::build_node_builder<X>();
        const auto *input_schema = builder.type().schema() != nullptr ? builder.type().schema()->input_schema : nullptr;
        std::vector<WiringPortRef> sources;
        for (std::size_t i = 0; i < ins.size(); ++i)
        {
            const auto   *expected = input_schema->fields()[i].type;
            WiringPortRef ref;
            if (ins[i].structural)
            {
                ref = graph_wiring_detail::structural_source_for_input_schema(
                    expected, WiringStructuralSourceArg{std::vector<WiringPortRef>{ins[i].elems[0].ref, ins[i].elems[1].ref}});
            }
            else
            {
                ref = ins[i].elems[0].ref;
                if (ins[i].passive) ref = ref.with_arg_tag(WiringPortRef::ArgTag::Passive);
            }
            sources.push_back(graph_wiring_detail::adapt_source_for_input(w, expected, std::move(ref)));
        }
        std::vector<WiringInputRef> inputs;
        for (std::size_t i = 0; i < ins.size(); ++i)
        {
            inputs.push_back(WiringInputRef{.source = sources[i], .target_path = {}, .rank_dependency = !ins[i].rank_free});
        }
        builder.input_endpoint(graph_wiring_detail::input_endpoint_for_sources(
            input_schema, std::span<const WiringPortRef>{sources.data(), sources.size()}));
        builder.label(label);
        return w.add_node(std::type_index(typeid(X)), std::move(builder),
                          std::span<const WiringInputRef>{inputs.data(), inputs.size()}, std::move(scalars));
    }

    // a pending label names the graph node in the finish line (first declaration of an instance wins)
    template <typename X>
    void name_next(Wiring &w, const std::string &label)
    {
        w.set_pending_node_label(std::string{X::name}, label);
    }

    std::string number(Prog &prog, const WiringPortRef &ref)
    {
        const WiringInstance *node = ref.peered_node();
        auto                  it   = prog.seen.find(node);
        if (it == prog.seen.end()) it = prog.seen.emplace(node, prog.seen.size()).first;
        const char *ty = "?";
        if (ref.schema == ts_type<TS<Int>>()) ty = "i";
        else if (ref.schema == ts_type<TS<Float>>()) ty = "f";
        else if (ref.schema == ts_type<TS<Bool>>()) ty = "b";
        else if (ref.schema == ts_type<PairL>()) ty = "l";
        else if (ref.schema == ts_type<PairB>()) ty = "s";
        return "n" + std::to_string(it->second) + ":" + ty;
    }

    bool scalar_ts(Ty ty) { return ty == Ty::Ts || ty == Ty::TsF || ty == Ty::TsB; }

    // the requested output type of a q:<t> / qn:<t> definition
    std::optional<Ty> requested(const std::string &def, const std::string &prefix)
    {
        if (def.size() != prefix.size() + 1 || def.compare(0, prefix.size(), prefix) != 0) return std::nullopt;
        switch (def.back())
        {
            case 'i': return Ty::Ts;
            case 'f': return Ty::TsF;
            case 'b': return Ty::TsB;
            default: return std::nullopt;
        }
    }

    const TSValueTypeMetaData *meta_of(Ty ty)
    {
        return ty == Ty::TsF ? ts_type<TS<Float>>() : ty == Ty::TsB ? ts_type<TS<Bool>>() : ts_type<TS<Int>>();
    }

    WiringPortRef usage(const Input &in)
    {
        return in.passive ? in.elems[0].ref.with_arg_tag(WiringPortRef::ArgTag::Passive) : in.elems[0].ref;
    }

    WiringArg ts_arg(WiringPortRef ref)
    {
        WiringArg arg;
        arg.kind = WiringArg::Kind::TimeSeries;
        arg.port = std::move(ref);
        return arg;
    }

    WiringArg int_arg(Int k)
    {
        WiringArg arg;
        arg.kind         = WiringArg::Kind::Scalar;
        arg.scalar_value = Value{k};
        arg.scalar_meta  = scalar_descriptor<Int>::value_meta();
        return arg;
    }

    // the typed surface for a generic input: Port<TS<T>> of the port's own type
    template <typename X, typename... Scalars>
    auto wire_by_type(Wiring &w, const Input &in, Scalars... scalars)
    {
        if (in.elems[0].erased)
        {
            // an erased port stays erased: the generic consumer resolves against the schema the port carries
            return wire<X>(w, Port<void>{w, usage(in)}, scalars...);
        }
        switch (in.elems[0].ty)
        {
            case Ty::TsF:
            {
                Port<TS<Float>> port{w, in.elems[0].ref};
                return wire<X>(w, in.passive ? passive(port) : port, scalars...);
            }
            case Ty::TsB:
            {
                Port<TS<Bool>> port{w, in.elems[0].ref};
                return wire<X>(w, in.passive ? passive(port) : port, scalars...);
            }
            default: return wire<X>(w, ts_port(w, in), scalars...);
        }
    }
}  // namespace

int main()
{
    std::ios::sync_with_stdio(false);
    register_overload<quote_op, Quote>();
    Prog        prog = fresh();
    std::string line;
    while (std::getline(std::cin, line))
    {
        auto tok = split(line);
        if (tok.empty()) { std::cout << "\n"; continue; }
        const std::string &op = tok[0];
        try
        {
            if (op == "case" && tok.size() == 2)
            {
                prog = fresh();
                std::cout << line << "\n";
            }
            else if (op == "reset" && tok.size() == 1)
            {
                prog = fresh();
                std::cout << "ok\n";
            }
            else if (op == "src" && tok.size() == 4)
            {
                const std::string &lbl = tok[1];
                const auto         k   = to_nat(tok[3]);
                if (!prog.w || !is_label(lbl) || prog.used.count(lbl) || !k || tok[2].size() != 1 ||
                    std::string("spbe").find(tok[2][0]) == std::string::npos)
                {
                    std::cout << "bad-op\n";
                    continue;
                }
                Wiring &w = *prog.w;
                Ent     ent;
                switch (tok[2][0])
                {
                    case 's':
                        name_next<SrcS>(w, lbl);
                        ent = Ent{Ty::Ts, wire<SrcS>(w, Int{*k}).erased()};
                        break;
                    case 'p':
                        name_next<SrcP>(w, lbl);
                        ent = Ent{Ty::Tsl, wire<SrcP>(w, Int{*k}).erased()};
                        break;
                    case 'b':
                        name_next<SrcB>(w, lbl);
                        ent = Ent{Ty::Tsb, wire<SrcB>(w, Int{*k}).erased()};
                        break;
                    default:
                    {
                        NodeBuilder builder = error_source_builder();
                        builder.label(lbl);
                        ent = Ent{Ty::TsErr, w.add_node(std::type_index(typeid(SrcETag)), std::move(builder),
                                                        std::span<const WiringPortRef>{}, Value{Int{*k}})};
                        break;
                    }
                }
                w.clear_pending_node_label();
                prog.used.insert(lbl);
                prog.ents.emplace(lbl, ent);
                std::cout << number(prog, ent.ref) << "\n";
            }
            else if ((op == "node" || op == "sink") && tok.size() >= 4)
            {
                const bool         sink = op == "sink";
                const std::string &lbl  = tok[1];
                const std::string &def  = tok[2];
                const auto         k    = to_nat(tok[3]);
                std::size_t        arity = 0;
                bool               wants_tsl = false;
                const auto         q_typed   = sink ? std::nullopt : requested(def, "q:");
                const auto         q_by_name = sink ? std::nullopt : requested(def, "qn:");
                const auto         gs_typed  = sink ? std::nullopt : requested(def, "gs:");
                if (gs_typed && *gs_typed == Ty::TsB) { std::cout << "bad-op\n"; continue; }
                const bool         generic   = q_typed || q_by_name || gs_typed || (!sink && def == "ec") || (sink && def == "r");
                const bool         any_ts    = (!sink && def == "ec") || (sink && def == "r");
                if (generic) arity = 1;
                else if (!sink && (def == "f1" || def == "g1")) arity = 1;
                else if (!sink && (def == "f2" || def == "g2")) arity = 2;
                else if (!sink && def == "t1") { arity = 1; wants_tsl = true; }
                else if (sink && def == "k1") arity = 1;
                else if (sink && def == "k2") arity = 2;
                const bool beacon = sink && def == "k0";
                if (!prog.w || (arity == 0 && !beacon) || tok.size() != 4 + arity || !is_label(lbl) || prog.used.count(lbl) || !k)
                {
                    std::cout << "bad-op\n";
                    continue;
                }
                Wiring            &w = *prog.w;
                std::vector<Input> ins;
                bool               bad = false, rank_free = false;
                for (std::size_t i = 0; i < arity && !bad; ++i)
                {
                    auto in = parse_input(prog, tok[4 + i]);
                    if (!in) { bad = true; break; }
                    if (wants_tsl ? !(in->structural || in->elems[0].ty == Ty::Tsl)
                                  : (in->structural || (any_ts ? !scalar_ts(in->elems[0].ty) : in->elems[0].ty != Ty::Ts)))
                        bad = true;
                    if (generic && in->rank_free) bad = true;
                    rank_free = rank_free || in->rank_free;
                    ins.push_back(std::move(*in));
                }
                if (bad) { std::cout << "bad-op\n"; continue; }
                std::optional<WiringPortRef> out;
                struct Clear
                {
                    Wiring &w;
                    ~Clear() { w.clear_pending_node_label(); }
                } clear{w};
                const Int kv{*k};
                Ty        out_ty = Ty::Ts;
                if (q_typed)
                {
                    name_next<Quote>(w, lbl);
                    out_ty = *q_typed;
                    switch (out_ty)
                    {
                        case Ty::TsF: out = wire<Quote, TS<Float>>(w, ts_port(w, ins[0]), kv).erased(); break;
                        case Ty::TsB: out = wire<Quote, TS<Bool>>(w, ts_port(w, ins[0]), kv).erased(); break;
                        default: out = wire<Quote, TS<Int>>(w, ts_port(w, ins[0]), kv).erased(); break;
                    }
                }
                else if (q_by_name)
                {
                    name_next<Quote>(w, lbl);
                    out_ty = *q_by_name;
                    std::array<WiringArg, 2> args{ts_arg(usage(ins[0])), int_arg(kv)};
                    out = wire_operator(w, "hgv_in_q", std::span<const WiringArg>{args.data(), args.size()}, true, meta_of(out_ty))
                              .output.erased();
                }
                else if (gs_typed)
                {
                    name_next<GScale>(w, lbl);
                    out = *gs_typed == Ty::TsF ? wire<GScale>(w, ts_port(w, ins[0]), Float{static_cast<double>(kv)}).erased()
                                               : wire<GScale>(w, ts_port(w, ins[0]), kv).erased();
                }
                else if (def == "ec" && !sink)
                {
                    name_next<Echo>(w, lbl);
                    out_ty = ins[0].elems[0].ty;
                    out    = wire_by_type<Echo>(w, ins[0], kv).erased();
                }
                else if (def == "r" && sink)
                {
                    name_next<Rec>(w, lbl);
                    wire_by_type<Rec>(w, ins[0], kv, Int{static_cast<Int>(prog.recs.size())});
                    prog.recs.push_back(lbl);
                }
                else if (rank_free)
                {
                    if (def == "f1") out = add_explicit<F1>(w, ins, kv, lbl);
                    else if (def == "g1") out = add_explicit<G1>(w, ins, kv, lbl);
                    else if (def == "f2") out = add_explicit<F2>(w, ins, kv, lbl);
                    else if (def == "g2") out = add_explicit<G2>(w, ins, kv, lbl);
                    else if (def == "t1") out = add_explicit<T1>(w, ins, kv, lbl);
                    else if (def == "k1") add_explicit<K1>(w, ins, kv, lbl);
                    else add_explicit<K2>(w, ins, kv, lbl);
                }
                else if (def == "f1") { name_next<F1>(w, lbl); out = wire<F1>(w, ts_port(w, ins[0]), kv).erased(); }
                else if (def == "g1") { name_next<G1>(w, lbl); out = wire<G1>(w, ts_port(w, ins[0]), kv).erased(); }
                else if (def == "f2")
                {
                    name_next<F2>(w, lbl);
                    out = wire<F2>(w, ts_port(w, ins[0]), ts_port(w, ins[1]), kv).erased();
                }
                else if (def == "g2")
                {
                    name_next<G2>(w, lbl);
                    out = wire<G2>(w, ts_port(w, ins[0]), ts_port(w, ins[1]), kv).erased();
                }
                else if (def == "t1")
                {
                    name_next<T1>(w, lbl);
                    if (ins[0].structural)
                    {
                        out = wire<T1>(w, WiringStructuralSourceArg{std::vector<WiringPortRef>{ins[0].elems[0].ref, ins[0].elems[1].ref}},
                                       kv).erased();
                    }
                    else
                    {
                        Port<PairL> port{w, ins[0].elems[0].ref};
                        out = wire<T1>(w, ins[0].passive ? passive(port) : port, kv).erased();
                    }
                }
                else if (def == "k0") { name_next<K0>(w, lbl); wire<K0>(w, kv); }
                else if (def == "k1") { name_next<K1>(w, lbl); wire<K1>(w, ts_port(w, ins[0]), kv); }
                else { name_next<K2>(w, lbl); wire<K2>(w, ts_port(w, ins[0]), ts_port(w, ins[1]), kv); }
                prog.used.insert(lbl);
                prog.rank_free = prog.rank_free || rank_free;
                if (sink) { std::cout << "sink\n"; }
                else
                {
                    prog.ents.emplace(lbl, Ent{out_ty, *out, q_by_name.has_value()});
                    std::cout << number(prog, *out) << "\n";
                }
            }
            else if ((op == "finish" || op == "run") && tok.size() == 1)
            {
                const bool run = op == "run";
                // a rank-free edge lets the consumer be ranked BEFORE its producer: what it sees in the cycle is not a
                // function of the dataflow, so such programs are only built, not run
                if (run && prog.rank_free) { std::cout << "bad-op\n"; continue; }
                if (!prog.w) { std::cout << "bad-op\n"; continue; }
                std::unique_ptr<Wiring> consumed = std::move(prog.w);
                prog.ents.clear();
                try
                {
                    GraphBuilder             graph = std::move(*consumed).finish();
                    std::vector<std::string> names;
                    for (const NodeBuilder &nb : graph.nodes()) names.emplace_back(nb.label());
                    std::vector<std::string> edges;
                    for (const GraphEdge &e : graph.edges())
                    {
                        std::string s = names.at(graph_edge_source_node(e.source_node));
                        for (std::size_t p : e.source_path) s += "@" + std::to_string(p);
                        switch (graph_edge_source_kind(e.source_node))
                        {
                            case GraphEdgeSourceKind::Output: break;
                            case GraphEdgeSourceKind::ErrorOutput: s += "!"; break;
                            default: s += "?"; break;
                        }
                        s += ">" + names.at(e.target_node);
                        for (std::size_t p : e.target_path) s += "." + std::to_string(p);
                        edges.push_back(std::move(s));
                    }
                    std::sort(edges.begin(), edges.end());
                    std::ostringstream os;
                    os << "nodes=" << names.size() << " edges=";
                    for (std::size_t i = 0; i < edges.size(); ++i) os << (i ? "," : "") << edges[i];
                    if (run)
                    {
                        g_rec.clear();
                        try
                        {
                            GraphExecutorBuilder eb;
                            eb.graph_builder(std::move(graph)).mode(GraphExecutorMode::Simulation).start_time(MIN_ST).end_time(MAX_ET);
                            GraphExecutorValue executor = eb.make_executor();
                            executor.view().run();
                        }
                        catch (const std::exception &e)
                        {
                            if (std::getenv("HGV_VERBOSE")) std::cerr << "run-err: " << e.what() << "\n";
                            std::cout << "run-err\n";
                            prog.recs.clear();
                            continue;
                        }
                        std::vector<std::string> recs;
                        for (std::size_t id = 0; id < prog.recs.size(); ++id)
                        {
                            std::string r = prog.recs[id] + ":";
                            const auto &vals = g_rec[static_cast<Int>(id)];
                            for (std::size_t i = 0; i < vals.size(); ++i) r += (i ? "/" : "") + vals[i];
                            recs.push_back(std::move(r));
                        }
                        std::sort(recs.begin(), recs.end());
                        os << " rec=";
                        for (std::size_t i = 0; i < recs.size(); ++i) os << (i ? ";" : "") << recs[i];
                        prog.recs.clear();
                    }
                    std::cout << os.str() << "\n";
                }
                catch (const std::exception &e)
                {
                    if (std::getenv("HGV_VERBOSE")) std::cerr << "build-err: " << e.what() << "\n";
                    std::cout << "build-err\n";
                }
            }
            else { std::cout << "bad-op\n"; }
        }
        catch (const std::exception &) { std::cout << "err\n"; }
    }
    return 0;
}
