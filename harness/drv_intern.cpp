// hgv_intern: direct correspondence stream for the node interning of Wiring::add_node
// (graph_wiring.cpp: InputKey / SourceKey / InstanceKey / InstanceKeyHash / source_key_for / make_key).
// A textual wiring program is wired through the REAL public wiring API (wire<X>, Port<S>{w, node, path},
// passive(), error_output()); every declaration prints WHICH node it denotes, so two declarations that
// were interned into one WiringInstance print the same number.  One output line per input line.
//
//   case <n>                          -> "case <n>"    fresh Wiring
//   reset                             -> "ok"          fresh Wiring (next statement order of the same case)
//   src <lbl> <kind> <k>              -> "n<i>"        a source node with scalar k; kind:
//        s  TS<Int>            p  TSL<TS<Int>,2>            b  TSB{a: TS<Int>, b: TS<Int>}
//        e  TS<Int> whose node also has an error output of schema TS<Int> (native builder)
//   node <lbl> <def> <k> <in>...      -> "n<i>" | "err"     value node, scalar k; defs:
//        f1, g1 (TS<Int>) ; f2, g2 (TS<Int>, TS<Int>) ; t1 (TSL<TS<Int>,2>)
//   sink <lbl> <def> <k> <in>...      -> "sink" | "err"     output-less node; defs k0 (no input), k1 (TS<Int>), k2 (TS<Int>, TS<Int>)
//        <in>   = [~][^]<body>        ~ = passive usage (passive(port));  ^ = rank-free input
//                                     (WiringInputRef.rank_dependency = false)
//        <body> = <elem> | [<elem>,<elem>]      the bracket form is a structural {x, y} initializer (t1 only, no ~)
//        <elem> = <lbl>  whole output | <lbl>.<0|1>  element / field sub-path of a p / b source
//               | <lbl>!  the error output of an e source
//        "err": the wiring API threw (e.g. "passive would deactivate every input"); nothing is declared.
//   finish                            -> "nodes=<N> edges=<src>[@<p>..][!]><dst>.<slot>[.<j>],..." | "build-err"
//        node names are the label of the FIRST declaration of the instance; edges sorted as strings.
//        The wiring is consumed: further declarations need a reset.
//   anything else (unknown op/def, arity or type mismatch, unknown or duplicate label, ...) -> "bad-op"
//
// n<i> numbers the distinct WiringInstance* of the returned ports in first-seen order within one Wiring.
#include "hgv_common.h"

#include <hgraph/types/graph_wiring.h>
#include <hgraph/types/static_node.h>

#include <algorithm>
#include <map>
#include <memory>
#include <optional>
#include <set>
#include <stdexcept>

using namespace hgraph;
using namespace hgv;

namespace
{
    using PairB = TSB<"HgvInternPair", Field<"a", TS<Int>>, Field<"b", TS<Int>>>;
    using PairL = TSL<TS<Int>, 2>;

    struct SrcS
    {
        static constexpr auto name              = "hgv_in_s";
        static constexpr bool schedule_on_start = true;
        static void           eval(Scalar<"k", Int> k, Out<TS<Int>> out) { out.set(k.value()); }
    };
    struct SrcP
    {
        static constexpr auto name              = "hgv_in_p";
        static constexpr bool schedule_on_start = true;
        static void           eval(Scalar<"k", Int> k, Out<PairL> out)
        {
            out.set(0, k.value());
            out.set(1, k.value());
        }
    };
    struct SrcB
    {
        static constexpr auto name              = "hgv_in_b";
        static constexpr bool schedule_on_start = true;
        static void           eval(Scalar<"k", Int> k, Out<PairB> out)
        {
            out.field<"a">().set(k.value());
            out.field<"b">().set(k.value());
        }
    };
    struct SrcETag
    {
    };
    struct F1
    {
        static constexpr auto name = "hgv_in_f1";
        static void           eval(In<"a", TS<Int>> a, Scalar<"k", Int> k, Out<TS<Int>> out) { out.set(a.value() + k.value()); }
    };
    struct G1
    {
        static constexpr auto name = "hgv_in_g1";
        static void           eval(In<"a", TS<Int>> a, Scalar<"k", Int> k, Out<TS<Int>> out) { out.set(a.value() + k.value()); }
    };
    struct F2
    {
        static constexpr auto name = "hgv_in_f2";
        static void eval(In<"a", TS<Int>> a, In<"b", TS<Int>> b, Scalar<"k", Int> k, Out<TS<Int>> out)
        {
            out.set(a.value() + b.value() + k.value());
        }
    };
    struct G2
    {
        static constexpr auto name = "hgv_in_g2";
        static void eval(In<"a", TS<Int>> a, In<"b", TS<Int>> b, Scalar<"k", Int> k, Out<TS<Int>> out)
        {
            out.set(a.value() + b.value() + k.value());
        }
    };
    struct T1
    {
        static constexpr auto name = "hgv_in_t1";
        static void           eval(In<"a", PairL> a, Scalar<"k", Int> k, Out<TS<Int>> out) { out.set(k.value()); }
    };
    // an output-less node WITHOUT time-series inputs (a start-up beacon): still a side-effecting node that must
    // never be shared, although its node kind is not "Sink" (that kind needs a time-series input)
    struct K0
    {
        static constexpr auto name              = "hgv_in_k0";
        static constexpr bool schedule_on_start = true;
        static void           eval(Scalar<"k", Int> k) {}
    };
    struct K1
    {
        static constexpr auto name = "hgv_in_k1";
        static void           eval(In<"a", TS<Int>> a, Scalar<"k", Int> k) {}
    };
    struct K2
    {
        static constexpr auto name = "hgv_in_k2";
        static void           eval(In<"a", TS<Int>> a, In<"b", TS<Int>> b, Scalar<"k", Int> k) {}
    };

    NodeBuilder error_source_builder()
    {
        const auto      *ts_int = ts_type<TS<Int>>();
        NodeTypeMetaData meta;
        meta.display_name        = "hgv_in_e";
        meta.output_schema       = ts_int;
        meta.error_output_schema = ts_int;
        meta.node_kind           = NodeKind::PullSource;
        meta.schedule_on_start   = true;
        NodeCallbacks callbacks;
        callbacks.evaluate = [](const NodeView &, DateTime) {};
        return NodeBuilder::native(std::move(meta), std::move(callbacks));
    }

    // ------------------------------------------------------------------ program state
    enum class Ty { Ts, Tsl, Tsb, TsErr };   // TsErr: a TS<Int> port whose node also has an error output

    struct Ent
    {
        Ty            ty;
        WiringPortRef ref;
    };

    struct Prog
    {
        std::unique_ptr<Wiring>                     w;
        std::map<std::string, Ent>                  ents;
        std::set<std::string>                       used;
        std::map<const WiringInstance *, std::size_t> seen;
    };

    Prog fresh()
    {
        Prog p;
        p.w = std::make_unique<Wiring>();
        return p;
    }

    bool is_label(const std::string &s)
    {
        if (s.empty()) return false;
        for (char c : s)
            if (!((c >= 'a' && c <= 'z') || (c >= '0' && c <= '9') || c == '_')) return false;
        return true;
    }

    std::optional<std::int64_t> to_nat(const std::string &s)
    {
        if (s.empty() || s.size() > 9) return std::nullopt;
        for (char c : s)
            if (c < '0' || c > '9') return std::nullopt;
        return std::stoll(s);
    }

    struct Elem
    {
        WiringPortRef ref;
        Ty            ty;   // Ts or Tsl (whole p) or Tsb (whole b)
    };

    // <lbl> | <lbl>.<0|1> | <lbl>!
    std::optional<Elem> parse_elem(Prog &prog, const std::string &s)
    {
        Wiring &w = *prog.w;
        if (!s.empty() && s.back() == '!')
        {
            auto it = prog.ents.find(s.substr(0, s.size() - 1));
            if (it == prog.ents.end() || it->second.ty != Ty::TsErr) return std::nullopt;
            Port<void> err = error_output(Port<TS<Int>>{w, it->second.ref});
            return Elem{err.erased(), Ty::Ts};
        }
        if (s.size() >= 3 && s[s.size() - 2] == '.' && (s.back() == '0' || s.back() == '1'))
        {
            auto it = prog.ents.find(s.substr(0, s.size() - 2));
            if (it == prog.ents.end() || (it->second.ty != Ty::Tsl && it->second.ty != Ty::Tsb)) return std::nullopt;
            const std::size_t index = static_cast<std::size_t>(s.back() - '0');
            Port<TS<Int>>     port{w, it->second.ref.peered_node(), {index}};
            return Elem{port.erased(), Ty::Ts};
        }
        auto it = prog.ents.find(s);
        if (it == prog.ents.end()) return std::nullopt;
        return Elem{it->second.ref, it->second.ty == Ty::TsErr ? Ty::Ts : it->second.ty};
    }

    struct Input
    {
        bool                 passive{false};
        bool                 rank_free{false};
        bool                 structural{false};
        std::vector<Elem>    elems;   // 1, or 2 for the structural form
    };

    std::optional<Input> parse_input(Prog &prog, std::string s)
    {
        Input in;
        if (!s.empty() && s[0] == '~') { in.passive = true; s.erase(0, 1); }
        if (!s.empty() && s[0] == '^') { in.rank_free = true; s.erase(0, 1); }
        if (s.size() >= 2 && s.front() == '[' && s.back() == ']')
        {
            if (in.passive) return std::nullopt;
            const std::string body  = s.substr(1, s.size() - 2);
            const auto        comma = body.find(',');
            if (comma == std::string::npos || body.find(',', comma + 1) != std::string::npos) return std::nullopt;
            auto a = parse_elem(prog, body.substr(0, comma));
            auto b = parse_elem(prog, body.substr(comma + 1));
            if (!a || !b || a->ty != Ty::Ts || b->ty != Ty::Ts) return std::nullopt;
            in.structural = true;
            in.elems      = {*a, *b};
            return in;
        }
        auto e = parse_elem(prog, s);
        if (!e) return std::nullopt;
        in.elems = {*e};
        return in;
    }

    Port<TS<Int>> ts_port(Wiring &w, const Input &in)
    {
        Port<TS<Int>> port{w, in.elems[0].ref};
        return in.passive ? passive(port) : port;
    }

    // The concrete-node tail of wire<X>() (graph_wiring.h wire_static_node_normal) with explicit
    // WiringInputRef, needed only when an input is rank-free (the public wire<X> has no such argument).
    template <typename X>
    WiringPortRef add_explicit(Wiring &w, const std::vector<Input> &ins, Int k, const std::string &label)
    {
        using signature    = StaticNodeSignature<X>;
        const auto binding = value_type_for_wiring(signature::scalar_schema());
        Value      scalars{binding};
        {
            auto mutation                                    = scalars.as_bundle().begin_mutation();
            mutation["k"].template checked_mutable_as<Int>() = k;
        }
        NodeBuilder builder      = graph_wiring_detail::build_node_builder<X>();
        const auto *input_schema = builder.type().schema() != nullptr ? builder.type().schema()->input_schema : nullptr;
        std::vector<WiringPortRef> sources;
        for (std::size_t i = 0; i < ins.size(); ++i)
        {
            const auto   *expected = input_schema->fields()[i].type;
            WiringPortRef ref;
            if (ins[i].structural)
            {
                ref = graph_wiring_detail::structural_source_for_input_schema(
                    expected, WiringStructuralSourceArg{std::vector<WiringPortRef>{ins[i].elems[0].ref, ins[i].elems[1].ref}});
            }
            else
            {
                ref = ins[i].elems[0].ref;
                if (ins[i].passive) ref = ref.with_arg_tag(WiringPortRef::ArgTag::Passive);
            }
            sources.push_back(graph_wiring_detail::adapt_source_for_input(w, expected, std::move(ref)));
        }
        std::vector<WiringInputRef> inputs;
        for (std::size_t i = 0; i < ins.size(); ++i)
        {
            inputs.push_back(WiringInputRef{.source = sources[i], .target_path = {}, .rank_dependency = !ins[i].rank_free});
        }
        builder.input_endpoint(graph_wiring_detail::input_endpoint_for_sources(
            input_schema, std::span<const WiringPortRef>{sources.data(), sources.size()}));
        builder.label(label);
        return w.add_node(std::type_index(typeid(X)), std::move(builder),
                          std::span<const WiringInputRef>{inputs.data(), inputs.size()}, std::move(scalars));
    }

    // a pending label names the graph node in the finish line (first declaration of an instance wins)
    template <typename X>
    void name_next(Wiring &w, const std::string &label)
    {
        w.set_pending_node_label(std::string{X::name}, label);
    }

    std::string number(Prog &prog, const WiringInstance *node)
    {
        auto it = prog.seen.find(node);
        if (it == prog.seen.end()) it = prog.seen.emplace(node, prog.seen.size()).first;
        return "n" + std::to_string(it->second);
    }
}  // namespace

int main()
{
    std::ios::sync_with_stdio(false);
    Prog        prog = fresh();
    std::string line;
    while (std::getline(std::cin, line))
    {
        auto tok = split(line);
        if (tok.empty()) { std::cout << "\n"; continue; }
        const std::string &op = tok[0];
        try
        {
            if (op == "case" && tok.size() == 2)
            {
                prog = fresh();
                std::cout << line << "\n";
            }
            else if (op == "reset" && tok.size() == 1)
            {
                prog = fresh();
                std::cout << "ok\n";
            }
            else if (op == "src" && tok.size() == 4)
            {
                const std::string &lbl = tok[1];
                const auto         k   = to_nat(tok[3]);
                if (!prog.w || !is_label(lbl) || prog.used.count(lbl) || !k || tok[2].size() != 1 ||
                    std::string("spbe").find(tok[2][0]) == std::string::npos)
                {
                    std::cout << "bad-op\n";
                    continue;
                }
                Wiring &w = *prog.w;
                Ent     ent;
                switch (tok[2][0])
                {
                    case 's':
                        name_next<SrcS>(w, lbl);
                        ent = Ent{Ty::Ts, wire<SrcS>(w, Int{*k}).erased()};
                        break;
                    case 'p':
                        name_next<SrcP>(w, lbl);
                        ent = Ent{Ty::Tsl, wire<SrcP>(w, Int{*k}).erased()};
                        break;
                    case 'b':
                        name_next<SrcB>(w, lbl);
                        ent = Ent{Ty::Tsb, wire<SrcB>(w, Int{*k}).erased()};
                        break;
                    default:
                    {
                        NodeBuilder builder = error_source_builder();
                        builder.label(lbl);
                        ent = Ent{Ty::TsErr, w.add_node(std::type_index(typeid(SrcETag)), std::move(builder),
                                                        std::span<const WiringPortRef>{}, Value{Int{*k}})};
                        break;
                    }
                }
                w.clear_pending_node_label();
                prog.used.insert(lbl);
                prog.ents.emplace(lbl, ent);
                std::cout << number(prog, ent.ref.peered_node()) << "\n";
            }
            else if ((op == "node" || op == "sink") && tok.size() >= 4)
            {
                const bool         sink = op == "sink";
                const std::string &lbl  = tok[1];
                const std::string &def  = tok[2];
                const auto         k    = to_nat(tok[3]);
                std::size_t        arity = 0;
                bool               wants_tsl = false;
                if (!sink && (def == "f1" || def == "g1")) arity = 1;
                else if (!sink && (def == "f2" || def == "g2")) arity = 2;
                else if (!sink && def == "t1") { arity = 1; wants_tsl = true; }
                else if (sink && def == "k1") arity = 1;
                else if (sink && def == "k2") arity = 2;
                const bool beacon = sink && def == "k0";
                if (!prog.w || (arity == 0 && !beacon) || tok.size() != 4 + arity || !is_label(lbl) || prog.used.count(lbl) || !k)
                {
                    std::cout << "bad-op\n";
                    continue;
                }
                Wiring            &w = *prog.w;
                std::vector<Input> ins;
                bool               bad = false, rank_free = false;
                for (std::size_t i = 0; i < arity && !bad; ++i)
                {
                    auto in = parse_input(prog, tok[4 + i]);
                    if (!in) { bad = true; break; }
                    if (wants_tsl ? !(in->structural || in->elems[0].ty == Ty::Tsl)
                                  : (in->structural || in->elems[0].ty != Ty::Ts))
                        bad = true;
                    rank_free = rank_free || in->rank_free;
                    ins.push_back(std::move(*in));
                }
                if (bad) { std::cout << "bad-op\n"; continue; }
                std::optional<WiringPortRef> out;
                struct Clear
                {
                    Wiring &w;
                    ~Clear() { w.clear_pending_node_label(); }
                } clear{w};
                const Int kv{*k};
                if (rank_free)
                {
                    if (def == "f1") out = add_explicit<F1>(w, ins, kv, lbl);
                    else if (def == "g1") out = add_explicit<G1>(w, ins, kv, lbl);
                    else if (def == "f2") out = add_explicit<F2>(w, ins, kv, lbl);
                    else if (def == "g2") out = add_explicit<G2>(w, ins, kv, lbl);
                    else if (def == "t1") out = add_explicit<T1>(w, ins, kv, lbl);
                    else if (def == "k1") add_explicit<K1>(w, ins, kv, lbl);
                    else add_explicit<K2>(w, ins, kv, lbl);
                }
                else if (def == "f1") { name_next<F1>(w, lbl); out = wire<F1>(w, ts_port(w, ins[0]), kv).erased(); }
                else if (def == "g1") { name_next<G1>(w, lbl); out = wire<G1>(w, ts_port(w, ins[0]), kv).erased(); }
                else if (def == "f2")
                {
                    name_next<F2>(w, lbl);
                    out = wire<F2>(w, ts_port(w, ins[0]), ts_port(w, ins[1]), kv).erased();
                }
                else if (def == "g2")
                {
                    name_next<G2>(w, lbl);
                    out = wire<G2>(w, ts_port(w, ins[0]), ts_port(w, ins[1]), kv).erased();
                }
                else if (def == "t1")
                {
                    name_next<T1>(w, lbl);
                    if (ins[0].structural)
                    {
                        out = wire<T1>(w, WiringStructuralSourceArg{std::vector<WiringPortRef>{ins[0].elems[0].ref, ins[0].elems[1].ref}},
                                       kv).erased();
                    }
                    else
                    {
                        Port<PairL> port{w, ins[0].elems[0].ref};
                        out = wire<T1>(w, ins[0].passive ? passive(port) : port, kv).erased();
                    }
                }
                else if (def == "k0") { name_next<K0>(w, lbl); wire<K0>(w, kv); }
                else if (def == "k1") { name_next<K1>(w, lbl); wire<K1>(w, ts_port(w, ins[0]), kv); }
                else { name_next<K2>(w, lbl); wire<K2>(w, ts_port(w, ins[0]), ts_port(w, ins[1]), kv); }
                prog.used.insert(lbl);
                if (sink) { std::cout << "sink\n"; }
                else
                {
                    prog.ents.emplace(lbl, Ent{Ty::Ts, *out});
                    std::cout << number(prog, out->peered_node()) << "\n";
                }
            }
            else if (op == "finish" && tok.size() == 1)
            {
                if (!prog.w) { std::cout << "bad-op\n"; continue; }
                std::unique_ptr<Wiring> consumed = std::move(prog.w);
                prog.ents.clear();
                try
                {
                    GraphBuilder             graph = std::move(*consumed).finish();
                    std::vector<std::string> names;
                    for (const NodeBuilder &nb : graph.nodes()) names.emplace_back(nb.label());
                    std::vector<std::string> edges;
                    for (const GraphEdge &e : graph.edges())
                    {
                        std::string s = names.at(graph_edge_source_node(e.source_node));
                        for (std::size_t p : e.source_path) s += "@" + std::to_string(p);
                        switch (graph_edge_source_kind(e.source_node))
                        {
                            case GraphEdgeSourceKind::Output: break;
                            case GraphEdgeSourceKind::ErrorOutput: s += "!"; break;
                            default: s += "?"; break;
                        }
                        s += ">" + names.at(e.target_node);
                        for (std::size_t p : e.target_path) s += "." + std::to_string(p);
                        edges.push_back(std::move(s));
                    }
                    std::sort(edges.begin(), edges.end());
                    std::ostringstream os;
                    os << "nodes=" << names.size() << " edges=";
                    for (std::size_t i = 0; i < edges.size(); ++i) os << (i ? "," : "") << edges[i];
                    std::cout << os.str() << "\n";
                }
                catch (const std::exception &) { std::cout << "build-err\n"; }
            }
            else { std::cout << "bad-op\n"; }
        }
        catch (const std::exception &) { std::cout << "err\n"; }
    }
    return 0;
}
