// hgv_gstate (C07, global-state isolation stream): runs through the GlobalState / GlobalContext /
// record-replay testing layer the way testing::eval_node does, with an arbitrary history before each run.
//
// One output line per input line:
//
//   case <n>                         -> case <n>            (drops every context, selection := none)
//   ctx new <c>                      -> ok | bad-op         (a fresh empty GlobalState named <c>, selected)
//   ctx sel <c>                      -> ok | bad-op         (select an existing one)
//   ctx none                         -> ok                  (no GlobalContext: a plain builder)
//   seed <key> <layout> <items...>   -> ok | noop | bad-op  (pre-populate the SELECTED state under <key>)
//        layout any   : the seeded replay layout List<Any>        items  5 _ 7      (set_replay_values)
//        layout dense : the typed dense recording List<Int>       items  5 _ 7      (_ = unset hole)
//        layout sparse: the typed sparse recording [(time,Int)]   items  0:5 3:7    (any order)
//   run <graph> <layout> <key> <inputs...>   -> [c:v ...]  (one bracket per sink)  | err:<class> | bad-op
//        graph  inc    replay("in") -> add_one     -> record(<key>)
//               mul10  replay("in") -> times_10    -> record(<key>)
//               acc    replay("in") -> running_sum -> record(<key>)            (node State)
//               two    replay("in") -> add_one -> record(<k1>), times_10 -> record(<k2>)     key = k1,k2 (k1 != k2)
//               pinc   replay("in") -> add_one -> sparse_record(":memory:nodes.record.<key>") (persistent backend;
//                      layout ignored; never erased at start: appends across runs BY CONTRACT)
//        layout dense|sparse  (the harness layouts of dense_record_impl)
//        inputs 5 _ 7  (_ = no tick that cycle); the Wiring is created under GlobalContext(selected) when a
//        state is selected, the replay buffer is set on the builder, one executor is made and run, and the
//        recording is read back from the executor's own GlobalState (get_recorded_sparse / get_recorded_values).
//   reuse <k>                        -> [..] | [..] ...     (k further executors from the SAME builder; k traces)
//   copyback                         -> ok | noop           (selected.copy_from(state of the last completed executor):
//                                                            testing::eval_node's copy_completed_global_state)
//   dump                             -> {key=K<len>[c:v ...] ...} sorted by key | none      (the selected state;
//                                       K = A (List<Any>) | D (typed dense) | S (typed sparse) | ? (other))
#include "hgv_common.h"

#include <hgraph/lib/std/operators/impl/record_replay_memory_impl.h>
#include <hgraph/lib/testing/record_replay.h>
#include <hgraph/runtime/runtime.h>
#include <hgraph/types/graph_wiring.h>
#include <hgraph/types/metadata/type_registry.h>
#include <hgraph/types/static_node.h>

#include <algorithm>
#include <map>
#include <memory>
#include <optional>

using namespace hgraph;
using namespace hgv;

namespace
{
    struct AddOne
    {
        static constexpr auto name = "add_one";
        static void           eval(In<"in", TS<Int>> in, Out<TS<Int>> out) { out.set(in.value() + 1); }
    };

    struct Times10
    {
        static constexpr auto name = "times_10";
        static void           eval(In<"in", TS<Int>> in, Out<TS<Int>> out) { out.set(in.value() * 10); }
    };

    struct RunningSum
    {
        static constexpr auto name = "running_sum";
        static void           eval(In<"in", TS<Int>> in, State<Int> total, Out<TS<Int>> out)
        {
            total.set(total.get() + in.value());
            out.set(total.get());
        }
    };

    const std::string IN_KEY   = "in";
    const std::string MEM_PREF = ":memory:nodes.record.";

    using Inputs = std::vector<std::optional<Int>>;
    using Trace  = std::vector<std::pair<std::size_t, Int>>;

    struct SinkSpec
    {
        std::string key;       // the GlobalState key the sink writes
        bool        sparse;    // read-back layout
    };

    struct RunSpec
    {
        std::string           graph;
        bool                  sparse{false};
        std::vector<SinkSpec> sinks;
    };

    std::string show(const Trace &t)
    {
        std::string s = "[";
        for (std::size_t i = 0; i < t.size(); ++i)
        {
            if (i) s += " ";
            s += std::to_string(t[i].first) + ":" + std::to_string(t[i].second);
        }
        return s + "]";
    }

    Trace read_back(const GlobalStateView &gs, const SinkSpec &sink)
    {
        Trace out;
        if (sink.sparse)
        {
            for (const auto &[cycle, value] : testing::get_recorded_sparse(gs, sink.key))
            {
                out.emplace_back(cycle, value.view().template checked_as<Int>());
            }
            return out;
        }
        const auto dense = testing::get_recorded_values<Int>(gs, sink.key);
        for (std::size_t i = 0; i < dense.size(); ++i)
        {
            if (dense[i].has_value()) out.emplace_back(i, *dense[i]);
        }
        return out;
    }

    std::string show_all(const GlobalStateView &gs, const RunSpec &spec)
    {
        std::string s;
        for (std::size_t i = 0; i < spec.sinks.size(); ++i)
        {
            if (i) s += " ";
            s += show(read_back(gs, spec.sinks[i]));
        }
        return s;
    }

    GraphBuilder wire_graph(const RunSpec &spec)
    {
        Wiring w;   // top level; live-seeded when a GlobalContext is active on this thread
        auto   src = wire<stdlib::replay_impl, TS<Int>>(w, IN_KEY);
        if (spec.graph == "inc")
        {
            auto n = wire<AddOne>(w, src);
            wire<stdlib::dense_record_impl>(w, n, spec.sinks[0].key, Bool{spec.sparse});
        }
        else if (spec.graph == "mul10")
        {
            auto n = wire<Times10>(w, src);
            wire<stdlib::dense_record_impl>(w, n, spec.sinks[0].key, Bool{spec.sparse});
        }
        else if (spec.graph == "acc")
        {
            auto n = wire<RunningSum>(w, src);
            wire<stdlib::dense_record_impl>(w, n, spec.sinks[0].key, Bool{spec.sparse});
        }
        else if (spec.graph == "two")
        {
            auto a = wire<AddOne>(w, src);
            wire<stdlib::dense_record_impl>(w, a, spec.sinks[0].key, Bool{spec.sparse});
            auto b = wire<Times10>(w, src);
            wire<stdlib::dense_record_impl>(w, b, spec.sinks[1].key, Bool{spec.sparse});
        }
        else   // pinc: the persistent :memory: backend
        {
            auto n = wire<AddOne>(w, src);
            wire<stdlib::sparse_record_impl>(w, n, Str{spec.sinks[0].key.substr(MEM_PREF.size())}, Str{"nodes.record"});
        }
        return std::move(w).finish();
    }

    ValueTypeRef int_binding()
    {
        return testing::recording_binding_for(TypeRegistry::instance().register_scalar<Int>("int"));
    }

    std::optional<Inputs> parse_inputs(const std::vector<std::string> &w, std::size_t from)
    {
        Inputs in;
        for (std::size_t i = from; i < w.size(); ++i)
        {
            if (w[i] == "_") { in.emplace_back(std::nullopt); continue; }
            if (w[i][0] == '+') return std::nullopt;
            try
            {
                std::size_t pos = 0;
                const Int   v   = std::stoll(w[i], &pos);
                if (pos != w[i].size()) return std::nullopt;
                in.emplace_back(v);
            }
            catch (...) { return std::nullopt; }
        }
        return in;
    }

    std::optional<Trace> parse_pairs(const std::vector<std::string> &w, std::size_t from)
    {
        Trace t;
        for (std::size_t i = from; i < w.size(); ++i)
        {
            const auto colon = w[i].find(':');
            if (colon == std::string::npos || colon == 0 || colon + 1 >= w[i].size()) return std::nullopt;
            try
            {
                std::size_t p1 = 0, p2 = 0;
                const auto  cs = w[i].substr(0, colon), vs = w[i].substr(colon + 1);
                if (cs[0] == '-' || cs[0] == '+' || vs[0] == '+') return std::nullopt;
                const auto c = std::stoull(cs, &p1);
                const Int  v = std::stoll(vs, &p2);
                if (p1 != cs.size() || p2 != vs.size()) return std::nullopt;
                t.emplace_back(static_cast<std::size_t>(c), v);
            }
            catch (...) { return std::nullopt; }
        }
        return t;
    }

    std::string dump_buffer(const ValueView &buffer)
    {
        if (!buffer.valid() || buffer.schema()->try_value_kind() != ValueTypeKind::List) return "?";
        const auto  list = buffer.as_list();
        const auto *el   = list.element_schema();
        const auto  kind = el != nullptr ? el->try_value_kind() : std::nullopt;
        std::string s;
        Trace       t;
        if (kind == ValueTypeKind::Tuple)
        {
            s = "S";
            for (std::size_t i = 0; i < list.size(); ++i)
            {
                const auto entry = list.at(i).as_indexed_view();
                t.emplace_back(testing::cycle_offset(entry.at(0).checked_as<DateTime>()), entry.at(1).checked_as<Int>());
            }
        }
        else
        {
            s = kind == ValueTypeKind::Any ? "A" : "D";
            for (std::size_t i = 0; i < list.size(); ++i)
            {
                if (auto d = testing::dense_entry_delta(list, i); d.has_value())
                {
                    t.emplace_back(i, d->view().template checked_as<Int>());
                }
            }
        }
        return s + std::to_string(list.size()) + show(t);
    }

    std::string dump_state(const GlobalStateView &gs)
    {
        std::vector<std::string> items;
        const ValueView          mv = gs.as_value().view();
        for (const auto [key, boxed] : mv.as_map())
        {
            const std::string k = key.template checked_as<Str>();
            items.push_back(k + "=" + dump_buffer(gs.get(k)));
        }
        std::sort(items.begin(), items.end());
        std::string s = "{";
        for (std::size_t i = 0; i < items.size(); ++i) s += (i ? " " : "") + items[i];
        return s + "}";
    }

    std::string err_class(const std::exception &e)
    {
        if (dynamic_cast<const std::invalid_argument *>(&e)) return "err:invalid";
        if (dynamic_cast<const std::logic_error *>(&e)) return "err:logic";
        return "err:other";
    }

    struct Driver
    {
        std::map<std::string, std::unique_ptr<GlobalState>> states;
        GlobalState                                        *selected{nullptr};
        std::optional<GraphExecutorBuilder>                 builder;     // of the last `run`
        std::optional<GraphExecutorValue>                   executor;    // last completed executor
        RunSpec                                             spec;

        void reset()
        {
            executor.reset();
            builder.reset();
            selected = nullptr;
            states.clear();
        }

        std::string execute_once()
        {
            executor.reset();
            executor.emplace(builder->make_executor());
            auto view = executor->view();
            view.run();
            return show_all(view.graph().global_state(), spec);
        }

        std::string run(const std::vector<std::string> &w)
        {
            if (w.size() < 4) return "bad-op";
            RunSpec s;
            s.graph = w[1];
            if (w[2] != "dense" && w[2] != "sparse") return "bad-op";
            s.sparse = w[2] == "sparse";
            if (s.graph == "inc" || s.graph == "mul10" || s.graph == "acc")
            {
                if (w[3].find(',') != std::string::npos) return "bad-op";
                s.sinks.push_back({w[3], s.sparse});
            }
            else if (s.graph == "two")
            {
                const auto comma = w[3].find(',');
                if (comma == std::string::npos || comma == 0 || comma + 1 >= w[3].size()) return "bad-op";
                const auto k1 = w[3].substr(0, comma), k2 = w[3].substr(comma + 1);
                if (k1 == k2 || k2.find(',') != std::string::npos) return "bad-op";
                s.sinks.push_back({k1, s.sparse});
                s.sinks.push_back({k2, s.sparse});
            }
            else if (s.graph == "pinc")
            {
                if (w[3].find(',') != std::string::npos) return "bad-op";
                s.sinks.push_back({MEM_PREF + w[3], true});
            }
            else { return "bad-op"; }
            const auto inputs = parse_inputs(w, 4);
            if (!inputs.has_value()) return "bad-op";

            executor.reset();
            builder.reset();
            spec = s;
            try
            {
                std::optional<GlobalContext> context;
                if (selected != nullptr) context.emplace(*selected);
                GraphBuilder gb = wire_graph(spec);
                testing::set_replay_values<Int>(gb.global_state(), IN_KEY, *inputs);
                builder.emplace();
                builder->graph_builder(std::move(gb)).start_time(MIN_ST).end_time(MAX_ET);
                return execute_once();
            }
            catch (const std::exception &e)
            {
                return err_class(e);
            }
        }

        std::string reuse(const std::vector<std::string> &w)
        {
            if (w.size() != 2 || !builder.has_value()) return "bad-op";
            std::size_t k = 0;
            if (w[1].empty() || w[1].find_first_not_of("0123456789") != std::string::npos || w[1].size() > 3) return "bad-op";
            k = std::stoul(w[1]);
            if (k == 0 || k > 8) return "bad-op";
            std::string out;
            try
            {
                // like a further eval under the same selection: the context is active while executors are made
                std::optional<GlobalContext> context;
                if (selected != nullptr) context.emplace(*selected);
                for (std::size_t i = 0; i < k; ++i) out += (i ? " | " : "") + execute_once();
            }
            catch (const std::exception &e)
            {
                return err_class(e);
            }
            return out;
        }

        std::string seed(const std::vector<std::string> &w)
        {
            if (w.size() < 3) return "bad-op";
            const std::string &key = w[1], &layout = w[2];
            if (layout == "any" || layout == "dense")
            {
                const auto items = parse_inputs(w, 3);
                if (!items.has_value()) return "bad-op";
                if (selected == nullptr) return "noop";
                if (layout == "any")
                {
                    testing::set_replay_values<Int>(selected->view(), key, *items);
                    return "ok";
                }
                Value buffer   = testing::make_dense_buffer(int_binding());
                auto  mutation = buffer.as_list().begin_mutation();
                for (const auto &v : *items)
                {
                    if (v.has_value()) { const Value x{*v}; mutation.push_back(x.view()); }
                    else { mutation.push_back_unset(); }
                }
                selected->view().set(key, buffer);
                return "ok";
            }
            if (layout == "sparse")
            {
                const auto pairs = parse_pairs(w, 3);
                if (!pairs.has_value()) return "bad-op";
                if (selected == nullptr) return "noop";
                const auto binding  = int_binding();
                Value      buffer   = testing::make_sparse_buffer(binding);
                auto       mutation = buffer.as_list().begin_mutation();
                for (const auto &[c, v] : *pairs)
                {
                    const Value entry = testing::make_sparse_entry(
                        binding, MIN_ST + MIN_TD * static_cast<std::int64_t>(c), Value{v});
                    mutation.push_back(entry.view());
                }
                selected->view().set(key, buffer);
                return "ok";
            }
            return "bad-op";
        }

        std::string step(const std::vector<std::string> &w)
        {
            if (w.empty()) return "";
            if (w[0] == "ctx")
            {
                if (w.size() == 2 && w[1] == "none") { selected = nullptr; return "ok"; }
                if (w.size() == 3 && w[1] == "new" && w[2] != "none")
                {
                    if (states.count(w[2])) return "bad-op";
                    states[w[2]] = std::make_unique<GlobalState>();
                    selected     = states[w[2]].get();
                    return "ok";
                }
                if (w.size() == 3 && w[1] == "sel")
                {
                    const auto it = states.find(w[2]);
                    if (it == states.end()) return "bad-op";
                    selected = it->second.get();
                    return "ok";
                }
                return "bad-op";
            }
            if (w[0] == "run") return run(w);
            if (w[0] == "reuse") return reuse(w);
            if (w[0] == "seed") return seed(w);
            if (w[0] == "copyback" && w.size() == 1)
            {
                if (selected == nullptr || !executor.has_value()) return "noop";
                selected->view().copy_from(executor->view().graph().global_state());
                return "ok";
            }
            if (w[0] == "dump" && w.size() == 1)
            {
                if (selected == nullptr) return "none";
                return dump_state(selected->view());
            }
            return "bad-op";
        }
    };
}  // namespace

int main()
{
    std::ios::sync_with_stdio(false);
    (void)TypeRegistry::instance().register_scalar<Int>("int");
    Driver      d;
    std::string line;
    while (std::getline(std::cin, line))
    {
        const auto w = split(line);
        if (w.size() == 2 && w[0] == "case")
        {
            d.reset();
            std::cout << "case " << w[1] << "\n";
            continue;
        }
        std::string out;
        try { out = d.step(w); }
        catch (const std::exception &e) { out = err_class(e); }
        std::cout << out << "\n";
    }
    std::cout.flush();
    return 0;
}
