// hgv_switchcoll: runs a REAL graph
//     replay(key: TS<Int>), replay(x: TS<Int>)
//         -> switch_({k1: f1, k2: f2, ...[, default]}[.reload()], x) -> sink
// whose switch output is a COLLECTION (TSS<Int> or TSD<Int, TS<Int>>), compiled from the working tree, in
// simulation, for a textual key/input history, and prints per engine cycle what the switch-owned output
// holds after the cycle (value, delta, flags), what a downstream consumer saw, and which branch graphs
// were started / stopped.  One output line per input line.
//
//   case <id>                                  -> "case <id>"   (flushes a pending history first)
//   cfg <tss|tsd> <reload 0|1> <default|-> <key>=<branch> ...   -> "ok" | "bad-op"
//        A branch evaluation produces a list of element operations from (state, key, x); the shape decides
//        what an operation is:   put k v = out.add(k) | out.set(k, v);  del k = out.remove(k) | out.erase(k);
//        clr = out.clear().  An evaluation with no operation does not touch the output.
//          acc    [put x 10x]
//          neg    [put -x 10x]
//          win    n++; [put x n] ++ [del prev] if it has one; prev := x           (stateful, adds and removes)
//          cnt    n++; [put (n mod 4) n]                                           (stateful, re-publishes keys)
//          evens  [put x x] if x is even, else nothing
//          fixed  first evaluation [put 1 10, put 2 20, put 3 30], later [del x]   (x Unchecked: publishes at start)
//          kacc   [put (100 key + x) key]                                          (key-consuming)
//          last   [clr, put x 10x]
//   c [k <key>] [x <v>]                        one engine cycle at MIN_ST + i; answered when the run happens:
//        "o=<valid><modified> val=[..] a=[..] r=[..] mi=[..] in=<-|val/a/r/mi> ev=<e,e..|->"
//              o/val/a/r/mi : the switch node's output after the cycle as its owner reads it (items sorted by key;
//                             "k" for a set element, "k:v" for a dictionary item; mi = modified items, tsd only)
//              in           : what a consumer node bound to the output read when it was evaluated in the cycle
//              ev           : S<i>:<branch> start, X<i> stop of branch graphs (<i> = ordinal of the start)
//        "err:no-branch ev=..."                 the run failed in that cycle: unmatched key, no default
//        "dead"                                 cycles after a failed cycle
//        "idle"                                 the root graph was not evaluated in that cycle (never happens)
//   run                                        -> "end ev=<events after the last cycle>"
// A history is run when `run`, the next `case` or EOF is read.  Other errors -> "err:<class>".
#include "hgv_common.h"

#include <hgraph/lib/std/std_nodes.h>
#include <hgraph/lib/std/std_operators.h>
#include <hgraph/lib/std/operators/impl/record_replay_memory_impl.h>
#include <hgraph/lib/testing/record_replay.h>
#include <hgraph/runtime/lifecycle_observer.h>
#include <hgraph/runtime/runtime.h>
#include <hgraph/runtime/switch_node.h>
#include <hgraph/types/graph_wiring.h>
#include <hgraph/types/metadata/type_registry.h>
#include <hgraph/types/operator_dispatch.h>
#include <hgraph/types/static_node.h>
#include <hgraph/types/subgraph_wiring.h>
#include <hgraph/types/wired_fn.h>

#include <algorithm>
#include <map>
#include <optional>

using namespace hgraph;
using namespace hgv;

namespace hgvsc
{
    // ---- per-run log -----------------------------------------------------------------------------
    std::vector<std::vector<std::string>> g_events;     // per cycle; the slot after the last cycle collects the tail
    std::vector<std::string>              g_sink;       // per cycle: what the consumer read ("" = not evaluated)
    std::size_t                           g_cycle = 0;  // where events go
    int                                   g_next_inst = 0;

    void ev(std::string s)
    {
        if (g_cycle >= g_events.size()) { g_events.resize(g_cycle + 1); }
        g_events[g_cycle].push_back(std::move(s));
    }

    // state of a vocabulary branch
    struct BSt
    {
        Int  n{0};
        Int  prev{0};
        bool has_prev{false};
        bool started{false};
        [[nodiscard]] bool operator==(const BSt &) const noexcept = default;
    };
}  // namespace hgvsc

namespace hgraph::static_schema_detail
{
    template <>
    struct scalar_name<hgvsc::BSt>
    {
        static constexpr std::string_view value{"hgv_switchcoll_state"};
    };
}  // namespace hgraph::static_schema_detail

template <>
struct std::hash<hgvsc::BSt>
{
    [[nodiscard]] std::size_t operator()(const hgvsc::BSt &s) const noexcept { return std::hash<std::int64_t>{}(s.n); }
};

namespace
{
    using namespace hgvsc;

    using S_tss = TSS<Int>;
    using S_tsd = TSD<Int, TS<Int>>;

    // ---- element operations ----------------------------------------------------------------------
    struct Op
    {
        char what;   // 'p' put, 'd' del, 'c' clr
        Int  k{0};
        Int  v{0};
    };

    enum B : int { ACC, NEG, WIN, CNT, EVENS, FIXED, KACC, LAST, NB };
    constexpr const char *BNAMES[NB] = {"acc", "neg", "win", "cnt", "evens", "fixed", "kacc", "last"};

    Int emod(Int a, Int m) { return ((a % m) + m) % m; }

    std::vector<Op> branch_ops(int b, BSt &s, Int key, Int x)
    {
        switch (b)
        {
            case ACC: return {{'p', x, Int{10} * x}};
            case NEG: return {{'p', -x, Int{10} * x}};
            case WIN:
            {
                s.n += 1;
                std::vector<Op> ops{{'p', x, s.n}};
                if (s.has_prev) { ops.push_back({'d', s.prev, 0}); }
                s.prev     = x;
                s.has_prev = true;
                return ops;
            }
            case CNT: s.n += 1; return {{'p', emod(s.n, 4), s.n}};
            case EVENS:
                if (emod(x, 2) == 0) { return {{'p', x, x}}; }
                return {};
            case FIXED:
                if (!s.started)
                {
                    s.started = true;
                    return {{'p', 1, 10}, {'p', 2, 20}, {'p', 3, 30}};
                }
                return {{'d', x, 0}};
            case KACC: return {{'p', Int{100} * key + x, key}};
            case LAST: return {{'c', 0, 0}, {'p', x, Int{10} * x}};
            default: return {};
        }
    }

    void apply_ops(const Out<S_tss> &out, const std::vector<Op> &ops)
    {
        for (const Op &o : ops)
        {
            if (o.what == 'p') { (void)out.add(o.k); }
            else if (o.what == 'd') { (void)out.remove(o.k); }
            else { out.clear(); }
        }
    }

    void apply_ops(const Out<S_tsd> &out, const std::vector<Op> &ops)
    {
        for (const Op &o : ops)
        {
            if (o.what == 'p') { out.set(o.k, o.v); }
            else if (o.what == 'd') { (void)out.erase(o.k); }
            else { out.clear(); }
        }
    }

    // ---- the branch nodes --------------------------------------------------------------------------
    template <int Bi> struct BName;
#define HGV_BNAME(I, N) template <> struct BName<I> { static constexpr auto value = "hgvc_" N; }
    HGV_BNAME(ACC, "acc");
    HGV_BNAME(NEG, "neg");
    HGV_BNAME(WIN, "win");
    HGV_BNAME(CNT, "cnt");
    HGV_BNAME(EVENS, "evens");
    HGV_BNAME(FIXED, "fixed");
    HGV_BNAME(KACC, "kacc");
    HGV_BNAME(LAST, "last");
#undef HGV_BNAME

    template <typename S, int Bi>
    struct Plain
    {
        static constexpr auto name = BName<Bi>::value;
        static void eval(In<"x", TS<Int>> x, State<BSt> s, Out<S> out)
        {
            apply_ops(out, branch_ops(Bi, s.modify(), Int{0}, x.value()));
        }
    };

    template <typename S, int Bi>
    struct Keyed
    {
        static constexpr auto name = BName<Bi>::value;
        static void eval(In<"key", TS<Int>> key, In<"x", TS<Int>> x, State<BSt> s, Out<S> out)
        {
            apply_ops(out, branch_ops(Bi, s.modify(), key.value(), x.value()));
        }
    };

    template <typename S, int Bi>
    struct Unchecked
    {
        static constexpr auto name = BName<Bi>::value;
        static void eval(In<"x", TS<Int>, InputValidity::Unchecked> x, State<BSt> s, Out<S> out)
        {
            apply_ops(out, branch_ops(Bi, s.modify(), Int{0}, x.valid() ? x.value() : Int{0}));
        }
    };

    template <typename S>
    WiredFn branch_fn(int b)
    {
        switch (b)
        {
            case ACC: return fn<Plain<S, ACC>>();
            case NEG: return fn<Plain<S, NEG>>();
            case WIN: return fn<Plain<S, WIN>>();
            case CNT: return fn<Plain<S, CNT>>();
            case EVENS: return fn<Plain<S, EVENS>>();
            case FIXED: return fn<Unchecked<S, FIXED>>();
            case KACC: return fn<Keyed<S, KACC>>();
            case LAST: return fn<Plain<S, LAST>>();
            default: throw std::invalid_argument("branch");
        }
    }

    int branch_id(const std::string &name)
    {
        for (int i = 0; i < NB; ++i) { if (name == BNAMES[i]) { return i; } }
        return -1;
    }

    std::string branch_of_graph(const GraphView &g)
    {
        for (std::size_t i = 0; i < g.node_count(); ++i)
        {
            const std::string l{g.node_at(i).label()};
            if (l.rfind("hgvc_", 0) == 0) { return l.substr(5); }
        }
        return "?";
    }

    // ---- canonical text ----------------------------------------------------------------------------
    using Items = std::vector<std::pair<Int, std::string>>;

    std::string join(Items items)
    {
        std::sort(items.begin(), items.end());
        std::string s = "[";
        for (std::size_t i = 0; i < items.size(); ++i) { s += (i ? "," : "") + items[i].second; }
        return s + "]";
    }

    Int as_int(const ValueView &v) { return v.checked_as<Int>(); }

    Items keys_of(const Range<ValueView> &range)
    {
        Items items;
        for (const auto key : range) { items.emplace_back(as_int(key), std::to_string(as_int(key))); }
        return items;
    }

    // the owner's view of the switch output
    std::string dump_out(std::type_identity<S_tss>, const TSOutputView &view)
    {
        auto set = view.as_set();
        return std::string{"o="} + (view.valid() ? "1" : "0") + (view.modified() ? "1" : "0") + " val=" +
               (view.valid() ? join(keys_of(set.values())) : std::string{"[]"}) + " a=" + join(keys_of(set.added())) +
               " r=" + join(keys_of(set.removed())) + " mi=[]";
    }

    std::string dump_out(std::type_identity<S_tsd>, const TSOutputView &view)
    {
        auto  dict = view.as_dict();
        Items val, mi;
        if (view.valid())
        {
            for (const auto [key, child] : dict.items())
            {
                const Int k = as_int(key);
                val.emplace_back(k, std::to_string(k) + ":" + (child.valid() ? std::to_string(as_int(child.value())) : "?"));
            }
        }
        for (const auto [key, child] : dict.modified_items())
        {
            const Int k = as_int(key);
            mi.emplace_back(k, std::to_string(k) + ":" + (child.valid() ? std::to_string(as_int(child.value())) : "?"));
        }
        return std::string{"o="} + (view.valid() ? "1" : "0") + (view.modified() ? "1" : "0") + " val=" + join(val) +
               " a=" + join(keys_of(dict.added_keys())) + " r=" + join(keys_of(dict.removed_keys())) + " mi=" + join(mi);
    }

    // the consumer's view
    std::string dump_in(const In<"s", S_tss> &s)
    {
        Items val, a, r;
        if (s.valid()) { for (const Int k : s.values()) { val.emplace_back(k, std::to_string(k)); } }
        for (const Int k : s.added()) { a.emplace_back(k, std::to_string(k)); }
        for (const Int k : s.removed()) { r.emplace_back(k, std::to_string(k)); }
        return join(val) + "/" + join(a) + "/" + join(r) + "/[]";
    }

    std::string dump_in(const In<"s", S_tsd> &s)
    {
        Items val, a, r, mi;
        if (s.valid())
        {
            for (const auto &[key, child] : s.items())
            {
                const Int k = key.template checked_as<Int>();
                val.emplace_back(k, std::to_string(k) + ":" + (child.valid() ? std::to_string(child.value()) : "?"));
            }
        }
        for (const auto &[key, child] : s.added_items())
        {
            const Int k = key.template checked_as<Int>();
            a.emplace_back(k, std::to_string(k));
        }
        for (const auto &key : s.removed_keys())
        {
            const Int k = key.template checked_as<Int>();
            r.emplace_back(k, std::to_string(k));
        }
        for (const auto &[key, child] : s.modified_items())
        {
            const Int k = key.template checked_as<Int>();
            mi.emplace_back(k, std::to_string(k) + ":" + (child.valid() ? std::to_string(child.value()) : "?"));
        }
        return join(val) + "/" + join(a) + "/" + join(r) + "/" + join(mi);
    }

    template <typename S>
    struct Sink
    {
        static constexpr auto name = "hgvc_sink";
        static void eval(In<"s", S> s)
        {
            if (g_cycle >= g_sink.size()) { g_sink.resize(g_cycle + 1); }
            g_sink[g_cycle] = dump_in(s);
        }
    };

    // ---- configuration / history -------------------------------------------------------------------
    struct Cfg
    {
        bool                                      dict{false};
        bool                                      reload{false};
        int                                       dflt{-1};
        std::vector<std::pair<std::int64_t, int>> cases;
    };

    struct Cycle
    {
        std::optional<std::int64_t> k, x;
    };

    template <typename S>
    struct Obs final : LifecycleObserver
    {
        std::map<const void *, int> inst;      // graph memory -> instance ordinal
        std::vector<std::string>    out;       // switch output after cycle i ("" = root not evaluated)
        std::size_t                 ncycles{0};
        std::size_t                 begun{0};  // last cycle the root graph began

        int id_of(const GraphView &g) const
        {
            auto it = inst.find(g.data());
            return it == inst.end() ? 0 : it->second;
        }
        void on_before_start_graph(const GraphView &g) override
        {
            if (g.is_root()) { return; }
            const int id   = ++g_next_inst;
            inst[g.data()] = id;
            ev("S" + std::to_string(id) + ":" + branch_of_graph(g));
        }
        void on_before_stop_graph(const GraphView &g) override
        {
            if (g.is_root())
            {
                g_cycle = ncycles;   // the tail
                return;
            }
            ev("X" + std::to_string(id_of(g)));
        }
        void on_before_graph_evaluation(const GraphView &g) override
        {
            if (!g.is_root()) { return; }
            g_cycle = std::min<std::size_t>(testing::cycle_offset(g.evaluation_time()), ncycles);
            begun   = g_cycle;
        }
        void on_after_graph_evaluation(const GraphView &g) override
        {
            if (!g.is_root()) { return; }
            const auto i = testing::cycle_offset(g.evaluation_time());
            if (i >= out.size()) { out.resize(i + 1); }
            for (std::size_t n = 0; n < g.node_count(); ++n)
            {
                auto node = g.node_at(n);
                if (!node.is<SwitchNodeView>()) { continue; }
                out[i] = dump_out(std::type_identity<S>{}, node.output(g.evaluation_time()));
                break;
            }
        }
    };

    std::string join_ev(const std::vector<std::string> &v)
    {
        if (v.empty()) { return "-"; }
        std::string s;
        for (std::size_t i = 0; i < v.size(); ++i) { s += (i ? "," : "") + v[i]; }
        return s;
    }

    // Runs the history; returns one line per cycle plus the final line.
    template <typename S>
    std::vector<std::string> run_history(const Cfg &cfg, const std::vector<Cycle> &cycles)
    {
        stdlib::SwitchCases cases;
        for (const auto &[k, b] : cfg.cases)
        {
            cases.cases.push_back(stdlib::SwitchCase{.key = Value{Int{k}}, .branch = branch_fn<S>(b)});
        }
        if (cfg.dflt >= 0) { cases.default_branch = branch_fn<S>(cfg.dflt); }
        cases.reload_on_ticked = cfg.reload;

        g_events.clear();
        g_events.resize(cycles.size() + 1);
        g_sink.clear();
        g_sink.resize(cycles.size() + 1);
        g_cycle     = cycles.size();
        g_next_inst = 0;

        std::vector<std::string> lines;
        Obs<S>                   obs;
        obs.ncycles = cycles.size();
        std::string error;
        {
            Wiring w;
            record_replay::set_config(w.global_state(),
                                      record_replay::RecordReplayConfig{.backend = std::string{record_replay::TESTING}});
            auto key = wire<stdlib::replay_impl, TS<Int>>(w, Str{"hgv::key"});
            auto x   = wire<stdlib::replay_impl, TS<Int>>(w, Str{"hgv::x"});
            auto sw  = wire<stdlib::switch_>(w, key, std::move(cases), x).template as<S>();
            wire<Sink<S>>(w, sw);
            GraphBuilder gb = std::move(w).finish();

            std::vector<std::optional<Value>> kd, xd;
            for (const Cycle &c : cycles)
            {
                kd.push_back(c.k ? std::optional<Value>{Value{Int{*c.k}}} : std::nullopt);
                xd.push_back(c.x ? std::optional<Value>{Value{Int{*c.x}}} : std::nullopt);
            }
            testing::set_replay_deltas(gb.global_state(), "hgv::key", kd);
            testing::set_replay_deltas(gb.global_state(), "hgv::x", xd);

            GraphExecutorBuilder eb;
            eb.graph_builder(std::move(gb))
                .start_time(MIN_ST)
                .end_time(MIN_ST + TimeDelta{static_cast<std::int64_t>(cycles.size())});
            eb.add_lifecycle_observer(&obs);
            GraphExecutorValue executor = eb.make_executor();
            auto               view     = executor.view();
            try { view.run(); }
            catch (const std::exception &e) { error = e.what(); }
            g_cycle = cycles.size();
        }

        std::optional<std::size_t> failed_at;
        if (!error.empty()) { failed_at = obs.begun; }
        for (std::size_t i = 0; i < cycles.size(); ++i)
        {
            if (failed_at && i > *failed_at) { lines.push_back("dead"); continue; }
            if (failed_at && i == *failed_at)
            {
                const bool no_branch = error.find("no branch is registered for key") != std::string::npos;
                lines.push_back(std::string{no_branch ? "err:no-branch" : "err:exception"} + " ev=" + join_ev(g_events[i]));
                continue;
            }
            const bool have = i < obs.out.size() && !obs.out[i].empty();
            if (!have)
            {
                lines.push_back(!g_sink[i].empty() || !g_events[i].empty() ? "err:activity-without-evaluation" : "idle");
                continue;
            }
            lines.push_back(obs.out[i] + " in=" + (g_sink[i].empty() ? std::string{"-"} : g_sink[i]) + " ev=" +
                            join_ev(g_events[i]));
        }
        lines.push_back("end ev=" + join_ev(g_events[cycles.size()]));
        return lines;
    }
}  // namespace

int main()
{
    std::ios::sync_with_stdio(false);
    hgraph::stdlib::register_standard_operators();

    Cfg                cfg;
    std::vector<Cycle> cycles;
    bool               cfg_bad = true;

    auto flush = [&](bool with_run_line) {
        if (cycles.empty() && !with_run_line) { return; }
        std::vector<std::string> lines;
        try
        {
            if (cfg_bad) { throw std::invalid_argument("cfg"); }
            lines = cfg.dict ? run_history<S_tsd>(cfg, cycles) : run_history<S_tss>(cfg, cycles);
        }
        catch (const OperatorResolutionError &) { lines.assign(cycles.size() + 1, "err:resolution"); }
        catch (const std::invalid_argument &) { lines.assign(cycles.size() + 1, "err:invalid-argument"); }
        catch (const std::exception &e)
        {
            if (std::getenv("HGV_DEBUG")) { std::cerr << e.what() << "\n"; }
            lines.assign(cycles.size() + 1, std::string{"err:exception"});
        }
        if (lines.size() != cycles.size() + 1) { lines.resize(cycles.size() + 1, lines.empty() ? "err:short" : lines.back()); }
        for (std::size_t i = 0; i < cycles.size(); ++i) { std::cout << lines[i] << "\n"; }
        if (with_run_line) { std::cout << lines.back() << "\n"; }
        cycles.clear();
    };

    std::string line;
    while (std::getline(std::cin, line))
    {
        auto w = split(line);
        if (w.empty()) { flush(false); std::cout << "\n"; continue; }
        const std::string &op = w[0];
        try
        {
            if (op == "case")
            {
                flush(false);
                cfg     = Cfg{};
                cfg_bad = true;
                std::cout << line << "\n";
            }
            else if (op == "cfg" && w.size() >= 4)
            {
                flush(false);
                Cfg  c;
                bool ok = true;
                if (w[1] == "tss") { c.dict = false; } else if (w[1] == "tsd") { c.dict = true; } else { ok = false; }
                if (w[2] == "0") { c.reload = false; } else if (w[2] == "1") { c.reload = true; } else { ok = false; }
                if (w[3] != "-")
                {
                    c.dflt = branch_id(w[3]);
                    if (c.dflt < 0) { ok = false; }
                }
                for (std::size_t i = 4; i < w.size() && ok; ++i)
                {
                    auto eq = w[i].find('=');
                    if (eq == std::string::npos || eq == 0) { ok = false; break; }
                    const int b = branch_id(w[i].substr(eq + 1));
                    if (b < 0) { ok = false; break; }
                    const std::int64_t k = to_i(w[i].substr(0, eq));
                    if (std::to_string(k) != w[i].substr(0, eq)) { ok = false; break; }
                    for (const auto &e : c.cases) { if (e.first == k) { ok = false; } }
                    c.cases.emplace_back(k, b);
                }
                if (c.cases.empty() && c.dflt < 0) { ok = false; }
                if (ok) { cfg = c; cfg_bad = false; std::cout << "ok\n"; }
                else { cfg_bad = true; std::cout << "bad-op\n"; }
            }
            else if (op == "c")
            {
                Cycle c;
                bool  ok = true;
                for (std::size_t i = 1; i < w.size() && ok; i += 2)
                {
                    if (i + 1 >= w.size()) { ok = false; break; }
                    const std::int64_t v = to_i(w[i + 1]);
                    if (std::to_string(v) != w[i + 1]) { ok = false; }
                    else if (w[i] == "k" && !c.k) { c.k = v; }
                    else if (w[i] == "x" && !c.x) { c.x = v; }
                    else { ok = false; }
                }
                if (!ok) { flush(false); std::cout << "bad-op\n"; }
                else { cycles.push_back(c); }
            }
            else if (op == "run") { flush(true); }
            else { flush(false); std::cout << "bad-op\n"; }
        }
        catch (const std::exception &) { flush(false); std::cout << "bad-op\n"; }
    }
    flush(false);
    return 0;
}
