// hgv_dynlife: lifecycle of DYNAMICALLY created child graphs (property C14, dynamic children).
//
// Runs a REAL graph compiled from the working tree, in simulation:
//     map    : replay(TSD<Int,TS<Int>> "a")                -> map_(probes, a)            -> record
//     switch : replay(TS<Int> "k"), replay(TS<Int> "x")    -> switch_({default: probes}, k, x) -> record
//     switchb / switchl : as switch, but the branch returns a STRUCTURAL result as is - to_tsb<{p1,p2}>(last, first) resp.
//              to_tsl(last, first) of its probe outputs - so that the switch output forwards to the child terminal
//              (`output_forwards_to_child_terminal`: activate_branch binds the output before it stops the outgoing branch)
//     reduce : replay(TSD<Int,TS<Int>> "a")                -> reduce(combiner, a)         -> record   (no zero)
//              combiner = the NODE rprobe0(lhs, rhs) for n = 1, the sub-graph rprobe0(lhs, rhs) -> rprobe1 -> rprobe2 otherwise;
//              a combiner graph instance is named <ordinal>#1 (ordinal = order of its start attempt in the run), so
//              `fe <ordinal> <i> <n>` / `fx <ordinal> <i>` address the combiner instances
//     reducez: as reduce, with an explicit (scalar, wired as const) ZERO: reduce(combiner, a, 1000).  A single live value needs the
//              root combiner (position 0: value (+) zero); two live values in a tree of capacity >= 4 need position 1 and not
//              position 0, so that the live-count transitions 1 -> 2 and 2 -> 1 CREATE one combiner and RETIRE another one in
//              the same same-capacity `rebuild_structure` (phase 1 sets the retired one aside, phase 2 starts the created
//              one, phase 3 stops the retired one; the unwind guard must put the set-aside one back when the start throws).
//              The zero ticks in the first engine cycle, so the reduce node is evaluated there whatever the history does.
// where `probes(key, ts)` is a child graph of 1..3 instrumented probe nodes in a chain
// (probe0(key, ts) -> probe1(key, .) -> probe2(key, .)) whose start / eval / stop hooks log and can throw.
// One output line per input line.
//
//   case <id>                     -> "case <id>"   (flushes a pending history first)
//   cfg <map|switch|switchb|switchl|reduce|reducez> <n> <c> -> "ok" | "bad-op"    n = probes per child (1..3), c = cleanup_on_error (0|1)
//   fs <k>                        -> "ok"   the k-th probe start hook entered in this run throws (1-based, global count)
//   fe <key> <i> <n>              -> "ok"   the n-th evaluation of probe i of the children of <key> throws (counted over generations)
//   fx <key> <i>                  -> "ok"   every stop hook of probe i of the children of <key> throws
//   c <op>*                       one engine cycle (MIN_ST + index), answered when the run happens
//        map / reduce ops: +k (key k present with a new value: add, or tick when present)  -k (remove; ignored when absent)
//                    a key both removed and added in one cycle -> bad-op
//        switch ops: =k (the key input ticks k; x ticks too)   ~ (x ticks)
//        answer: the lifecycle events of that cycle (space separated) | "-" (nothing happened) | "dead" (after the failure)
//   run                           -> "res=<ok|err:<outer>/<phase>:<node>|err:other> stop=<events of the final stop> "
//                                    "ret=<started>/<stopped>/<live> rel=<events at executor release> fin=<started>/<stopped>/<double>/<live>"
//        outer : phase named by the root-boundary annotation (start|evaluate|stop) ; phase/node: the probe fault that
//                reached the caller (first line of what()).
//        started = probe nodes whose start hook completed, stopped = of those, how many had their stop hook called,
//        live = probe nodes the observer saw `after start` for without a later `before stop`, double = stop hook called twice.
//
// Events (children are named <key>#<generation>, probe nodes <key>#<generation>.<index>):
//   G<c G>c G!c   before / after / failed  start of child graph c        H<c H>c H!c   ... stop of child graph c
//   s<n s>n s!n   before / after / failed  start of probe node n         x<n x>n x!n   ... stop of node n
//   ps:n ps!n     probe start hook completed / threw                     px:n px!n     probe stop hook
//   pe:n pe!n     probe eval hook completed / threw
#include "hgv_common.h"

#include <hgraph/lib/std/std_nodes.h>
#include <hgraph/lib/std/std_operators.h>
#include <hgraph/lib/std/operators/impl/record_replay_memory_impl.h>
#include <hgraph/lib/testing/record_replay.h>
#include <hgraph/runtime/lifecycle_observer.h>
#include <hgraph/runtime/map_node.h>
#include <hgraph/runtime/reduce_node.h>
#include <hgraph/runtime/switch_node.h>
#include <hgraph/runtime/runtime.h>
#include <hgraph/types/graph_wiring.h>
#include <hgraph/types/metadata/type_registry.h>
#include <hgraph/types/operator_dispatch.h>
#include <hgraph/types/static_node.h>
#include <hgraph/types/subgraph_wiring.h>
#include <hgraph/types/wired_fn.h>

#include <algorithm>
#include <map>
#include <optional>
#include <set>
#include <stdexcept>

using namespace hgraph;
using namespace hgv;

namespace
{
    using IntDict = TSD<Int, TS<Int>>;

    // ---- the run-wide instrumentation ------------------------------------------------------------------
    struct Inst
    {
        std::optional<Int> key;
        int                gen{0};
    };

    struct Plan
    {
        std::set<int>                          start_calls;   // start hook calls that throw
        std::map<std::pair<Int, int>, std::set<int>> eval_n;  // (key, probe) -> evaluation counts that throw
        std::set<std::pair<Int, int>>          stop;          // (key, probe) whose stop hook throws
    };

    struct World
    {
        Plan                         plan;
        std::vector<Inst>            inst;          // child graph instances in creation order
        std::map<const void *, int>  inst_of;       // child graph memory -> latest instance
        std::map<Int, int>           gens;          // key -> generations seen
        int                          start_calls{0};
        int                          combiners{0};  // reduce: combiner graph start attempts so far
        std::map<std::pair<Int, int>, int> evals;   // (key, probe) -> evaluations so far
        std::map<std::pair<int, int>, int> started; // (instance, probe) -> completed start hooks
        std::map<std::pair<int, int>, int> stopped; // (instance, probe) -> stop hook calls
        std::set<std::pair<int, int>>      live;    // observer: after-start seen, no before-stop yet
        // event sink
        struct Ev { std::string tag; int inst; int probe; };
        std::vector<std::vector<Ev>> cycle_events;
        std::vector<Ev>              stop_events, release_events;
        int                          phase{0};      // 0 = before/at cycles, 1 = final stop, 2 = after run() returned
        std::size_t                  cycle{0};

        void reset(std::size_t n)
        {
            *this = World{};
            cycle_events.resize(n + 1);
        }
        void ev(const std::string &tag, int i, int p = -1)
        {
            Ev e{tag, i, p};
            if (phase == 2) { release_events.push_back(e); }
            else if (phase == 1) { stop_events.push_back(e); }
            else { cycle_events[std::min(cycle, cycle_events.size() - 1)].push_back(e); }
        }
        std::string name(int i, int p) const
        {
            std::string s = "?";
            if (i >= 0 && i < static_cast<int>(inst.size()))
            {
                const Inst &x = inst[i];
                s = (x.key ? std::to_string(*x.key) : std::string{"?"}) + "#" + std::to_string(x.gen);
            }
            if (p >= 0) { s += "." + std::to_string(p); }
            return s;
        }
        std::string text(const std::vector<Ev> &evs) const
        {
            if (evs.empty()) { return "-"; }
            std::string out;
            for (const Ev &e : evs)
            {
                if (!out.empty()) { out += " "; }
                out += e.tag + name(e.inst, e.probe);
            }
            return out;
        }
        int n_started() const { return static_cast<int>(started.size()); }
        int n_stopped() const
        {
            int n = 0;
            for (const auto &[id, c] : stopped) { n += (c > 0 && started.count(id)) ? 1 : 0; }
            return n;
        }
        int n_double() const
        {
            int n = 0;
            for (const auto &[id, c] : stopped) { n += c > 1 ? 1 : 0; }
            return n;
        }
    };

    World W;

    int instance_of(const GraphView &g)
    {
        auto it = W.inst_of.find(g.data());
        return it == W.inst_of.end() ? -1 : it->second;
    }

    // the key of an instance becomes known when its first probe start hook runs
    void learn_key(int i, Int key)
    {
        if (i < 0 || W.inst[i].key.has_value()) { return; }
        W.inst[i].key = key;
        W.inst[i].gen = ++W.gens[key];
    }

    // ---- probe nodes -----------------------------------------------------------------------------------
    template <int I>
    struct Probe
    {
        static constexpr const char *name = I == 0 ? "hgv_probe0" : I == 1 ? "hgv_probe1" : "hgv_probe2";

        static void start(NodeView node, In<"key", TS<Int>, InputActivity::Passive> key)
        {
            const int i = instance_of(node.graph());
            if (key.valid()) { learn_key(i, key.value()); }
            const int call = ++W.start_calls;
            if (W.plan.start_calls.count(call))
            {
                W.ev("ps!", i, I);
                throw std::runtime_error("probe-fault start " + W.name(i, I));
            }
            ++W.started[{i, I}];
            W.ev("ps:", i, I);
        }

        static void stop(NodeView node)
        {
            const int i = instance_of(node.graph());
            ++W.stopped[{i, I}];
            const auto key = i >= 0 ? W.inst[i].key : std::nullopt;
            if (key && W.plan.stop.count({*key, I}))
            {
                W.ev("px!", i, I);
                throw std::runtime_error("probe-fault stop " + W.name(i, I));
            }
            W.ev("px:", i, I);
        }

        static void eval(NodeView node, In<"key", TS<Int>, InputActivity::Passive> key, In<"ts", TS<Int>> ts, Out<TS<Int>> out)
        {
            const int i = instance_of(node.graph());
            learn_key(i, key.value());
            const int  n  = ++W.evals[{key.value(), I}];
            const auto it = W.plan.eval_n.find({key.value(), I});
            if (it != W.plan.eval_n.end() && it->second.count(n))
            {
                W.ev("pe!", i, I);
                throw std::runtime_error("probe-fault evaluate " + W.name(i, I));
            }
            W.ev("pe:", i, I);
            out.set(ts.value() + Int{1});
        }
    };

    // ---- probes of a reduce combiner (no key: the instance is named by its ordinal) ----------------------
    void rp_start(const NodeView &node, int I)
    {
        const int i    = instance_of(node.graph());
        const int call = ++W.start_calls;
        if (W.plan.start_calls.count(call))
        {
            W.ev("ps!", i, I);
            throw std::runtime_error("probe-fault start " + W.name(i, I));
        }
        ++W.started[{i, I}];
        W.ev("ps:", i, I);
    }
    void rp_stop(const NodeView &node, int I)
    {
        const int i = instance_of(node.graph());
        ++W.stopped[{i, I}];
        const auto key = i >= 0 ? W.inst[i].key : std::nullopt;
        if (key && W.plan.stop.count({*key, I}))
        {
            W.ev("px!", i, I);
            throw std::runtime_error("probe-fault stop " + W.name(i, I));
        }
        W.ev("px:", i, I);
    }
    void rp_eval(const NodeView &node, int I)
    {
        const int  i   = instance_of(node.graph());
        const Int  key = i >= 0 && W.inst[i].key ? *W.inst[i].key : Int{-1};
        const int  n   = ++W.evals[{key, I}];
        const auto it  = W.plan.eval_n.find({key, I});
        if (it != W.plan.eval_n.end() && it->second.count(n))
        {
            W.ev("pe!", i, I);
            throw std::runtime_error("probe-fault evaluate " + W.name(i, I));
        }
        W.ev("pe:", i, I);
    }

    struct RProbe0
    {
        static constexpr auto name = "hgv_rprobe0";
        static void start(NodeView node) { rp_start(node, 0); }
        static void stop(NodeView node) { rp_stop(node, 0); }
        static void eval(NodeView node, In<"lhs", TS<Int>> lhs, In<"rhs", TS<Int>> rhs, Out<TS<Int>> out)
        {
            rp_eval(node, 0);
            out.set(lhs.value() + rhs.value());
        }
    };

    template <int I>
    struct RProbeU
    {
        static constexpr const char *name = I == 1 ? "hgv_rprobe1" : "hgv_rprobe2";
        static void start(NodeView node) { rp_start(node, I); }
        static void stop(NodeView node) { rp_stop(node, I); }
        static void eval(NodeView node, In<"ts", TS<Int>> ts, Out<TS<Int>> out)
        {
            rp_eval(node, I);
            out.set(ts.value());
        }
    };

    using P  = Port<TS<Int>>;
    using KP = NamedPort<"key", TS<Int>>;

    template <int N>
    struct GProbes
    {
        static constexpr const char *name = N == 1 ? "hgv_dl_g1" : N == 2 ? "hgv_dl_g2" : "hgv_dl_g3";
        static P compose(Wiring &w, KP key, P ts)
        {
            P a = wire<Probe<0>>(w, key, ts);
            if constexpr (N >= 2) { a = wire<Probe<1>>(w, key, a); }
            if constexpr (N >= 3) { a = wire<Probe<2>>(w, key, a); }
            return a;
        }
    };

    WiredFn probes_fn(int n) { return n == 1 ? fn<GProbes<1>>() : n == 2 ? fn<GProbes<2>>() : fn<GProbes<3>>(); }

    // structural branch results returned as is: the switch output forwards to the branch terminal
    using SB = UnNamedTSB<Field<"p1", TS<Int>>, Field<"p2", TS<Int>>>;
    template <int N>
    struct GProbesB
    {
        static constexpr const char *name = N == 1 ? "hgv_dl_b1" : N == 2 ? "hgv_dl_b2" : "hgv_dl_b3";
        static Port<SB> compose(Wiring &w, KP key, P ts)
        {
            P first = wire<Probe<0>>(w, key, ts);
            P a     = first;
            if constexpr (N >= 2) { a = wire<Probe<1>>(w, key, a); }
            if constexpr (N >= 3) { a = wire<Probe<2>>(w, key, a); }
            return stdlib::to_tsb<SB>(w, a, first);
        }
    };

    using PSL = decltype(stdlib::to_tsl<TS<Int>>(std::declval<Wiring &>(), std::declval<const P &>(), std::declval<const P &>()));

    template <int N>
    struct GProbesL
    {
        static constexpr const char *name = N == 1 ? "hgv_dl_l1" : N == 2 ? "hgv_dl_l2" : "hgv_dl_l3";
        static PSL compose(Wiring &w, KP key, P ts)
        {
            P first = wire<Probe<0>>(w, key, ts);
            P a     = first;
            if constexpr (N >= 2) { a = wire<Probe<1>>(w, key, a); }
            if constexpr (N >= 3) { a = wire<Probe<2>>(w, key, a); }
            return stdlib::to_tsl<TS<Int>>(w, a, first);
        }
    };

    WiredFn probes_fn_b(int n) { return n == 1 ? fn<GProbesB<1>>() : n == 2 ? fn<GProbesB<2>>() : fn<GProbesB<3>>(); }
    WiredFn probes_fn_l(int n) { return n == 1 ? fn<GProbesL<1>>() : n == 2 ? fn<GProbesL<2>>() : fn<GProbesL<3>>(); }

    template <int N>
    struct GComb
    {
        static constexpr const char *name = N == 2 ? "hgv_dl_c2" : "hgv_dl_c3";
        static P compose(Wiring &w, P lhs, P rhs)
        {
            P a = wire<RProbe0>(w, lhs, rhs);
            a   = wire<RProbeU<1>>(w, a);
            if constexpr (N >= 3) { a = wire<RProbeU<2>>(w, a); }
            return a;
        }
    };

    // n = 1: a NODE combiner, otherwise a sub-graph combiner
    WiredFn combiner_fn(int n) { return n == 1 ? fn<RProbe0>() : n == 2 ? fn<GComb<2>>() : fn<GComb<3>>(); }

    WiringArg ts_arg(WiringPortRef port)
    {
        WiringArg arg;
        arg.kind = WiringArg::Kind::TimeSeries;
        arg.port = std::move(port);
        return arg;
    }
    WiringArg scalar_arg(Value value)
    {
        WiringArg arg;
        arg.kind         = WiringArg::Kind::Scalar;
        arg.scalar_value = std::move(value);
        arg.scalar_meta  = arg.scalar_value.schema();
        return arg;
    }
    OperatorWireResult call_operator(Wiring &w, std::string_view name, std::vector<WiringArg> args,
                                     std::optional<bool> output_required = std::nullopt,
                                     const TSValueTypeMetaData *expected_output = nullptr)
    {
        ResolvedOperatorCall resolved = OperatorRegistry::instance().resolve(
            name, std::span<const WiringArg>{args.data(), args.size()}, output_required, expected_output, {},
            w.operator_state(), &w);
        return resolved.impl->wire(w, resolved.map, resolved.args, resolved.kwargs);
    }

    // ---- observer ---------------------------------------------------------------------------------------
    struct Obs final : LifecycleObserver
    {
        std::size_t ncycles{0};

        // the child graphs of the map_/switch_ node (a direct child of the root graph)
        static bool is_dyn_child(const GraphView &g)
        {
            if (!g.valid() || g.is_root() || !g.is_nested()) { return false; }
            auto parent = g.as_nested().parent_node();
            return parent.graph().is_root() &&
                   (parent.is<MapNodeView>() || parent.is<SwitchNodeView>() || parent.is<ReduceNodeView>());
        }
        static int probe_index(const NodeView &n)
        {
            const std::string l{n.label()};
            if (l.rfind("hgv_probe", 0) == 0 && l.size() == 10) { return l[9] - '0'; }
            if (l.rfind("hgv_rprobe", 0) == 0 && l.size() == 11) { return l[10] - '0'; }
            return -1;
        }

        void on_before_start_graph(const GraphView &g) override
        {
            if (!is_dyn_child(g)) { return; }
            W.inst.push_back(Inst{});
            W.inst_of[g.data()] = static_cast<int>(W.inst.size()) - 1;
            if (g.as_nested().parent_node().is<ReduceNodeView>())
            {
                // a combiner has no key: it is named by the order of its start attempt
                W.inst.back().key = Int{++W.combiners};
                W.inst.back().gen = 1;
            }
            W.ev("G<", instance_of(g));
        }
        void on_after_start_graph(const GraphView &g) override
        {
            if (is_dyn_child(g)) { W.ev("G>", instance_of(g)); }
        }
        void on_start_graph_failed(const GraphView &g) override
        {
            if (is_dyn_child(g)) { W.ev("G!", instance_of(g)); }
        }
        void on_before_stop_graph(const GraphView &g) override
        {
            if (g.valid() && g.is_root()) { if (W.phase == 0) { W.phase = 1; } return; }
            if (is_dyn_child(g)) { W.ev("H<", instance_of(g)); }
        }
        void on_after_stop_graph(const GraphView &g) override
        {
            if (is_dyn_child(g)) { W.ev("H>", instance_of(g)); }
        }
        void on_stop_graph_failed(const GraphView &g) override
        {
            if (is_dyn_child(g)) { W.ev("H!", instance_of(g)); }
        }
        void node_ev(const char *tag, const NodeView &n)
        {
            const int p = probe_index(n);
            if (p < 0 || !is_dyn_child(n.graph())) { return; }
            const int i = instance_of(n.graph());
            if (tag[0] == 's' && tag[1] == '>') { W.live.insert({i, p}); }
            if (tag[0] == 'x' && tag[1] == '<') { W.live.erase({i, p}); }
            W.ev(tag, i, p);
        }
        void on_before_start_node(const NodeView &n) override { node_ev("s<", n); }
        void on_after_start_node(const NodeView &n) override { node_ev("s>", n); }
        void on_start_node_failed(const NodeView &n) override { node_ev("s!", n); }
        void on_before_stop_node(const NodeView &n) override { node_ev("x<", n); }
        void on_after_stop_node(const NodeView &n) override { node_ev("x>", n); }
        void on_stop_node_failed(const NodeView &n) override { node_ev("x!", n); }
        void on_before_graph_evaluation(const GraphView &g) override
        {
            if (g.is_root())
            {
                W.cycle = std::min<std::size_t>(testing::cycle_offset(g.evaluation_time()), ncycles);
            }
        }
    };

    // ---- configuration / history ---------------------------------------------------------------------
    struct Cfg
    {
        bool is_switch{false};
        int  sw_shape{0};   // 0 = TS<Int> result (owned output), 1 = to_tsb result, 2 = to_tsl result (forwarding output)
        bool is_reduce{false};
        bool has_zero{false};   // reducez: reduce_ with an explicit scalar zero
        int  nprobes{1};
        bool cleanup{true};
    };

    struct Op
    {
        char         what;   // '+', '-', '=', '~'
        std::int64_t k{0};
    };

    std::string classify(const std::string &what)
    {
        const std::string first = what.substr(0, what.find('\n'));
        const auto        p     = first.find("probe-fault ");
        if (p == std::string::npos) { return "err:other"; }
        std::string outer = "?";
        for (const char *ph : {"start", "evaluate", "stop"})
        {
            const auto q = first.find(std::string{"] "} + ph + " failed: ");
            if (q != std::string::npos && q < p) { outer = ph; break; }
        }
        auto       rest  = split(first.substr(p + 12));
        return "err:" + outer + "/" + (rest.size() >= 2 ? rest[0] + ":" + rest[1] : std::string{"?"});
    }

    std::vector<std::string> run_history(const Cfg &cfg, const Plan &plan, const std::vector<std::vector<Op>> &cycles)
    {
        W.reset(cycles.size());
        W.plan = plan;

        Wiring w{WiringKind::TopLevel, WiringOptions{}};
        std::vector<std::optional<Value>> a_deltas, k_deltas, x_deltas;
        if (!cfg.is_switch)
        {
            auto a = wire<stdlib::replay_impl, IntDict>(w, Str{"hgv::a"});
            if (cfg.is_reduce)
            {
                std::vector<WiringArg> rargs{scalar_arg(Value{combiner_fn(cfg.nprobes)}), ts_arg(a.erased())};
                if (cfg.has_zero) { rargs.push_back(scalar_arg(Value{Int{1000}})); }
                auto red = call_operator(w, "reduce", std::move(rargs), true);
                Port<TS<Int>> r{red.output.erased()};
                wire<stdlib::dense_record_impl>(w, r, Str{"hgv::out"});
            }
            else
            {
                auto m = wire<stdlib::map_>(w, probes_fn(cfg.nprobes), a).as<IntDict>();
                wire<stdlib::dense_record_impl>(w, m, Str{"hgv::out"});
            }
            std::set<Int> present;
            Int           v = 0;
            for (const auto &ops : cycles)
            {
                std::map<Int, Int> modified;
                std::vector<Int>   removed;
                for (const Op &op : ops)
                {
                    if (op.what == '+') { modified[Int{op.k}] = ++v; present.insert(Int{op.k}); }
                    else if (op.what == '-' && present.erase(Int{op.k}) > 0) { removed.push_back(Int{op.k}); }
                }
                if (modified.empty() && removed.empty()) { a_deltas.emplace_back(std::nullopt); }
                else { a_deltas.emplace_back(static_node_detail::build_dict_delta<Int, TS<Int>>(modified, removed)); }
            }
        }
        else
        {
            auto k  = wire<stdlib::replay_impl, TS<Int>>(w, Str{"hgv::k"});
            auto x  = wire<stdlib::replay_impl, TS<Int>>(w, Str{"hgv::x"});
            stdlib::SwitchCases cases;
            if (cfg.sw_shape == 1)
            {
                cases.default_branch = probes_fn_b(cfg.nprobes);
                auto sw = wire<stdlib::switch_>(w, k, std::move(cases), x).template as<SB>();
                auto p1 = wire<stdlib::getitem_>(w, sw, Str{"p1"}).template as<TS<Int>>();
                wire<stdlib::dense_record_impl>(w, p1, Str{"hgv::out"});
            }
            else if (cfg.sw_shape == 2)
            {
                cases.default_branch = probes_fn_l(cfg.nprobes);
                PSL  sw{w, wire<stdlib::switch_>(w, k, std::move(cases), x).erased()};
                wire<stdlib::dense_record_impl>(w, sw, Str{"hgv::out"});
            }
            else
            {
                cases.default_branch = probes_fn(cfg.nprobes);
                auto sw = wire<stdlib::switch_>(w, k, std::move(cases), x).template as<TS<Int>>();
                wire<stdlib::dense_record_impl>(w, sw, Str{"hgv::out"});
            }
            Int v = 0;
            for (const auto &ops : cycles)
            {
                std::optional<Value> kd, xd;
                for (const Op &op : ops)
                {
                    if (op.what == '=') { kd = Value{Int{op.k}}; xd = Value{Int{++v}}; }
                    else if (op.what == '~') { xd = Value{Int{++v}}; }
                }
                k_deltas.push_back(std::move(kd));
                x_deltas.push_back(std::move(xd));
            }
        }
        GraphBuilder gb = std::move(w).finish();
        if (!cfg.is_switch) { testing::set_replay_deltas(gb.global_state(), "hgv::a", a_deltas); }
        else
        {
            testing::set_replay_deltas(gb.global_state(), "hgv::k", k_deltas);
            testing::set_replay_deltas(gb.global_state(), "hgv::x", x_deltas);
        }

        Obs obs;
        obs.ncycles = cycles.size();
        std::string error;
        bool        threw = false;
        int         ret_started = 0, ret_stopped = 0, ret_live = 0;
        {
            GraphExecutorBuilder eb;
            eb.graph_builder(std::move(gb))
                .mode(GraphExecutorMode::Simulation)
                .start_time(MIN_ST)
                .end_time(MIN_ST + TimeDelta{static_cast<std::int64_t>(cycles.size())})
                .cleanup_on_error(cfg.cleanup);
            eb.add_lifecycle_observer(&obs);
            GraphExecutorValue executor = eb.make_executor();
            try { executor.view().run(); }
            catch (const std::exception &e)
            {
                threw = true;
                error = e.what();
                if (std::getenv("HGV_DEBUG")) { std::cerr << e.what() << "\n"; }
            }
            W.phase     = 2;
            ret_started = W.n_started();
            ret_stopped = W.n_stopped();
            ret_live    = static_cast<int>(W.live.size());
        }   // executor released here

        std::vector<std::string> lines;
        // an error annotated `evaluate failed` ended the run inside the last cycle that began
        const bool               in_eval   = threw && error.substr(0, error.find('\n')).find("] evaluate failed: ") != std::string::npos;
        const std::size_t        failed_at = in_eval ? std::min(W.cycle, cycles.size()) : cycles.size();
        for (std::size_t i = 0; i < cycles.size(); ++i)
        {
            if (i > failed_at) { lines.push_back("dead"); }
            else { lines.push_back(W.text(W.cycle_events[i])); }
        }
        std::ostringstream s;
        s << "res=" << (threw ? classify(error) : std::string{"ok"}) << " stop=" << W.text(W.stop_events) << " ret=" << ret_started
          << "/" << ret_stopped << "/" << ret_live << " rel=" << W.text(W.release_events) << " fin=" << W.n_started() << "/"
          << W.n_stopped() << "/" << W.n_double() << "/" << W.live.size();
        lines.push_back(s.str());
        return lines;
    }
}  // namespace

int main()
{
    std::ios::sync_with_stdio(false);
    hgraph::stdlib::register_standard_operators();
    (void)TypeRegistry::instance().register_scalar<Int>("int");

    Cfg                          cfg;
    Plan                         plan;
    std::vector<std::vector<Op>> cycles;
    bool                         cfg_bad = false;

    auto flush = [&](bool with_run_line) {
        if (cycles.empty() && !with_run_line) { return; }
        std::vector<std::string> lines;
        try
        {
            if (cfg_bad) { throw std::invalid_argument("cfg"); }
            if (cycles.empty()) { lines = {"res=ok stop=- ret=0/0/0 rel=- fin=0/0/0/0"}; }   // nothing to run
            else { lines = run_history(cfg, plan, cycles); }
        }
        catch (const std::exception &e)
        {
            lines.assign(cycles.size() + 1, std::string{"err:harness"});
            if (std::getenv("HGV_DEBUG")) { std::cerr << e.what() << "\n"; }
        }
        if (lines.size() != cycles.size() + 1) { lines.resize(cycles.size() + 1, "err:short"); }
        for (std::size_t i = 0; i < cycles.size(); ++i) { std::cout << lines[i] << "\n"; }
        if (with_run_line) { std::cout << lines.back() << "\n"; }
        cycles.clear();
    };

    std::string line;
    while (std::getline(std::cin, line))
    {
        auto w = split(line);
        if (w.empty()) { flush(false); std::cout << "\n"; continue; }
        const std::string &op = w[0];
        try
        {
            if (op == "case")
            {
                flush(false);
                cfg     = Cfg{};
                plan    = Plan{};
                cfg_bad = false;
                std::cout << line << "\n";
            }
            else if (op == "cfg" && w.size() == 4)
            {
                flush(false);
                Cfg  c;
                bool ok     = (w[1] == "map" || w[1] == "switch" || w[1] == "switchb" || w[1] == "switchl" || w[1] == "reduce" ||
                               w[1] == "reducez") &&
                          (w[2] == "1" || w[2] == "2" || w[2] == "3") && (w[3] == "0" || w[3] == "1");
                c.is_switch = w[1] == "switch" || w[1] == "switchb" || w[1] == "switchl";
                c.sw_shape  = w[1] == "switchb" ? 1 : w[1] == "switchl" ? 2 : 0;
                c.is_reduce = w[1] == "reduce" || w[1] == "reducez";
                c.has_zero  = w[1] == "reducez";
                c.nprobes   = ok ? static_cast<int>(to_i(w[2])) : 1;
                c.cleanup   = w[3] == "1";
                if (ok) { cfg = c; cfg_bad = false; std::cout << "ok\n"; }
                else { cfg_bad = true; std::cout << "bad-op\n"; }
            }
            else if (op == "fs" && w.size() == 2 && to_i(w[1]) >= 1)
            {
                flush(false);
                plan.start_calls.insert(static_cast<int>(to_i(w[1])));
                std::cout << "ok\n";
            }
            else if (op == "fe" && w.size() == 4 && to_i(w[2]) >= 0 && to_i(w[2]) <= 2 && to_i(w[3]) >= 1)
            {
                flush(false);
                plan.eval_n[{Int{to_i(w[1])}, static_cast<int>(to_i(w[2]))}].insert(static_cast<int>(to_i(w[3])));
                std::cout << "ok\n";
            }
            else if (op == "fx" && w.size() == 3 && to_i(w[2]) >= 0 && to_i(w[2]) <= 2)
            {
                flush(false);
                plan.stop.insert({Int{to_i(w[1])}, static_cast<int>(to_i(w[2]))});
                std::cout << "ok\n";
            }
            else if (op == "c")
            {
                std::vector<Op>        ops;
                bool                   ok = true;
                std::set<std::int64_t> added, removed;
                for (std::size_t i = 1; i < w.size() && ok; ++i)
                {
                    const std::string &t = w[i];
                    if (!cfg.is_switch && t.size() >= 2 && (t[0] == '+' || t[0] == '-'))
                    {
                        const auto k = to_i(t.substr(1));
                        (t[0] == '+' ? added : removed).insert(k);
                        ops.push_back({t[0], k});
                    }
                    else if (cfg.is_switch && t.size() >= 2 && t[0] == '=') { ops.push_back({'=', to_i(t.substr(1))}); }
                    else if (cfg.is_switch && t == "~") { ops.push_back({'~', 0}); }
                    else { ok = false; }
                }
                for (auto k : added) { if (removed.count(k)) { ok = false; } }
                if (!ok) { flush(false); std::cout << "bad-op\n"; }
                else { cycles.push_back(std::move(ops)); }
            }
            else if (op == "run") { flush(true); }
            else { flush(false); std::cout << "bad-op\n"; }
        }
        catch (const std::exception &) { flush(false); std::cout << "bad-op\n"; }
    }
    flush(false);
    return 0;
}
