// Shared helpers for the hgv_* correspondence drivers (line protocol).
#pragma once
#include <hgraph/util/date_time.h>

#include <cstdint>
#include <iostream>
#include <sstream>
#include <string>
#include <vector>

namespace hgv
{
    using hgraph::DateTime;
    using hgraph::TimeDelta;

    inline DateTime dt(std::int64_t us) { return DateTime{TimeDelta{us}}; }
    inline std::int64_t us(DateTime t) { return t.time_since_epoch().count(); }
    // canonical time: integer microseconds; MAX_DT prints as "max"
    inline std::string ts(DateTime t)
    {
        if (t == hgraph::MAX_DT) return "max";
        return std::to_string(us(t));
    }

    inline std::vector<std::string> split(const std::string &line)
    {
        std::vector<std::string> out;
        std::istringstream       is(line);
        std::string              w;
        while (is >> w) out.push_back(w);
        return out;
    }

    inline std::int64_t to_i(const std::string &s) { return std::stoll(s); }
}  // namespace hgv
