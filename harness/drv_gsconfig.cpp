// hgv_gsconfig (C07, record/replay configuration stream): ONE process runs a HISTORY of builds.  Every step
// constructs a graph whose record / replay / compare nodes are resolved through the operator dispatch
// (wire<stdlib::record> ...), against a GlobalState that is a fresh object, a long-lived object reset /
// overwritten / cleared in place, a new local object in the same stack slot, a context-owned state, or the
// internal store of a stateless Wiring - with the record/replay configuration of that store chosen per step.
// The backend a step gets (dense "testing" recorder under the plain key, sparse ":memory:" recorder, no overload)
// must follow from the contents of ITS store alone.
//
// One output line per input line:
//
//   case <n>                                                    -> case <n>       (drops every named object; every
//                                                                  case is handled on a thread of its own; with the
//                                                                  argument --fresh: in a forked child of its own)
//   step <store> <prep> <pre> <late> <graph> <key> <inputs...>  -> pre{..} <status> [post{..} [seed=<v>]]
//
//     store   new        a heap GlobalState made for this step (freed afterwards), selected by a GlobalContext
//             obj:<n>    the long-lived GlobalState named <n> (created empty on first use), selected likewise
//             frame      a local GlobalState in the stack frame of one (non-inlined) function, selected likewise
//             own        a default-constructed GlobalContext (the context owns its state)
//             none       a stateless Wiring: no GlobalContext, the Wiring's internal store
//     prep    asis | reset (state = GlobalState{}) | copy (copy_from an empty state) | clear (erase key by key)
//             | copy:<n> (copy_from the long-lived object <n>, created empty when new)      (store none: asis only)
//     pre     actions applied to the store BEFORE the nodes are wired, `+`-joined, `-` = none
//     late    actions applied AFTER the nodes are wired, before the build is finished
//             set:<b>    record_replay::set_config(view, {backend = b})        (normalises legacy names)
//             raw:<b>    view.set(CONFIG_KEY, Value{RecordReplayConfig{b}})    (written as given)
//             rm         view.erase(CONFIG_KEY)
//             put:<k>=<i> view.set(k, Int i)          del:<k>  view.erase(k)
//             bad        view.set(CONFIG_KEY, Int 0)   (a foreign value under the configuration key)
//     graph   q          no graph: print record_replay::config(view).backend          -> pre{..} cfg=<b> | cfg=err
//             tick       ticker(N) -> record(key)                  inputs: N (1..9): 10 20 .. 10N on cycles 0..N-1
//             rep        replay("in") -> record(key)               inputs: 5 _ 7   (_ = no tick that cycle)
//             cmp        replay("in") -> record(key), compare(replay, twist(replay), recordable_id="c")
//                        (twist: 13 -> 0, everything else unchanged: a 13 is a comparison mismatch)
//             optional suffix @<m>: every dispatched call gets the call-site backend scalar model=<m>
//             optional suffix !   : after the run, also ask the RECOVER seed resolver (seed=.. is printed)
//     status  ok | err:wire (no overload / wiring exception: nothing ran) | err:run (run() threw)
//     pre     the store's contents when the first node is wired; post = the executor's GlobalState after run()
//             values: cfg(<backend>) i<int> A<len>[c:v ..] D<len>[c:v ..] S<len>[c:v ..] cmp(<compared>/<mismatches>) ?
//     seed    record_replay::recorded_seed_resolver(post, "nodes.record.<key>", TS<Int>, far future): <int> | - | err
//             (reads config() of the EXECUTOR's state: only on request, it is one more configuration read)
#include "hgv_common.h"

#include <hgraph/lib/std/operators/impl/record_replay_memory_impl.h>
#include <hgraph/lib/testing/record_replay.h>
#include <hgraph/runtime/runtime.h>
#include <hgraph/types/graph_wiring.h>
#include <hgraph/types/metadata/type_registry.h>
#include <hgraph/types/record_replay.h>
#include <hgraph/types/static_node.h>

#include <algorithm>
#include <map>
#include <memory>
#include <optional>
#include <thread>

#include <sys/wait.h>
#include <unistd.h>

using namespace hgraph;
using namespace hgv;

namespace
{
    const std::string CONFIG_KEY = "__hgraph.record_replay.config__";
    const std::string IN_KEY     = "in";

    struct Ticker
    {
        static constexpr auto name              = "cfg_ticker";
        static constexpr bool schedule_on_start = true;

        static void eval(Scalar<"n", Int> n, State<Int> count, NodeScheduler sched, Out<TS<Int>> out)
        {
            const Int k = count.get() + 1;
            count.set(k);
            out.set(k * 10);
            if (k < n.value()) { sched.schedule(MIN_TD); }
        }
    };

    struct Twist
    {
        static constexpr auto name = "cfg_twist";
        static void           eval(In<"in", TS<Int>> in, Out<TS<Int>> out) { out.set(in.value() == 13 ? Int{0} : in.value()); }
    };

    struct Action
    {
        enum Kind { Set, Raw, Rm, Put, Del, Bad } kind;
        std::string                          a;      // backend / key
        Int                                  v{0};
    };

    using Inputs = std::vector<std::optional<Int>>;

    struct StepSpec
    {
        std::string         store;      // new | obj | frame | own | none
        std::string         name;       // obj name
        std::string         prep;       // asis | reset | copy | clear | from
        std::string         from;       // prep from: the object copied
        std::vector<Action> pre, late;
        std::string         graph;      // q | tick | rep | cmp
        std::string         model;      // call-site backend ("" = none)
        bool                probe{false};   // ask the seed resolver after the run
        std::string         key;
        Int                 count{0};   // tick
        Inputs              inputs;     // rep / cmp
    };

    bool word_ok(const std::string &s)
    {
        if (s.empty() || s.size() > 40) return false;
        for (const char c : s)
        {
            if (!(std::isalnum(static_cast<unsigned char>(c)) || c == '.' || c == '_')) return false;
        }
        return s[0] != '_' && s[0] != '.';
    }

    std::optional<Int> parse_int(const std::string &s)
    {
        if (s.empty() || s[0] == '+') return std::nullopt;
        try
        {
            std::size_t pos = 0;
            const Int   v   = std::stoll(s, &pos);
            if (pos != s.size()) return std::nullopt;
            return v;
        }
        catch (...) { return std::nullopt; }
    }

    std::optional<std::vector<Action>> parse_actions(const std::string &text)
    {
        std::vector<Action> out;
        if (text == "-") return out;
        std::size_t from = 0;
        while (from <= text.size())
        {
            const auto        plus = text.find('+', from);
            const std::string tok  = text.substr(from, plus == std::string::npos ? std::string::npos : plus - from);
            if (tok == "rm") { out.push_back({Action::Rm, "", 0}); }
            else if (tok == "bad") { out.push_back({Action::Bad, "", 0}); }
            else if (tok.rfind("set:", 0) == 0 && word_ok(tok.substr(4))) { out.push_back({Action::Set, tok.substr(4), 0}); }
            else if (tok.rfind("raw:", 0) == 0 && word_ok(tok.substr(4))) { out.push_back({Action::Raw, tok.substr(4), 0}); }
            else if (tok.rfind("del:", 0) == 0 && word_ok(tok.substr(4))) { out.push_back({Action::Del, tok.substr(4), 0}); }
            else if (tok.rfind("put:", 0) == 0)
            {
                const auto eq = tok.find('=');
                if (eq == std::string::npos) return std::nullopt;
                const auto k = tok.substr(4, eq - 4);
                const auto v = parse_int(tok.substr(eq + 1));
                if (!word_ok(k) || !v.has_value()) return std::nullopt;
                out.push_back({Action::Put, k, *v});
            }
            else { return std::nullopt; }
            if (plus == std::string::npos) break;
            from = plus + 1;
        }
        return out;
    }

    std::optional<StepSpec> parse_step(const std::vector<std::string> &w)
    {
        if (w.size() < 7 || w[0] != "step") return std::nullopt;
        StepSpec s;
        if (w[1] == "new" || w[1] == "frame" || w[1] == "own" || w[1] == "none") { s.store = w[1]; }
        else if (w[1].rfind("obj:", 0) == 0 && word_ok(w[1].substr(4))) { s.store = "obj"; s.name = w[1].substr(4); }
        else { return std::nullopt; }
        if (w[2].rfind("copy:", 0) == 0 && word_ok(w[2].substr(5)))
        {
            s.prep = "from";
            s.from = w[2].substr(5);
        }
        else if (w[2] == "asis" || w[2] == "reset" || w[2] == "copy" || w[2] == "clear") { s.prep = w[2]; }
        else { return std::nullopt; }
        if (s.store == "none" && s.prep != "asis") return std::nullopt;
        auto pre = parse_actions(w[3]), late = parse_actions(w[4]);
        if (!pre.has_value() || !late.has_value()) return std::nullopt;
        s.pre  = std::move(*pre);
        s.late = std::move(*late);
        std::string gtok = w[5];
        if (!gtok.empty() && gtok.back() == '!')
        {
            s.probe = true;
            gtok.pop_back();
        }
        const auto at = gtok.find('@');
        s.graph       = gtok.substr(0, at);
        if (at != std::string::npos)
        {
            s.model = gtok.substr(at + 1);
            if (!word_ok(s.model)) return std::nullopt;
        }
        if (s.graph == "q")
        {
            if (w.size() != 7 || w[6] != "-" || at != std::string::npos || s.probe) return std::nullopt;
            return s;
        }
        if (s.graph != "tick" && s.graph != "rep" && s.graph != "cmp") return std::nullopt;
        if (!word_ok(w[6]) || w[6] == IN_KEY) return std::nullopt;
        s.key = w[6];
        if (s.graph == "tick")
        {
            if (w.size() != 8 || w[7].size() != 1 || w[7][0] < '1' || w[7][0] > '9') return std::nullopt;
            s.count = w[7][0] - '0';
            return s;
        }
        for (std::size_t i = 7; i < w.size(); ++i)
        {
            if (w[i] == "_") { s.inputs.emplace_back(std::nullopt); continue; }
            const auto v = parse_int(w[i]);
            if (!v.has_value()) return std::nullopt;
            s.inputs.emplace_back(*v);
        }
        if (s.inputs.size() > 12) return std::nullopt;
        return s;
    }

    // ------------------------------------------------------------------ canonical text of a store

    std::string show_trace(const std::vector<std::pair<std::size_t, Int>> &t)
    {
        std::string s = "[";
        for (std::size_t i = 0; i < t.size(); ++i) s += (i ? " " : "") + std::to_string(t[i].first) + ":" + std::to_string(t[i].second);
        return s + "]";
    }

    std::string dump_value(const ValueView &v)
    {
        if (!v.valid()) return "?";
        if (const auto *c = v.try_as<record_replay::RecordReplayConfig>()) return "cfg(" + c->backend + ")";
        if (const auto *i = v.try_as<Int>()) return "i" + std::to_string(*i);
        if (const auto *s = v.try_as<record_replay::ComparisonSummary>())
            return "cmp(" + std::to_string(s->compared) + "/" + std::to_string(s->mismatches) + ")";
        if (v.schema() == nullptr || v.schema()->try_value_kind() != ValueTypeKind::List) return "?";
        const auto  list = v.as_list();
        const auto *el   = list.element_schema();
        const auto  kind = el != nullptr ? el->try_value_kind() : std::nullopt;
        std::vector<std::pair<std::size_t, Int>> t;
        std::string                              tag;
        if (kind == ValueTypeKind::Tuple)
        {
            tag = "S";
            for (std::size_t i = 0; i < list.size(); ++i)
            {
                const auto entry = list.at(i).as_indexed_view();
                t.emplace_back(testing::cycle_offset(entry.at(0).checked_as<DateTime>()), entry.at(1).checked_as<Int>());
            }
        }
        else
        {
            tag = kind == ValueTypeKind::Any ? "A" : "D";
            for (std::size_t i = 0; i < list.size(); ++i)
            {
                if (auto d = testing::dense_entry_delta(list, i); d.has_value()) t.emplace_back(i, d->view().template checked_as<Int>());
            }
        }
        return tag + std::to_string(list.size()) + show_trace(t);
    }

    std::string dump_state(const GlobalStateView &gs)
    {
        std::vector<std::string> items;
        const ValueView          mv = gs.as_value().view();
        for (const auto [key, boxed] : mv.as_map())
        {
            const std::string k = key.template checked_as<Str>();
            std::string       text;
            try { text = dump_value(gs.get(k)); }
            catch (const std::exception &) { text = "?"; }
            items.push_back(k + "=" + text);
        }
        std::sort(items.begin(), items.end());
        std::string s = "{";
        for (std::size_t i = 0; i < items.size(); ++i) s += (i ? " " : "") + items[i];
        return s + "}";
    }

    // ------------------------------------------------------------------ store manipulation

    void apply_actions(GlobalStateView view, const std::vector<Action> &actions)
    {
        for (const auto &a : actions)
        {
            switch (a.kind)
            {
                case Action::Set: record_replay::set_config(view, record_replay::RecordReplayConfig{.backend = a.a}); break;
                case Action::Raw: view.set(CONFIG_KEY, Value{record_replay::RecordReplayConfig{.backend = a.a}}); break;
                case Action::Rm: (void)view.erase(CONFIG_KEY); break;
                case Action::Put: view.set(a.a, Value{a.v}); break;
                case Action::Del: (void)view.erase(a.a); break;
                case Action::Bad: view.set(CONFIG_KEY, Value{Int{0}}); break;
            }
        }
    }

    void apply_prep(GlobalState &state, const std::string &prep, GlobalState *from)
    {
        if (prep == "reset") { state = GlobalState{}; }
        else if (prep == "from" && from != nullptr) { state.view().copy_from(from->view()); }
        else if (prep == "copy")
        {
            GlobalState empty;
            state.view().copy_from(empty.view());
        }
        else if (prep == "clear")
        {
            std::vector<std::string> keys;
            for (const auto [key, boxed] : state.as_value().view().as_map()) keys.push_back(key.template checked_as<Str>());
            for (const auto &k : keys) (void)state.view().erase(k);
        }
    }

    // ------------------------------------------------------------------ the graph of a step

    void compose(Wiring &w, const StepSpec &s)
    {
        const Str model{s.model};
        if (s.graph == "tick")
        {
            auto src = wire<Ticker>(w, Int{s.count});
            if (s.model.empty()) { wire<stdlib::record>(w, src, Str{s.key}); }
            else { wire<stdlib::record>(w, src, Str{s.key}, arg<"model">(model)); }
            return;
        }
        auto src = s.model.empty() ? wire<stdlib::replay, TS<Int>>(w, Str{IN_KEY})
                                   : wire<stdlib::replay, TS<Int>>(w, Str{IN_KEY}, arg<"model">(model));
        if (s.model.empty()) { wire<stdlib::record>(w, src, Str{s.key}); }
        else { wire<stdlib::record>(w, src, Str{s.key}, arg<"model">(model)); }
        if (s.graph == "cmp")
        {
            auto rhs = wire<Twist>(w, src);
            if (s.model.empty()) { wire<stdlib::compare>(w, src, rhs, arg<"recordable_id">(Str{"c"})); }
            else { wire<stdlib::compare>(w, src, rhs, arg<"recordable_id">(Str{"c"}), arg<"model">(model)); }
        }
    }

    const TSValueTypeMetaData *ts_int_schema()
    {
        return TypeRegistry::instance().ts(scalar_descriptor<Int>::value_meta());
    }

    std::string run_built(GraphBuilder gb, const StepSpec &s)
    {
        if (s.graph != "tick") { testing::set_replay_values<Int>(gb.global_state(), IN_KEY, s.inputs); }
        GraphExecutorBuilder eb;
        eb.graph_builder(std::move(gb)).start_time(MIN_ST).end_time(MAX_ET);
        GraphExecutorValue executor = eb.make_executor();
        auto               view     = executor.view();
        std::string        status   = "ok";
        try { view.run(); }
        catch (const std::exception &) { status = "err:run"; }
        const GlobalStateView post = view.graph().global_state();
        if (!s.probe) { return status + " post" + dump_state(post); }
        std::string seed;
        try
        {
            const Value got = record_replay::recorded_seed_resolver(post, "nodes.record." + s.key, ts_int_schema(),
                                                                    MIN_ST + MIN_TD * std::int64_t{100000});
            seed            = got.has_value() ? std::to_string(got.view().checked_as<Int>()) : std::string{"-"};
        }
        catch (const std::exception &) { seed = "err"; }
        return status + " post" + dump_state(post) + " seed=" + seed;
    }

    /** graph `q`: the configuration the public API reports for this store */
    std::string query(GlobalStateView view)
    {
        try { return record_replay::config(view).backend; }
        catch (const std::exception &) { return "err"; }
    }

    /** prep + pre + wiring + late + finish + run against a caller-provided state selected as the live wiring state */
    std::string step_selected(GlobalState &state, const StepSpec &s, GlobalState *from)
    {
        apply_prep(state, s.prep, from);
        apply_actions(state.view(), s.pre);
        const std::string pre = "pre" + dump_state(state.view());
        if (s.graph == "q") { return pre + " cfg=" + query(state.view()); }
        GraphBuilder gb;
        try
        {
            GlobalContext context{state};
            Wiring        w;
            compose(w, s);
            apply_actions(state.view(), s.late);
            gb = std::move(w).finish();
        }
        catch (const std::exception &) { return pre + " err:wire"; }
        return pre + " " + run_built(std::move(gb), s);
    }

    /** (c) a new local object in the same stack slot: every `frame` step is a call of this one function */
    [[gnu::noinline]] std::string step_frame(const StepSpec &s, GlobalState *from)
    {
        GlobalState state;
        return step_selected(state, s, from);
    }

    /** the context owns its state */
    [[gnu::noinline]] std::string step_own(const StepSpec &s, GlobalState *from)
    {
        GraphBuilder gb;
        std::string  pre;
        try
        {
            GlobalContext context;
            GlobalState  &state = context.state();
            apply_prep(state, s.prep, from);
            apply_actions(state.view(), s.pre);
            pre = "pre" + dump_state(state.view());
            if (s.graph == "q") { return pre + " cfg=" + query(state.view()); }
            Wiring w;
            compose(w, s);
            apply_actions(state.view(), s.late);
            gb = std::move(w).finish();
        }
        catch (const std::exception &) { return pre + " err:wire"; }
        return pre + " " + run_built(std::move(gb), s);
    }

    /** (d) a stateless Wiring: its internal store */
    [[gnu::noinline]] std::string step_stateless(const StepSpec &s)
    {
        GraphBuilder gb;
        std::string  pre;
        try
        {
            Wiring w;
            apply_actions(w.global_state(), s.pre);
            pre = "pre" + dump_state(w.global_state());
            if (s.graph == "q") { return pre + " cfg=" + query(w.global_state()); }
            compose(w, s);
            apply_actions(w.global_state(), s.late);
            gb = std::move(w).finish();
        }
        catch (const std::exception &) { return pre + " err:wire"; }
        return pre + " " + run_built(std::move(gb), s);
    }

    struct Driver
    {
        std::map<std::string, std::unique_ptr<GlobalState>> objects;

        GlobalState *object(const std::string &name)
        {
            auto &slot = objects[name];
            if (!slot) slot = std::make_unique<GlobalState>();
            return slot.get();
        }

        std::string step(const StepSpec &s)
        {
            GlobalState *from = s.prep == "from" ? object(s.from) : nullptr;
            if (s.store == "new")
            {
                auto state = std::make_unique<GlobalState>();
                return step_selected(*state, s, from);
            }
            if (s.store == "obj") return step_selected(*object(s.name), s, from);
            if (s.store == "frame") return step_frame(s, from);
            if (s.store == "own") return step_own(s, from);
            return step_stateless(s);
        }
    };
}  // namespace

/** one case = the lines from a `case` header up to the next one, handled on a thread of its own (thread-local
    runtime state starts fresh, so a reported case reproduces alone; process-wide state is shared by all cases) */
void run_case(const std::vector<std::string> &lines, std::vector<std::string> &outs)
{
    Driver d;
    for (const auto &line : lines)
    {
        const auto w = split(line);
        if (w.size() == 2 && w[0] == "case") { outs.push_back("case " + w[1]); continue; }
        if (w.empty()) { outs.emplace_back(); continue; }
        std::string out;
        const auto  spec = parse_step(w);
        if (!spec.has_value()) { out = "bad-op"; }
        else
        {
            try { out = d.step(*spec); }
            catch (const std::exception &) { out = "err:other"; }
        }
        outs.push_back(std::move(out));
    }
}

int main(int argc, char **argv)
{
    std::ios::sync_with_stdio(false);
    // `--fresh`: every case is handled by a child process forked HERE, after the registrations below and before any
    // build: each case then sees a process in which nothing was wired, configured or run before it.
    const bool fresh = argc > 1 && std::string{argv[1]} == "--fresh";
    // the record / replay / compare overloads only: process start-up is paid once per reference run of the monitor
    stdlib::register_record_replay_memory_operators();
    (void)TypeRegistry::instance().register_scalar<Int>("int");
    // `raw:` writes the configuration value itself (what set_config stores), so its scalar type must be known
    (void)TypeRegistry::instance().register_scalar<record_replay::RecordReplayConfig>("RecordReplayConfig");
    std::vector<std::string> pending;
    const auto               in_thread = [&pending](std::vector<std::string> &outs) {
        std::thread worker{[&] { run_case(pending, outs); }};
        worker.join();
    };
    const auto flush = [&] {
        if (pending.empty()) return;
        std::vector<std::string> outs;
        if (!fresh) { in_thread(outs); }
        else
        {
            int fds[2];
            if (pipe(fds) != 0) return;
            std::cout.flush();
            const pid_t child = fork();
            if (child == 0)
            {
                close(fds[0]);
                in_thread(outs);
                std::string text;
                for (const auto &o : outs) text += o + "\n";
                std::size_t done = 0;
                while (done < text.size())
                {
                    const auto n = write(fds[1], text.data() + done, text.size() - done);
                    if (n <= 0) break;
                    done += static_cast<std::size_t>(n);
                }
                close(fds[1]);
                _exit(0);
            }
            close(fds[1]);
            std::string text;
            char        buffer[4096];
            for (;;)
            {
                const auto n = read(fds[0], buffer, sizeof buffer);
                if (n <= 0) break;
                text.append(buffer, static_cast<std::size_t>(n));
            }
            close(fds[0]);
            int status = 0;
            if (child > 0) waitpid(child, &status, 0);
            std::istringstream is{text};
            std::string        o;
            while (std::getline(is, o)) outs.push_back(o);
            while (outs.size() < pending.size()) outs.emplace_back("<crash in the forked case>");
            outs.resize(pending.size());
        }
        for (const auto &o : outs) std::cout << o << "\n";
        pending.clear();
    };
    std::string line;
    while (std::getline(std::cin, line))
    {
        const auto w = split(line);
        if (w.size() == 2 && w[0] == "case") flush();
        pending.push_back(line);
    }
    flush();
    std::cout.flush();
    return 0;
}
