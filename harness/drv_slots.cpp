// hgv_slots: drives REAL standalone TSOutput objects of TSS<Int>, TSD<Int, TS<Int>> and a
// tick-count TSW<Int> (compiled from the working tree, linked from .build/libhgv.a) through
// their public mutation views, with an explicit evaluation time on every operation, and
// dumps value / added / removed / modified / delta through the public TS*OutputView readers.
// (Standalone construction `TSOutput{schema}` is what tests/cpp/test_ts_output.cpp does; no
// graph is needed, so the fallback "tiny real graph per case" was NOT used.)
//
// One output line per input line.
//   case <id>                 -> "case <id>"
//   tss | tsd | tsw <N> <min> | tsl <n> -> "ok"       fresh output of that schema (tsl: fixed TSL<TS<Int>, n>)
//   tss:<K> | tsd:<K>         -> "ok"                 the same with KEY type K in {i64 (= plain tss/tsd), i32, date, f32}:
//                                                     i32/date/f32 keys have alignment < 8, so StableSlotStore selects its
//                                                     BITMAP representation (two planes constructed/live) for the key store;
//                                                     i64 keys use the tagged-pointer table.  Keys are read and printed as
//                                                     integers through a fixed bijection (i32: cast, date: 1970-01-01 + n days,
//                                                     f32: float(n), |n| < 2^24), so the output format does not depend on K.
//   reserve <t> <cap>         -> "ok"                 TSS/TSDDataMutationView::reserve (grow the slot table now; no tick)
//   has <t> <k>               -> "1"|"0"              TSS/TSDOutputView::contains at evaluation time t
//   lset <t> <i> <v>          -> "ok"                 write child i of the fixed TSL through its own mutation view
//   add <t> <k> | rem <t> <k> -> "1"|"0"              TSSDataMutationView::add / remove  (changed?)
//   clear <t> | touch <t>     -> "ok"                 (TSS and TSD)
//   set <t> <k> <v>           -> "ok"                 TSDDataMutationView::set
//   at <t> <k>                -> "ok"                 TSDDataMutationView::at   (key without a value yet)
//   erase <t> <k>             -> "1"|"0"              TSDDataMutationView::erase
//   push <t> <v>              -> "ok"                 TSWDataMutationView::push
//   wclear <t>                -> "ok"                 TSWDataMutationView::clear
//   wclearpush <t> <v>        -> "ok"                 clear + push inside ONE mutation view
//   dump <t>                  -> observable state as seen by output.view(t)   (n = size(), v = iterated elements,
//                                a/r/m = delta, c = the keys named by v/a/r that pass contains(), vv / d = value-layer surfaces)
//   slots                     -> slot-level state (diagnostic only: capacity, slot states, raw bits)
// Errors: "err:invalid-arg" | "err:logic" | "err:range" | "err:other".  Unknown op: "bad-op".
#include "hgv_common.h"

#include <hgraph/types/metadata/type_registry.h>
#include <hgraph/types/primitive_types.h>
#include <hgraph/types/static_schema.h>
#include <hgraph/types/time_series/ts_output.h>
#include <hgraph/types/value/value.h>

#include <algorithm>
#include <chrono>
#include <cmath>
#include <memory>
#include <optional>
#include <stdexcept>

using namespace hgraph;
using namespace hgv;

namespace
{
    enum class Kind { None, TSS, TSD, TSW, TSL };

    Int as_int(const ValueView &v) { return v.checked_as<Int>(); }

    struct BadOp {};   // malformed operand: both drivers answer "bad-op"

    // key type of the TSS / TSD under test (chosen by the case header) and the bijection keys <-> integers
    enum class KeyType { I64, I32, Date, F32 };
    KeyType g_key = KeyType::I64;

    constexpr std::int64_t KEY_LIMIT = 1 << 24;   // narrow keys: |n| < 2^24 (exact in a float, far inside int32 / date)

    Value make_key(std::int64_t n)
    {
        if (g_key != KeyType::I64 && (n <= -KEY_LIMIT || n >= KEY_LIMIT)) { throw BadOp{}; }
        switch (g_key)
        {
        case KeyType::I32: return Value{static_cast<std::int32_t>(n)};
        case KeyType::Date: return Value{Date{std::chrono::sys_days{std::chrono::days{n}}}};
        case KeyType::F32: return Value{static_cast<float>(n)};
        default: return Value{Int{n}};
        }
    }

    Int key_int(const ValueView &v)
    {
        switch (g_key)
        {
        case KeyType::I32: return static_cast<Int>(v.checked_as<std::int32_t>());
        case KeyType::Date: return static_cast<Int>(std::chrono::sys_days{v.checked_as<Date>()}.time_since_epoch().count());
        case KeyType::F32: return static_cast<Int>(std::llround(v.checked_as<float>()));
        default: return v.checked_as<Int>();
        }
    }

    // times / sizes are naturals, keys / values integers; anything else is a malformed line
    std::int64_t nat(const std::string &s)
    {
        if (s.empty() || s.find_first_not_of("0123456789") != std::string::npos || s.size() > 15) { throw BadOp{}; }
        return std::stoll(s);
    }
    std::int64_t integer(const std::string &s)
    {
        const std::string body = (!s.empty() && s[0] == '-') ? s.substr(1) : s;
        if (body.empty() || body.find_first_not_of("0123456789") != std::string::npos || body.size() > 15) { throw BadOp{}; }
        return std::stoll(s);
    }

    std::string join(std::vector<std::string> items, bool sort = true)
    {
        if (sort)
        {
            std::sort(items.begin(), items.end(), [](const std::string &a, const std::string &b) {
                const auto ka = std::stoll(a), kb = std::stoll(b);   // "k" or "k:v" -> numeric key order
                return ka != kb ? ka < kb : a < b;
            });
        }
        std::string out = "[";
        for (std::size_t i = 0; i < items.size(); ++i) { out += (i ? "," : "") + items[i]; }
        return out + "]";
    }

    std::string keys_of(const Range<ValueView> &range)
    {
        std::vector<std::string> items;
        for (const auto key : range) { items.push_back(std::to_string(key_int(key))); }
        return join(std::move(items));
    }

    std::string set_value(const ValueView &v)
    {
        std::vector<std::string> items;
        for (const auto key : v.as_set().values()) { items.push_back(std::to_string(key_int(key))); }
        return join(std::move(items));
    }

    std::string map_value(const ValueView &v)
    {
        std::vector<std::string> items;
        for (const auto [key, value] : v.as_map().items())
        {
            items.push_back(std::to_string(key_int(key)) + ":" + std::to_string(as_int(value)));
        }
        return join(std::move(items));
    }

    // keys among `candidates` (everything the dump has named) for which contains() answers true
    template <typename View>
    std::string contained(const View &view, std::vector<Int> candidates)
    {
        std::sort(candidates.begin(), candidates.end());
        candidates.erase(std::unique(candidates.begin(), candidates.end()), candidates.end());
        std::vector<std::string> items;
        for (const Int n : candidates)
        {
            Value key = make_key(n);
            if (view.contains(key.view())) { items.push_back(std::to_string(n)); }
        }
        return join(std::move(items));
    }

    std::string dump_tss(TSOutput &output, DateTime t)
    {
        auto view = output.view(t);
        auto set  = view.as_set();
        std::string out = "lmt=" + std::to_string(us(view.last_modified_time())) + " mod=" + std::to_string(view.modified()) +
                          " valid=" + std::to_string(view.valid()) + " n=" + std::to_string(set.size());
        out += " v=" + keys_of(set.values());
        out += " a=" + keys_of(set.added());
        out += " r=" + keys_of(set.removed());
        {
            std::vector<Int> named;
            for (const auto key : set.values()) { named.push_back(key_int(key)); }
            for (const auto key : set.added()) { named.push_back(key_int(key)); }
            for (const auto key : set.removed()) { named.push_back(key_int(key)); }
            out += " c=" + contained(set, std::move(named));
        }
        // the value-layer surfaces: value() as a Set, delta_value() as Bundle{added, removed}
        out += " vv=" + set_value(view.value());
        const auto delta = view.delta_value();
        if (!delta.has_value()) { out += " d=none"; }
        else
        {
            const auto bundle = delta.as_bundle();
            out += " d=a" + set_value(bundle.at("added")) + "r" + set_value(bundle.at("removed"));
        }
        return out;
    }

    std::string dump_tsd(TSOutput &output, DateTime t)
    {
        auto view = output.view(t);
        auto dict = view.as_dict();
        std::string out = "lmt=" + std::to_string(us(view.last_modified_time())) + " mod=" + std::to_string(view.modified()) +
                          " valid=" + std::to_string(view.valid()) + " n=" + std::to_string(dict.size());
        std::vector<std::string> valid_items, invalid_keys, removed_items, modified_items;
        for (const auto [key, child] : dict.items())
        {
            if (child.valid()) { valid_items.push_back(std::to_string(key_int(key)) + ":" + std::to_string(as_int(child.value()))); }
            else { invalid_keys.push_back(std::to_string(key_int(key))); }
        }
        for (const auto [key, child] : dict.removed_items())
        {
            removed_items.push_back(std::to_string(key_int(key)) + ":" + (child.valid() ? std::to_string(as_int(child.value())) : "-"));
        }
        for (const auto [key, child] : dict.modified_items())
        {
            modified_items.push_back(std::to_string(key_int(key)) + ":" + (child.valid() ? std::to_string(as_int(child.value())) : "-"));
        }
        out += " v=" + join(std::move(valid_items));
        out += " inv=" + join(std::move(invalid_keys));
        out += " a=" + keys_of(dict.added_keys());
        out += " r=" + keys_of(dict.removed_keys());
        out += " m=" + keys_of(dict.modified_keys());
        out += " mi=" + join(std::move(modified_items));
        out += " ri=" + join(std::move(removed_items));
        {
            auto key_set_view = dict.key_set();
            auto key_set      = key_set_view.as_set();
            out += " klmt=" + std::to_string(us(key_set_view.last_modified_time()));
            out += " kv=" + keys_of(key_set.values());
            out += " ka=" + keys_of(key_set.added());
            out += " kr=" + keys_of(key_set.removed());
        }
        {
            std::vector<Int> named;
            for (const auto [key, child] : dict.items()) { named.push_back(key_int(key)); }
            for (const auto key : dict.added_keys()) { named.push_back(key_int(key)); }
            for (const auto key : dict.removed_keys()) { named.push_back(key_int(key)); }
            out += " c=" + contained(dict, std::move(named));
        }
        out += " vv=" + map_value(view.value());
        const auto delta = view.delta_value();
        if (!delta.has_value()) { out += " d=none"; }
        else
        {
            const auto bundle = delta.as_bundle();
            out += " d=r" + set_value(bundle.at("removed")) + "m" + map_value(bundle.at("modified"));
        }
        return out;
    }

    std::string dump_tsw(TSOutput &output, DateTime t)
    {
        auto view   = output.view(t);
        auto window = view.as_window();
        std::string out = "lmt=" + std::to_string(us(view.last_modified_time())) + " mod=" + std::to_string(view.modified()) +
                          " valid=" + std::to_string(view.valid()) + " allvalid=" + std::to_string(view.all_valid()) +
                          " n=" + std::to_string(window.size()) + " full=" + std::to_string(window.full());
        std::vector<std::string> values, times;
        for (const auto v : window.values()) { values.push_back(std::to_string(as_int(v))); }
        for (std::size_t i = 0; i < window.size(); ++i) { times.push_back(std::to_string(us(window.time_at(i)))); }
        out += " v=" + join(std::move(values), false) + " times=" + join(std::move(times), false);
        const auto data = window.data_view();
        out += " ev=" + (data.has_removed_value(t) ? std::to_string(as_int(data.removed_value(t))) : std::string{"-"});
        out += " clr=" + std::to_string(data.cleared(t));
        const auto delta = view.delta_value();
        out += " d=" + (delta.has_value() ? std::to_string(as_int(delta)) : std::string{"none"});
        return out;
    }

    std::string dump_tsl(TSOutput &output, DateTime t)
    {
        auto view = output.view(t);
        auto list = view.as_list();
        std::string out = "lmt=" + std::to_string(us(view.last_modified_time())) + " mod=" + std::to_string(view.modified()) +
                          " valid=" + std::to_string(view.valid()) + " allvalid=" + std::to_string(view.all_valid()) +
                          " n=" + std::to_string(list.size());
        std::vector<std::string> valid_items, modified_items, all_values;
        for (const auto [index, child] : list.items())
        {
            all_values.push_back(std::to_string(as_int(child.value())));
            if (child.valid()) { valid_items.push_back(std::to_string(index) + ":" + std::to_string(as_int(child.value()))); }
        }
        for (const auto [index, child] : list.modified_items())
        {
            modified_items.push_back(std::to_string(index) + ":" + std::to_string(as_int(child.value())));
        }
        out += " v=" + join(std::move(valid_items)) + " vv=" + join(std::move(all_values), false) + " m=" + join(std::move(modified_items));
        const auto delta = view.delta_value();
        if (!delta.has_value()) { out += " d=none"; }
        else { out += " d=" + map_value(delta); }
        return out;
    }

    template <typename SetLike>
    std::string slot_states(const SetLike &set)
    {
        std::string out = "cap=" + std::to_string(set.slot_capacity()) + " s=[";
        bool first = true;
        for (std::size_t slot = 0; slot < set.slot_capacity(); ++slot)
        {
            if (!set.slot_occupied(slot)) { continue; }
            out += (first ? "" : ",") + std::to_string(slot) + ":" + std::to_string(key_int(set.at_slot(slot))) +
                   (set.slot_live(slot) ? "L" : "P");
            first = false;
        }
        out += "] A=[";
        first = true;
        for (std::size_t slot = 0; slot < set.slot_capacity(); ++slot)
        {
            if (set.slot_added(slot)) { out += (first ? "" : ",") + std::to_string(slot); first = false; }
        }
        out += "] R=[";
        first = true;
        for (std::size_t slot = 0; slot < set.slot_capacity(); ++slot)
        {
            if (set.slot_removed(slot)) { out += (first ? "" : ",") + std::to_string(slot); first = false; }
        }
        return out + "]";
    }

    std::string dump_slots(TSOutput &output, Kind kind)
    {
        auto data = output.data_view();
        if (kind == Kind::TSS)
        {
            auto set = data.as_set();
            return slot_states(set);
        }
        if (kind == Kind::TSD)
        {
            auto dict    = data.as_dict();
            auto key_set = dict.key_set();
            std::string out = slot_states(key_set) + " M=[";
            bool first = true;
            for (std::size_t slot = 0; slot < dict.slot_capacity(); ++slot)
            {
                if (dict.slot_modified(slot)) { out += (first ? "" : ",") + std::to_string(slot); first = false; }
            }
            return out + "]";
        }
        return "-";
    }
}  // namespace

int main()
{
    std::ios::sync_with_stdio(false);
    auto       &registry = TypeRegistry::instance();
    const auto *int_meta = scalar_descriptor<Int>::value_meta();
    const auto *ts_int   = registry.ts(int_meta);
    // narrow key types (alignment < 8 -> bitmap slot store); registered like tests/cpp and the wiring layer do
    const auto *i32_meta  = registry.register_scalar<std::int32_t>("int32");
    const auto *date_meta = registry.register_scalar<Date>("date");
    const auto *f32_meta  = registry.register_scalar<float>("float32");
    auto key_meta_of = [&](const std::string &name, KeyType &type) -> const ValueTypeMetaData * {
        if (name == "i64") { type = KeyType::I64; return int_meta; }
        if (name == "i32") { type = KeyType::I32; return i32_meta; }
        if (name == "date") { type = KeyType::Date; return date_meta; }
        if (name == "f32") { type = KeyType::F32; return f32_meta; }
        return nullptr;
    };

    std::unique_ptr<TSOutput> output;
    Kind                      kind = Kind::None;
    std::string               line;
    while (std::getline(std::cin, line))
    {
        auto w = split(line);
        if (w.empty()) { std::cout << "\n"; continue; }
        const std::string &op = w[0];
        try
        {
            auto need = [&](Kind k, std::size_t args) { return kind == k && output != nullptr && w.size() == args + 1; };
            if (op == "case") { output.reset(); kind = Kind::None; g_key = KeyType::I64; std::cout << line << "\n"; }
            else if ((op == "tss" || op == "tsd" || op.rfind("tss:", 0) == 0 || op.rfind("tsd:", 0) == 0) && w.size() == 1)
            {
                KeyType     type = KeyType::I64;
                const auto *key_meta = key_meta_of(op.size() > 3 ? op.substr(4) : std::string{"i64"}, type);
                if (key_meta == nullptr) { throw BadOp{}; }
                const bool is_set = op[2] == 's';
                output = std::make_unique<TSOutput>(is_set ? *registry.tss(key_meta) : *registry.tsd(key_meta, ts_int));
                kind   = is_set ? Kind::TSS : Kind::TSD;
                g_key  = type;
                std::cout << "ok\n";
            }
            else if (op == "tsw" && w.size() == 3)
            {
                const auto period = nat(w[1]), min_period = nat(w[2]);
                if (period == 0) { throw BadOp{}; }
                g_key = KeyType::I64;
                const auto *meta = registry.tsw(int_meta, static_cast<std::size_t>(period), static_cast<std::size_t>(min_period));
                output = std::make_unique<TSOutput>(*meta);
                kind   = Kind::TSW;
                std::cout << "ok\n";
            }
            else if (op == "tsl" && w.size() == 2)
            {
                const auto size = nat(w[1]);
                if (size == 0 || size > 64) { throw BadOp{}; }
                g_key  = KeyType::I64;
                output = std::make_unique<TSOutput>(*registry.tsl(ts_int, static_cast<std::size_t>(size)));
                kind   = Kind::TSL;
                std::cout << "ok\n";
            }
            else if (op == "lset" && need(Kind::TSL, 3))
            {
                const auto t     = dt(nat(w[1]));
                const auto index = static_cast<std::size_t>(nat(w[2]));
                Value      value{Int{integer(w[3])}};
                auto       view  = output->view(t);
                auto       list  = view.as_list();
                auto       child = list.at(index);
                auto       mutation = child.begin_mutation(t);
                static_cast<void>(mutation.copy_value_from(value.view()));
                std::cout << "ok\n";
            }
            else if ((op == "add" || op == "rem") && need(Kind::TSS, 2))
            {
                const auto t    = dt(nat(w[1]));
                Value      key  = make_key(integer(w[2]));
                auto       view = output->view(t);
                auto       set  = view.as_set();
                auto       mutation = set.begin_mutation(t);
                const bool changed  = op == "add" ? mutation.add(key.view()) : mutation.remove(key.view());
                std::cout << (changed ? "1" : "0") << "\n";
            }
            else if ((op == "clear" || op == "touch") && need(Kind::TSS, 1))
            {
                const auto t    = dt(nat(w[1]));
                auto       view = output->view(t);
                auto       set  = view.as_set();
                auto       mutation = set.begin_mutation(t);
                if (op == "clear") { mutation.clear(); } else { mutation.touch(); }
                std::cout << "ok\n";
            }
            else if ((op == "clear" || op == "touch") && need(Kind::TSD, 1))
            {
                const auto t    = dt(nat(w[1]));
                auto       view = output->view(t);
                auto       dict = view.as_dict();
                auto       mutation = dict.begin_mutation(t);
                if (op == "clear") { mutation.clear(); } else { mutation.touch(); }
                std::cout << "ok\n";
            }
            else if (op == "set" && need(Kind::TSD, 3))
            {
                const auto t = dt(nat(w[1]));
                Value      key = make_key(integer(w[2]));
                Value      value{Int{integer(w[3])}};
                auto       view = output->view(t);
                auto       dict = view.as_dict();
                auto       mutation = dict.begin_mutation(t);
                mutation.set(key.view(), value.view());
                std::cout << "ok\n";
            }
            else if (op == "at" && need(Kind::TSD, 2))
            {
                const auto t = dt(nat(w[1]));
                Value      key = make_key(integer(w[2]));
                auto       view = output->view(t);
                auto       dict = view.as_dict();
                auto       mutation = dict.begin_mutation(t);
                static_cast<void>(mutation.at(key.view()));
                std::cout << "ok\n";
            }
            else if (op == "erase" && need(Kind::TSD, 2))
            {
                const auto t = dt(nat(w[1]));
                Value      key = make_key(integer(w[2]));
                auto       view = output->view(t);
                auto       dict = view.as_dict();
                auto       mutation = dict.begin_mutation(t);
                std::cout << (mutation.erase(key.view()) ? "1" : "0") << "\n";
            }
            else if (op == "reserve" && (need(Kind::TSS, 2) || need(Kind::TSD, 2)))
            {
                const auto t   = dt(nat(w[1]));
                const auto cap = nat(w[2]);
                if (cap > 4096) { throw BadOp{}; }
                auto view = output->view(t);
                if (kind == Kind::TSS)
                {
                    auto set      = view.as_set();
                    auto mutation = set.begin_mutation(t);
                    mutation.reserve(static_cast<std::size_t>(cap));
                }
                else
                {
                    auto dict     = view.as_dict();
                    auto mutation = dict.begin_mutation(t);
                    mutation.reserve(static_cast<std::size_t>(cap));
                }
                std::cout << "ok\n";
            }
            else if (op == "has" && (need(Kind::TSS, 2) || need(Kind::TSD, 2)))
            {
                const auto t    = dt(nat(w[1]));
                Value      key  = make_key(integer(w[2]));
                auto       view = output->view(t);
                const bool has  = kind == Kind::TSS ? view.as_set().contains(key.view()) : view.as_dict().contains(key.view());
                std::cout << (has ? "1" : "0") << "\n";
            }
            else if (op == "push" && need(Kind::TSW, 2))
            {
                const auto t = dt(nat(w[1]));
                Value      value{Int{integer(w[2])}};
                auto       view   = output->view(t);
                auto       window = view.as_window();
                auto       mutation = window.begin_mutation(t);
                mutation.push(value.view());
                std::cout << "ok\n";
            }
            else if (op == "wclear" && need(Kind::TSW, 1))
            {
                const auto t = dt(nat(w[1]));
                auto       view   = output->view(t);
                auto       window = view.as_window();
                auto       mutation = window.begin_mutation(t);
                mutation.clear();
                std::cout << "ok\n";
            }
            else if (op == "wclearpush" && need(Kind::TSW, 2))
            {
                const auto t = dt(nat(w[1]));
                Value      value{Int{integer(w[2])}};
                auto       view   = output->view(t);
                auto       window = view.as_window();
                auto       mutation = window.begin_mutation(t);
                mutation.clear();
                mutation.push(value.view());
                std::cout << "ok\n";
            }
            else if (op == "dump" && w.size() == 2 && output != nullptr)
            {
                const auto t = dt(nat(w[1]));
                std::cout << (kind == Kind::TSS   ? dump_tss(*output, t)
                              : kind == Kind::TSD ? dump_tsd(*output, t)
                              : kind == Kind::TSL ? dump_tsl(*output, t)
                                                  : dump_tsw(*output, t))
                          << "\n";
            }
            else if (op == "slots" && w.size() == 1 && output != nullptr) { std::cout << dump_slots(*output, kind) << "\n"; }
            else { std::cout << "bad-op\n"; }
        }
        catch (const BadOp &) { std::cout << "bad-op\n"; }
        catch (const std::invalid_argument &) { std::cout << "err:invalid-arg\n"; }
        catch (const std::out_of_range &) { std::cout << "err:range\n"; }
        catch (const std::length_error &) { std::cout << "err:range\n"; }
        catch (const std::logic_error &) { std::cout << "err:logic\n"; }
        catch (const std::exception &) { std::cout << "err:other\n"; }
    }
    return 0;
}
