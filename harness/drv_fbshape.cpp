// hgv_fbshape: structured-feedback stream of C08.
//
// Graph of every case (S = the chosen shape):
//     scripted writer (source, Out<S>) --> feedback sink          [stdlib::feedback<S>]
//     scripted writer                  --> producer recorder      (logs the delta the producer exposes)
//     feedback source                  --> reader recorder        (logs the delta + full value a reader sees)
//
// Line protocol (exactly one output line per input line):
//   case <n>                          -> "case <n>"
//   shape <s> [init <writes>|{}] [loop] [probe <t>]
//                                     -> "ok"      s in ts tsb2 tsb3 tsbn tsl2 tss tsd tsbs (tsbs = TSB{a:TS<Int>, s:TSS<Int>})
//                                         init {}  : the declared initial delta is the canonical EMPTY delta of the shape
//                                                    (not for ts: a typed-null initial delta is rejected at wiring)
//                                         loop     : (ts tss tsd) self loop instead of the line:
//                                                      x (scripted TS<Int>) --> body(x, passive(fb())) --> feedback sink
//                                                    the body has the DEFAULT validity gate (both inputs valid) and computes
//                                                      ts : out = prev + x      tss : out = prev U {x}      tsd : out = prev (+) {x % 3 : x}
//                                                    `c` lines are then  c 0=<x>  (x >= 0) | c -   and  w = the body's delta
//                                         probe t  : the recorder on the feedback port is ALSO evaluated at time t (it schedules
//                                                    itself), so the port's validity is visible without a tick
//   c <writes> | c -                  -> "t=<time> cyc=<0|1> w=<delta|-> r=<delta|-> v=<value|invalid|->"
//                                         the i-th `c` line is the cycle at time MIN_ST + i (consecutive smallest steps);
//                                         cyc: the engine ran a cycle at that time (lifecycle observer);
//                                         w: delta seen by the recorder on the producer ("-" = did not tick);
//                                         r: delta seen by the recorder on the feedback port ("-" = port not modified);
//                                         v: value of the feedback port when its recorder was evaluated (tick or probe),
//                                            "invalid" when the port is not valid, "-" = recorder not evaluated
//   run                               -> "ok extra=<engine cycles at times not listed>" | "err:<class>"
//                                         the last `c` line is the last cycle that can run (end_time = its time + MIN_TD,
//                                         exclusive): a write in it has no delivery cycle
//
// REF-selected producer (C08 x C13):
//   shape <s> sel|swc                 -> "ok"      s in tss tsd (sel, swc) tsb2 tsl2 (sel); the feedback's producer port is
//                                         sel : stdlib::if_then_else(cond, A, B)                    (publishes a REF<S>)
//                                         swc : stdlib::switch_(key, {1: pass-A, 0: pass-B}, A, B)  (branch graphs forward an argument)
//                                         over two INDEPENDENTLY scripted writers A and B of shape S and a scripted TS<Bool> cond
//   c [s=a|s=b] [a=<writes>] [b=<writes>] | c -     (at least one part, in this order)
//                                     -> "t=<time> cyc=<0|1> w=<delta|-> r=<delta|-> v=<value|invalid|-> pv=<value|invalid|->"
//                                         s=a / s=b : cond ticks with true (select A) / false (select B) - also with the value it has
//                                         w / pv    : what the recorder on the PRODUCER PORT sees when the port ticked: the tick through
//                                                     added()/removed() (TSS), modified_items()/removed_keys() (TSD), modified() per
//                                                     child (TSB/TSL) - never delta_value() - and the port's full value;
//                                                     a tick of the port while it is NOT valid is not logged (not a write)
//
// writes : comma separated   p=v  (position p: TS 0; TSB field index, nested TSBs flattened; TSL element index; TSD key)
//                            +e / -e (TSS add / remove element e)        -k (TSD erase key k)
//                            tsbs: 0=v (field a), +e / -e (field s); an initial delta may carry -e / -k too
// delta  : "{" sorted tokens "}"   p=v  (position ticked with value v)   +e (added)   -e / -k (removed)
//                                  tsbs: s (field s ticked) before its +e / -e
// value  : "{" sorted tokens "}"   p=v  (valid positions)  /  e (TSS members) / tsbs: s (field s valid) before its members
#include "hgv_common.h"

#include <hgraph/lib/std/std_operators.h>
#include <hgraph/lib/std/operators/control.h>
#include <hgraph/runtime/runtime.h>
#include <hgraph/types/graph_wiring.h>
#include <hgraph/types/static_node.h>

#include <algorithm>
#include <map>
#include <optional>
#include <set>
#include <stdexcept>

using namespace hgraph;
using namespace hgv;

namespace
{
    // ------------------------------------------------------------------ shapes
    using S_ts   = TS<Int>;
    using S_tsb2 = UnNamedTSB<Field<"a", TS<Int>>, Field<"b", TS<Int>>>;
    using S_tsb3 = UnNamedTSB<Field<"a", TS<Int>>, Field<"b", TS<Int>>, Field<"c", TS<Int>>>;
    using S_in   = UnNamedTSB<Field<"x", TS<Int>>, Field<"y", TS<Int>>>;
    using S_tsbn = UnNamedTSB<Field<"a", TS<Int>>, Field<"n", S_in>>;
    using S_tsl2 = TSL<TS<Int>, 2>;
    using S_tss  = TSS<Int>;
    using S_tsd  = TSD<Int, TS<Int>>;
    using S_tsbs = UnNamedTSB<Field<"a", TS<Int>>, Field<"s", TSS<Int>>>;   // a bundle WITH a collection field

    // one write token
    struct W { char op; std::int64_t p; std::int64_t v; };   // op: '=' set, '+' add, '-' remove
    using Writes = std::vector<W>;

    std::vector<std::optional<Writes>> g_scripts[3];            // per cycle: [0] the producer, [1] / [2] targets A / B of the selection
    std::vector<std::optional<Writes>> &g_script = g_scripts[0];
    std::vector<std::optional<bool>>   g_cond;                  // per cycle: the selection's condition ticks with this value
    char                               g_sel = 0;               // 0 direct producer; 'i' if_then_else; 's' switch_
    std::optional<Writes>              g_init;          // declared initial delta (an empty list = the canonical empty delta)
    bool                               g_loop  = false; // self loop through a validity-gated body instead of the line
    std::int64_t                       g_probe = -1;    // time at which the reader recorder is evaluated without a tick
    constexpr std::int64_t             k_start = 1;   // MIN_ST

    struct Rec { std::string delta, value; };
    std::map<std::int64_t, Rec> g_rec[2];           // [0] producer, [1] reader: time -> what was seen
    std::set<std::int64_t>      g_cycles;

    std::string braces(std::vector<std::pair<std::int64_t, std::string>> toks)
    {
        std::stable_sort(toks.begin(), toks.end(), [](const auto &a, const auto &b) { return a.first < b.first; });
        std::string s = "{";
        for (std::size_t i = 0; i < toks.size(); ++i) { s += (i ? "," : "") + toks[i].second; }
        return s + "}";
    }
    using Toks = std::vector<std::pair<std::int64_t, std::string>>;
    std::string pv(std::int64_t p, std::int64_t v) { return std::to_string(p) + "=" + std::to_string(v); }

    // ------------------------------------------------------------------ per shape: write, describe, initial delta
    template <typename S> struct Shape;

    template <> struct Shape<S_ts>
    {
        static bool ok(const W &w, bool) { return w.op == '=' && w.p == 0; }
        static void write(const Out<S_ts> &out, const Writes &ws) { for (const auto &w : ws) { out.set(Int{w.v}); } }
        template <typename I> static void describe(const I &in, Toks &d, Toks &v)
        {
            if (in.modified()) { d.emplace_back(0, pv(0, in.value())); }
            if (in.valid()) { v.emplace_back(0, pv(0, in.value())); }
        }
        static Value init(const Writes &ws) { return Value{Int{ws.back().v}}; }
    };

    template <typename I> void leaf(const I &in, std::int64_t p, Toks &d, Toks &v)
    {
        // a child re-bound by a REF selection onto a child that is not valid is marked modified without a value: no tick
        if (in.modified() && (g_sel == 0 || in.valid())) { d.emplace_back(p, pv(p, in.value())); }
        if (in.valid()) { v.emplace_back(p, pv(p, in.value())); }
    }
    std::optional<Int> pick(const Writes &ws, std::int64_t p)
    {
        std::optional<Int> r;
        for (const auto &w : ws) { if (w.p == p) { r = Int{w.v}; } }
        return r;
    }

    template <> struct Shape<S_tsb2>
    {
        static bool ok(const W &w, bool) { return w.op == '=' && w.p >= 0 && w.p < 2; }
        static void write(const Out<S_tsb2> &out, const Writes &ws)
        {
            for (const auto &w : ws)
            {
                if (w.p == 0) { out.field<"a">().set(Int{w.v}); }
                else { out.field<"b">().set(Int{w.v}); }
            }
        }
        template <typename I> static void describe(const I &in, Toks &d, Toks &v)
        {
            leaf(in.template field<"a">(), 0, d, v);
            leaf(in.template field<"b">(), 1, d, v);
        }
        static Value init(const Writes &ws) { return tsb_delta<S_tsb2>(pick(ws, 0), pick(ws, 1)); }
    };

    template <> struct Shape<S_tsb3>
    {
        static bool ok(const W &w, bool) { return w.op == '=' && w.p >= 0 && w.p < 3; }
        static void write(const Out<S_tsb3> &out, const Writes &ws)
        {
            for (const auto &w : ws)
            {
                if (w.p == 0) { out.field<"a">().set(Int{w.v}); }
                else if (w.p == 1) { out.field<"b">().set(Int{w.v}); }
                else { out.field<"c">().set(Int{w.v}); }
            }
        }
        template <typename I> static void describe(const I &in, Toks &d, Toks &v)
        {
            leaf(in.template field<"a">(), 0, d, v);
            leaf(in.template field<"b">(), 1, d, v);
            leaf(in.template field<"c">(), 2, d, v);
        }
        static Value init(const Writes &ws) { return tsb_delta<S_tsb3>(pick(ws, 0), pick(ws, 1), pick(ws, 2)); }
    };

    template <> struct Shape<S_tsbn>
    {
        static bool ok(const W &w, bool) { return w.op == '=' && w.p >= 0 && w.p < 3; }
        static void write(const Out<S_tsbn> &out, const Writes &ws)
        {
            for (const auto &w : ws)
            {
                if (w.p == 0) { out.field<"a">().set(Int{w.v}); }
                else if (w.p == 1) { out.field<"n">().field<"x">().set(Int{w.v}); }
                else { out.field<"n">().field<"y">().set(Int{w.v}); }
            }
        }
        template <typename I> static void describe(const I &in, Toks &d, Toks &v)
        {
            leaf(in.template field<"a">(), 0, d, v);
            auto n = in.template field<"n">();
            leaf(n.template field<"x">(), 1, d, v);
            leaf(n.template field<"y">(), 2, d, v);
        }
        static Value init(const Writes &ws)
        {
            return tsb_delta<S_tsbn>(pick(ws, 0), tsb_delta<S_in>(pick(ws, 1), pick(ws, 2)));
        }
    };

    template <> struct Shape<S_tsl2>
    {
        static bool ok(const W &w, bool) { return w.op == '=' && w.p >= 0 && w.p < 2; }
        static void write(const Out<S_tsl2> &out, const Writes &ws)
        {
            for (const auto &w : ws) { out[static_cast<std::size_t>(w.p)].set(Int{w.v}); }
        }
        template <typename I> static void describe(const I &in, Toks &d, Toks &v)
        {
            leaf(in[0], 0, d, v);
            leaf(in[1], 1, d, v);
        }
        static Value init(const Writes &ws) { return list_delta<TS<Int>>(std::vector<std::optional<Int>>{pick(ws, 0), pick(ws, 1)}); }
    };

    template <> struct Shape<S_tss>
    {
        static bool ok(const W &w, bool) { return w.op == '+' || w.op == '-'; }
        static void write(const Out<S_tss> &out, const Writes &ws)
        {
            for (const auto &w : ws)
            {
                if (w.op == '+') { (void)out.add(Int{w.p}); }
                else { (void)out.remove(Int{w.p}); }
            }
        }
        template <typename I> static void describe(const I &in, Toks &d, Toks &v)
        {
            for (const auto &e : in.added()) { d.emplace_back(e, "+" + std::to_string(e)); }
            for (const auto &e : in.removed()) { d.emplace_back(e, "-" + std::to_string(e)); }
            if (in.valid()) { for (const auto &e : in.values()) { v.emplace_back(e, std::to_string(e)); } }
        }
        static Value init(const Writes &ws)
        {
            std::vector<Int> a, r;
            for (const auto &w : ws) { (w.op == '+' ? a : r).push_back(Int{w.p}); }
            return set_delta<Int>(a, r);
        }
    };

    template <> struct Shape<S_tsd>
    {
        static bool ok(const W &w, bool) { return w.op == '=' || w.op == '-'; }
        static void write(const Out<S_tsd> &out, const Writes &ws)
        {
            for (const auto &w : ws)
            {
                if (w.op == '=') { out.set(Int{w.p}, Int{w.v}); }
                else { (void)out.erase(Int{w.p}); }
            }
        }
        template <typename I> static void describe(const I &in, Toks &d, Toks &v)
        {
            for (const auto &[key, child] : in.modified_items())
            {
                const Int k = key.template checked_as<Int>();
                if (child.valid()) { d.emplace_back(k, pv(k, child.value())); }
                else { d.emplace_back(k, std::to_string(k) + "=?"); }
            }
            for (const auto &key : in.removed_keys())
            {
                const Int k = key.template checked_as<Int>();
                d.emplace_back(k, "-" + std::to_string(k));
            }
            if (in.valid())
            {
                for (const auto &[key, child] : in.valid_items())
                {
                    const Int k = key.template checked_as<Int>();
                    v.emplace_back(k, pv(k, child.value()));
                }
            }
        }
        static Value init(const Writes &ws)
        {
            std::map<Int, Int> m;
            std::vector<Int>   r;
            for (const auto &w : ws)
            {
                if (w.op == '=') { m[Int{w.p}] = Int{w.v}; }
                else { r.push_back(Int{w.p}); }
            }
            return static_node_detail::build_dict_delta<Int, TS<Int>>(m, r);
        }
    };

    // TSB{a : TS<Int>, s : TSS<Int>}: token keys  a -> -2,  "s ticked / valid" marker -> -1,  set element e -> e
    template <> struct Shape<S_tsbs>
    {
        static bool ok(const W &w, bool) { return (w.op == '=' && w.p == 0) || w.op == '+' || w.op == '-'; }
        static void write(const Out<S_tsbs> &out, const Writes &ws)
        {
            for (const auto &w : ws)
            {
                if (w.op == '=') { out.field<"a">().set(Int{w.v}); }
                else if (w.op == '+') { (void)out.field<"s">().add(Int{w.p}); }
                else { (void)out.field<"s">().remove(Int{w.p}); }
            }
        }
        template <typename I> static void describe(const I &in, Toks &d, Toks &v)
        {
            leaf(in.template field<"a">(), 0, d, v);
            for (auto *t : {&d, &v}) { for (auto &e : *t) { e.first = -2; } }
            auto s = in.template field<"s">();
            if (s.modified())
            {
                d.emplace_back(-1, "s");
                for (const auto &e : s.added()) { d.emplace_back(e, "+" + std::to_string(e)); }
                for (const auto &e : s.removed()) { d.emplace_back(e, "-" + std::to_string(e)); }
            }
            if (s.valid())
            {
                v.emplace_back(-1, "s");
                for (const auto &e : s.values()) { v.emplace_back(e, std::to_string(e)); }
            }
        }
        static Value init(const Writes &ws)
        {
            std::optional<Int> a;
            std::vector<Int>   add, rem;
            for (const auto &w : ws)
            {
                if (w.op == '=') { a = Int{w.v}; }
                else { (w.op == '+' ? add : rem).push_back(Int{w.p}); }
            }
            // a field the author leaves out keeps its canonical default: typed null for `a`, the EMPTY set delta for `s`
            if (add.empty() && rem.empty()) { return tsb_delta<S_tsbs>(a, std::nullopt); }
            return tsb_delta<S_tsbs>(a, set_delta<Int>(add, rem));
        }
    };

    // ------------------------------------------------------------------ harness nodes
    std::size_t next_write(std::size_t from)
    {
        while (from < g_script.size() && !g_script[from].has_value()) { ++from; }
        return from;
    }

    template <typename S>
    struct Writer
    {
        static constexpr auto name = "fbshape_writer";
        static void start(NodeScheduler sched)
        {
            const std::size_t i = next_write(0);
            if (i < g_script.size()) { sched.schedule(dt(k_start + static_cast<std::int64_t>(i))); }
        }
        static void eval(NodeScheduler sched, Out<S> out)
        {
            const std::int64_t now = us(sched.now());
            const auto         i   = static_cast<std::size_t>(now - k_start);
            if (i < g_script.size() && g_script[i].has_value()) { Shape<S>::write(out, *g_script[i]); }
            const std::size_t j = next_write(i + 1);
            if (j < g_script.size()) { sched.schedule(dt(k_start + static_cast<std::int64_t>(j))); }
        }
    };

    // target W (1 = A, 2 = B) of the selection: same as Writer, own script
    template <typename S, int W>
    struct TargetWriter
    {
        static constexpr auto name = W == 1 ? "fbshape_target_a" : "fbshape_target_b";
        static std::size_t next(std::size_t from)
        {
            while (from < g_scripts[W].size() && !g_scripts[W][from].has_value()) { ++from; }
            return from;
        }
        static void start(NodeScheduler sched)
        {
            const std::size_t i = next(0);
            if (i < g_scripts[W].size()) { sched.schedule(dt(k_start + static_cast<std::int64_t>(i))); }
        }
        static void eval(NodeScheduler sched, Out<S> out)
        {
            const std::int64_t now = us(sched.now());
            const auto         i   = static_cast<std::size_t>(now - k_start);
            if (i < g_scripts[W].size() && g_scripts[W][i].has_value()) { Shape<S>::write(out, *g_scripts[W][i]); }
            const std::size_t j = next(i + 1);
            if (j < g_scripts[W].size()) { sched.schedule(dt(k_start + static_cast<std::int64_t>(j))); }
        }
    };

    std::size_t next_cond(std::size_t from)
    {
        while (from < g_cond.size() && !g_cond[from].has_value()) { ++from; }
        return from;
    }

    // the selection's condition: TS<Bool> (if_then_else) / TS<Int> 1|0 (switch_ key)
    template <typename T>
    struct CondWriter
    {
        static constexpr auto name = "fbshape_cond";
        static void start(NodeScheduler sched)
        {
            const std::size_t i = next_cond(0);
            if (i < g_cond.size()) { sched.schedule(dt(k_start + static_cast<std::int64_t>(i))); }
        }
        static void eval(NodeScheduler sched, Out<TS<T>> out)
        {
            const std::int64_t now = us(sched.now());
            const auto         i   = static_cast<std::size_t>(now - k_start);
            if (i < g_cond.size() && g_cond[i].has_value()) { out.set(T{*g_cond[i] ? 1 : 0}); }
            const std::size_t j = next_cond(i + 1);
            if (j < g_cond.size()) { sched.schedule(dt(k_start + static_cast<std::int64_t>(j))); }
        }
    };

    // switch_ branches: forward one of the two arguments (the branch's output IS the argument)
    template <typename S> struct PassA
    {
        static constexpr auto name = "fbshape_pass_a";
        static auto compose(Wiring &, Port<S> a, Port<S>) { return a; }
    };
    template <typename S> struct PassB
    {
        static constexpr auto name = "fbshape_pass_b";
        static auto compose(Wiring &, Port<S>, Port<S> b) { return b; }
    };

    template <typename S>
    struct Recorder
    {
        static constexpr auto name = "fbshape_recorder";
        static void start(NodeScheduler sched)
        {
            if (g_probe >= k_start) { sched.schedule(dt(g_probe)); }
        }
        static void eval(DateTime now, Scalar<"who", Int> who, In<"x", S, InputValidity::Unchecked> x)
        {
            const bool ticked = x.modified();
            if (!ticked && !(who.value() && us(now) == g_probe)) { return; }   // only the reader recorder is probed
            // REF-selected producer port: a re-bind onto a target that is not valid marks the port modified without a
            // value; the feedback sink (valid_inputs = {ts}) is not evaluated then - not a write
            if (g_sel != 0 && who.value() == 0 && !x.valid()) { return; }
            Toks d, v;
            if (ticked || x.valid()) { Shape<S>::describe(x, d, v); }
            g_rec[who.value() ? 1 : 0][us(now)] =
                Rec{ticked ? braces(d) : std::string("-"), x.valid() ? braces(v) : std::string("invalid")};
        }
    };

    // ------------------------------------------------------------------ validity-gated loop bodies (default gate: ALL inputs valid)
    template <typename S> struct Body;
    template <> struct Body<S_ts>
    {
        static constexpr auto name = "fbshape_body_ts";
        static void eval(In<"x", TS<Int>> x, In<"prev", S_ts> prev, Out<S_ts> out) { out.set(Int{prev.value() + x.value()}); }
    };
    template <> struct Body<S_tss>
    {
        static constexpr auto name = "fbshape_body_tss";
        static void eval(In<"x", TS<Int>> x, In<"prev", S_tss> prev, Out<S_tss> out)
        {
            for (const auto &e : prev.values()) { (void)out.add(Int{e}); }
            (void)out.add(Int{x.value()});
        }
    };
    template <> struct Body<S_tsd>
    {
        static constexpr auto name = "fbshape_body_tsd";
        static void eval(In<"x", TS<Int>> x, In<"prev", S_tsd> prev, Out<S_tsd> out)
        {
            for (const auto &[key, child] : prev.valid_items()) { out.set(key.template checked_as<Int>(), Int{child.value()}); }
            out.set(Int{x.value() % 3}, Int{x.value()});
        }
    };

    struct Obs : LifecycleObserver
    {
        void on_before_graph_evaluation(const GraphView &g) override
        {
            if (g.is_root()) { g_cycles.insert(us(g.evaluation_time())); }
        }
    };

    template <typename S>
    void run_shape()
    {
        Wiring w{WiringKind::TopLevel, WiringOptions{}};
        auto   fb   = g_init ? stdlib::feedback<S>(w, Shape<S>::init(*g_init)) : stdlib::feedback<S>(w);
        auto   prod = wire<Writer<S>>(w).template as<S>();
        fb(prod);
        wire<Recorder<S>>(w, Int{0}, prod);
        wire<Recorder<S>>(w, Int{1}, fb());
        GraphBuilder gb = std::move(w).finish();
        Obs          obs;
        GraphExecutorBuilder eb;
        // end_time is exclusive (executor.cpp run_storage): the last listed cycle is the last one that can run
        const std::int64_t   end = k_start + static_cast<std::int64_t>(g_script.size());
        eb.graph_builder(std::move(gb)).mode(GraphExecutorMode::Simulation).start_time(dt(k_start)).end_time(dt(end));
        eb.add_lifecycle_observer(&obs);
        GraphExecutorValue executor = eb.make_executor();
        executor.view().run();
    }

    template <typename S>
    void run_loop()
    {
        Wiring w{WiringKind::TopLevel, WiringOptions{}};
        auto   fb  = g_init ? stdlib::feedback<S>(w, Shape<S>::init(*g_init)) : stdlib::feedback<S>(w);
        auto   x   = wire<Writer<S_ts>>(w).template as<S_ts>();
        auto   acc = wire<Body<S>>(w, x, passive(fb())).template as<S>();
        fb(acc);
        wire<Recorder<S>>(w, Int{0}, acc);
        wire<Recorder<S>>(w, Int{1}, fb());
        GraphBuilder gb = std::move(w).finish();
        Obs          obs;
        GraphExecutorBuilder eb;
        const std::int64_t   end = k_start + static_cast<std::int64_t>(g_script.size());
        eb.graph_builder(std::move(gb)).mode(GraphExecutorMode::Simulation).start_time(dt(k_start)).end_time(dt(end));
        eb.add_lifecycle_observer(&obs);
        GraphExecutorValue executor = eb.make_executor();
        executor.view().run();
    }

    // the feedback's producer port is a REF selection between two independently written collections
    template <typename S>
    void run_sel()
    {
        Wiring w{WiringKind::TopLevel, WiringOptions{}};
        auto   fb = stdlib::feedback<S>(w);
        auto   a  = wire<TargetWriter<S, 1>>(w).template as<S>();
        auto   b  = wire<TargetWriter<S, 2>>(w).template as<S>();
        Port<S> prod = [&] {
            if (g_sel == 'i')
            {
                auto c = wire<CondWriter<Bool>>(w).template as<TS<Bool>>();
                return wire<stdlib::if_then_else>(w, c, a, b).template as<S>();
            }
            auto                key = wire<CondWriter<Int>>(w).template as<TS<Int>>();
            stdlib::SwitchCases cases;
            cases.cases.push_back(stdlib::SwitchCase{.key = Value{Int{1}}, .branch = fn<PassA<S>>()});
            cases.cases.push_back(stdlib::SwitchCase{.key = Value{Int{0}}, .branch = fn<PassB<S>>()});
            return wire<stdlib::switch_>(w, key, std::move(cases), a, b).template as<S>();
        }();
        fb(prod);
        wire<Recorder<S>>(w, Int{0}, prod);
        wire<Recorder<S>>(w, Int{1}, fb());
        GraphBuilder gb = std::move(w).finish();
        Obs          obs;
        GraphExecutorBuilder eb;
        const std::int64_t   end = k_start + static_cast<std::int64_t>(g_cond.size());
        eb.graph_builder(std::move(gb)).mode(GraphExecutorMode::Simulation).start_time(dt(k_start)).end_time(dt(end));
        eb.add_lifecycle_observer(&obs);
        GraphExecutorValue executor = eb.make_executor();
        executor.view().run();
    }

    std::string g_shape;
    bool        g_bad = false;

    bool parse_writes(const std::string &text, Writes &out)
    {
        std::istringstream is(text);
        std::string        tok;
        while (std::getline(is, tok, ','))
        {
            if (tok.empty()) { return false; }
            try
            {
                if (tok[0] == '+' || tok[0] == '-')
                {
                    std::size_t used = 0;
                    const auto  e    = std::stoll(tok.substr(1), &used);
                    if (used + 1 != tok.size() || e < 0) { return false; }
                    out.push_back(W{tok[0], e, 0});
                }
                else
                {
                    const auto eq = tok.find('=');
                    if (eq == std::string::npos || eq == 0) { return false; }
                    std::size_t u1 = 0, u2 = 0;
                    const auto  p = std::stoll(tok.substr(0, eq), &u1);
                    const auto  v = std::stoll(tok.substr(eq + 1), &u2);
                    if (u1 != eq || u2 + eq + 1 != tok.size() || p < 0) { return false; }
                    out.push_back(W{'=', p, v});
                }
            }
            catch (...) { return false; }
        }
        // one token per position and cycle (tsbs: field a and the elements of s are different positions)
        std::set<std::int64_t> seen;
        for (const auto &w : out) { if (!seen.insert(g_shape == "tsbs" && w.op == '=' ? -1 : w.p).second) { return false; } }
        return !out.empty();
    }

    template <typename S> bool all_ok(const Writes &ws, bool init)
    {
        for (const auto &w : ws) { if (!Shape<S>::ok(w, init)) { return false; } }
        return true;
    }

    bool shape_ok(const Writes &ws, bool init)
    {
        if (g_shape == "ts") { return all_ok<S_ts>(ws, init) ; }
        if (g_shape == "tsb2") { return all_ok<S_tsb2>(ws, init); }
        if (g_shape == "tsb3") { return all_ok<S_tsb3>(ws, init); }
        if (g_shape == "tsbn") { return all_ok<S_tsbn>(ws, init); }
        if (g_shape == "tsl2") { return all_ok<S_tsl2>(ws, init); }
        if (g_shape == "tss") { return all_ok<S_tss>(ws, init); }
        if (g_shape == "tsd") { return all_ok<S_tsd>(ws, init); }
        if (g_shape == "tsbs") { return all_ok<S_tsbs>(ws, init); }
        return false;
    }

    std::string classify(const std::string &what)
    {
        std::cerr << "fbshape: " << what << "\n";
        return "err:other";
    }
}  // namespace

int main()
{
    stdlib::register_standard_operators();
    std::string              line;
    std::vector<std::string> pending;   // output slots of the current case (filled at `run`)
    std::vector<int>         cyc_slot;  // index into `pending` of every `c` line

    auto flush = [&] {
        for (const auto &p : pending) { std::cout << p << "\n"; }
        pending.clear();
        cyc_slot.clear();
    };
    auto reset = [&] {
        for (auto &sc : g_scripts) { sc.clear(); }
        g_cond.clear();
        g_sel = 0;
        g_init.reset();
        g_loop  = false;
        g_probe = -1;
        g_shape.clear();
        g_bad = false;
        for (auto &r : g_rec) { r.clear(); }
        g_cycles.clear();
    };

    while (std::getline(std::cin, line))
    {
        const auto ws = split(line);
        if (ws.empty()) { pending.push_back(""); continue; }
        if (ws[0] == "case" && ws.size() == 2)
        {
            flush();
            reset();
            pending.push_back("case " + ws[1]);
        }
        else if (ws[0] == "shape" && ws.size() >= 2 && g_shape.empty() && g_script.empty())
        {
            static const std::set<std::string> shapes{"ts", "tsb2", "tsb3", "tsbn", "tsl2", "tss", "tsd", "tsbs"};
            if (!shapes.count(ws[1])) { pending.push_back("bad-op"); continue; }
            g_shape = ws[1];
            // options in this order: [init <writes>|{}] [loop] [probe <t>]    |    sel|swc alone
            std::size_t i  = 2;
            bool        ok = true;
            if (ws.size() == 3 && (ws[2] == "sel" || ws[2] == "swc"))
            {
                // switch_ forwards a reference only for the keyed shapes (a TSB / TSL output of a new branch starts not valid)
                if (g_shape == "tss" || g_shape == "tsd" || (ws[2] == "sel" && (g_shape == "tsb2" || g_shape == "tsl2")))
                {
                    g_sel = ws[2] == "sel" ? 'i' : 's';
                    pending.push_back("ok");
                }
                else
                {
                    g_shape.clear();
                    pending.push_back("bad-op");
                }
                continue;
            }
            if (i + 1 < ws.size() && ws[i] == "init")
            {
                Writes in;
                if (ws[i + 1] == "{}") { ok = g_shape != "ts"; }
                else { ok = parse_writes(ws[i + 1], in) && shape_ok(in, true); }
                if (ok) { g_init = in; }
                i += 2;
            }
            if (ok && i < ws.size() && ws[i] == "loop")
            {
                ok     = g_shape == "ts" || g_shape == "tss" || g_shape == "tsd";
                g_loop = true;
                ++i;
            }
            if (ok && i + 1 < ws.size() && ws[i] == "probe")
            {
                try
                {
                    std::size_t used = 0;
                    g_probe          = std::stoll(ws[i + 1], &used);
                    ok               = used == ws[i + 1].size() && g_probe >= k_start && g_probe < 1000;
                }
                catch (...) { ok = false; }
                i += 2;
            }
            if (!ok || i != ws.size())
            {
                g_shape.clear();
                g_init.reset();
                g_loop  = false;
                g_probe = -1;
                pending.push_back("bad-op");
                continue;
            }
            pending.push_back("ok");
        }
        else if (ws[0] == "c" && g_sel != 0 && ws.size() >= 2 && ws.size() <= 4 && !g_shape.empty())
        {
            // c [s=a|s=b] [a=<writes>] [b=<writes>] | c -
            std::optional<bool>   cond;
            std::optional<Writes> wa, wb;
            bool                  ok = true;
            if (!(ws.size() == 2 && ws[1] == "-"))
            {
                int stage = 0;   // parts in the order s, a, b
                for (std::size_t i = 1; ok && i < ws.size(); ++i)
                {
                    const std::string &t = ws[i];
                    if (t == "s=a" || t == "s=b")
                    {
                        ok    = stage < 1;
                        stage = 1;
                        cond  = t == "s=a";
                    }
                    else if (t.size() > 2 && (t[0] == 'a' || t[0] == 'b') && t[1] == '=')
                    {
                        const int st = t[0] == 'a' ? 2 : 3;
                        ok           = stage < st;
                        stage        = st;
                        Writes in;
                        ok = ok && parse_writes(t.substr(2), in) && shape_ok(in, false);
                        if (ok) { (t[0] == 'a' ? wa : wb) = in; }
                    }
                    else { ok = false; }
                }
            }
            if (!ok) { pending.push_back("bad-op"); continue; }
            g_cond.push_back(cond);
            g_scripts[1].push_back(wa);
            g_scripts[2].push_back(wb);
            cyc_slot.push_back(static_cast<int>(pending.size()));
            pending.push_back("?");
        }
        else if (ws[0] == "c" && g_sel == 0 && ws.size() == 2 && !g_shape.empty())
        {
            if (ws[1] == "-") { g_script.emplace_back(std::nullopt); }
            else
            {
                Writes in;
                // loop mode: the script drives x : TS<Int> with non-negative values
                const bool ok = g_loop ? (parse_writes(ws[1], in) && in.size() == 1 && in[0].op == '=' && in[0].p == 0 && in[0].v >= 0)
                                       : (parse_writes(ws[1], in) && shape_ok(in, false));
                if (!ok) { pending.push_back("bad-op"); continue; }
                g_script.emplace_back(in);
            }
            cyc_slot.push_back(static_cast<int>(pending.size()));
            pending.push_back("?");
        }
        else if (ws[0] == "run" && ws.size() == 1 && !g_shape.empty() && !(g_sel ? g_cond.empty() : g_script.empty()))
        {
            std::string       result;
            const std::size_t ncyc = g_sel ? g_cond.size() : g_script.size();
            try
            {
                if (g_sel && g_shape == "tss") { run_sel<S_tss>(); }
                else if (g_sel && g_shape == "tsd") { run_sel<S_tsd>(); }
                else if (g_sel && g_shape == "tsb2") { run_sel<S_tsb2>(); }
                else if (g_sel) { run_sel<S_tsl2>(); }
                else if (g_loop && g_shape == "ts") { run_loop<S_ts>(); }
                else if (g_loop && g_shape == "tss") { run_loop<S_tss>(); }
                else if (g_loop) { run_loop<S_tsd>(); }
                else if (g_shape == "ts") { run_shape<S_ts>(); }
                else if (g_shape == "tsb2") { run_shape<S_tsb2>(); }
                else if (g_shape == "tsb3") { run_shape<S_tsb3>(); }
                else if (g_shape == "tsbn") { run_shape<S_tsbn>(); }
                else if (g_shape == "tsl2") { run_shape<S_tsl2>(); }
                else if (g_shape == "tss") { run_shape<S_tss>(); }
                else if (g_shape == "tsbs") { run_shape<S_tsbs>(); }
                else { run_shape<S_tsd>(); }
                std::size_t extra = 0;
                for (auto t : g_cycles)
                {
                    if (t < k_start || t >= k_start + static_cast<std::int64_t>(ncyc)) { ++extra; }
                }
                result = "ok extra=" + std::to_string(extra);
            }
            catch (const std::exception &e) { result = classify(e.what()); }
            for (std::size_t i = 0; i < cyc_slot.size(); ++i)
            {
                const std::int64_t t = k_start + static_cast<std::int64_t>(i);
                auto               wi = g_rec[0].find(t);
                auto               ri = g_rec[1].find(t);
                pending[static_cast<std::size_t>(cyc_slot[i])] =
                    "t=" + std::to_string(t) + " cyc=" + (g_cycles.count(t) ? "1" : "0") +
                    " w=" + (wi == g_rec[0].end() ? std::string("-") : wi->second.delta) +
                    " r=" + (ri == g_rec[1].end() ? std::string("-") : ri->second.delta) +
                    " v=" + (ri == g_rec[1].end() ? std::string("-") : ri->second.value) +
                    (g_sel ? " pv=" + (wi == g_rec[0].end() ? std::string("-") : wi->second.value) : std::string());
            }
            pending.push_back(result);
            flush();
            reset();
        }
        else { pending.push_back("bad-op"); }
    }
    flush();
    return 0;
}
