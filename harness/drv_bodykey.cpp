// hgv_bodykey: the node interning key INSIDE a compiled sub-graph body (C06; graph_wiring.cpp SourceKey /
// InstanceKeyHash::hash_source / source_key_for, boundary part: boundary_arg, boundary_path, captured_boundary).
//
// A textual program describes ONE sub-graph body: 1-3 declared arguments (TS<Int> or TSL<TS<Int>,2>), 0-3 captured
// outer ports (published by the parent through context::scope<"c<k>">, imported by the body through context::get, i.e.
// Wiring::capture_outer_source), and a list of declarations.  The body is a real static graph Body<A...> whose compose()
// interprets the declarations through the public wiring API (wire<X>, tsl_element, context::get); it is attached to a
// parent that feeds a separate scripted stream into every argument / captured port, once nested_<Body> (a compiled
// child wiring: the sources are BOUNDARY sources keyed by (argument index | LOCAL capture index, path, captured flag))
// and once inlined wire<Body> (the reference: the sources are the parent's peered nodes).  `run` wires both, reports for
// every value declaration WHICH WiringInstance it denotes, runs both graphs in simulation and reports what every
// recorder saw in every engine cycle.  One output line per input line.
//
//   case <n>                       -> "case <n>"   forgets everything
//   body <sig> <caps>              -> "ok"         sig: 1-3 letters, one per declared argument: s TS<Int> | l TSL<TS<Int>,2>
//                                                  caps: "-" or 1-3 letters, one per captured outer port c0.. (same letters)
//   in <chan>...                   -> "ok"         one token per input CHANNEL (arguments in order, then captured ports in
//                                                  order; s = 1 channel, l = 2 channels): the values of the engine cycles
//                                                  1..T separated by ',', '-' = no tick; all channels the same T (1..8)
//   pre <@k>...                    -> "ok"         (first line of a statement order, optional) the body imports these
//                                                  captured ports first, in this order (auto c = context::get(...))
//   node <lbl> <def> <k> <src>...  -> "ok"         value node, Int scalar k;  f1(a) = a + k   g1(a) = 2a + k
//                                                  f2(a,b) = 10a + b + k   g2(a,b) = 3a - b + k
//   rec <lbl> <src>                -> "ok"         recorder sink
//        <src> = $<k>      declared argument k (type s)      $<k>.<i>   element i of declared argument k (type l)
//              | @<k>      captured port k (type s)          @<k>.<i>   element i of captured port k (type l)
//              | <lbl>     the output of an earlier value declaration
//        a captured port is imported at its first use (or by `pre`): its LOCAL capture index is the number of distinct
//        captured ports imported before it
//   run                            -> "ids=<lbl>:<n>,.. iids=<lbl>:<n>,.. nrec=<lbl>:<v>/<v>..;.. irec=.." | "err:<where>"
//        ids / iids: value declarations in statement order with the dense first-seen number of their WiringInstance in
//        the nested / the inlined wiring; nrec / irec: per recorder (sorted by label) what it saw in cycle 1..T ('-' = it
//        was not evaluated) in the nested / the inlined graph.  where: nested-wire inlined-wire nested-run inlined-run
//   reset                          -> "ok"         next statement order of the same body (keeps body / in)
//   anything else (unknown op / def / label, arity or type mismatch, duplicate label, ...) -> "bad-op"
#include "hgv_common.h"

#include <hgraph/runtime/runtime.h>
#include <hgraph/types/context_wiring.h>
#include <hgraph/types/graph_wiring.h>
#include <hgraph/types/static_node.h>
#include <hgraph/types/subgraph_wiring.h>

#include <algorithm>
#include <cstdlib>
#include <map>
#include <optional>
#include <set>
#include <stdexcept>

using namespace hgraph;
using namespace hgv;

namespace
{
    using S  = TS<Int>;
    using L2 = TSL<TS<Int>, 2>;

    constexpr std::int64_t k_start = 1;

    // ------------------------------------------------------------------ the program (read by compose and by the nodes)
    struct Src
    {
        char        kind = 'o';   // 'a' declared argument, 'c' captured port, 'o' output of a declaration
        std::size_t index = 0;    // argument / capture number
        int         elem  = -1;   // element of a TSL argument / capture, -1 = the whole (TS<Int>) port
        std::string label;        // kind 'o'
    };
    struct Decl
    {
        bool             rec = false;
        std::string      label, def;
        Int              k = 0;
        std::vector<Src> srcs;
    };
    struct Program
    {
        std::string                                   sig, caps;   // one letter per declared argument / captured port
        std::vector<std::vector<std::optional<Int>>> hist;        // per channel, per cycle
        std::vector<std::size_t>                      pre;         // captured ports imported first
        std::vector<Decl>                             decls;       // the current statement order
    };
    Program g_prog;

    std::size_t cycles() { return g_prog.hist.empty() ? 0 : g_prog.hist[0].size(); }

    // ------------------------------------------------------------------ nodes
    struct F1
    {
        static constexpr auto name = "hgv_bk_f1";
        static void           eval(In<"a", S> a, Scalar<"k", Int> k, Out<S> out) { out.set(a.value() + k.value()); }
    };
    struct G1
    {
        static constexpr auto name = "hgv_bk_g1";
        static void           eval(In<"a", S> a, Scalar<"k", Int> k, Out<S> out) { out.set(2 * a.value() + k.value()); }
    };
    struct F2
    {
        static constexpr auto name = "hgv_bk_f2";
        static void eval(In<"a", S> a, In<"b", S> b, Scalar<"k", Int> k, Out<S> out)
        {
            out.set(10 * a.value() + b.value() + k.value());
        }
    };
    struct G2
    {
        static constexpr auto name = "hgv_bk_g2";
        static void eval(In<"a", S> a, In<"b", S> b, Scalar<"k", Int> k, Out<S> out)
        {
            out.set(3 * a.value() - b.value() + k.value());
        }
    };
    // recorder: id = position of the rec declaration in the program
    std::map<Int, std::map<std::int64_t, Int>> g_rec;   // recorder id -> cycle time -> value seen
    struct Rec
    {
        static constexpr auto name = "hgv_bk_rec";
        static void           eval(DateTime now, In<"a", S> a, Scalar<"id", Int> id) { g_rec[id.value()][us(now)] = a.value(); }
    };

    // scripted writer of the channels [base, base + n) (n = 1: a TS<Int>, n = 2: the two elements of a TSL)
    std::size_t next_write(std::size_t from, std::size_t base, std::size_t n)
    {
        for (; from < cycles(); ++from)
        {
            for (std::size_t j = base; j < base + n; ++j)
            {
                if (g_prog.hist[j][from].has_value()) { return from; }
            }
        }
        return from;
    }
    template <typename A> void write(const Out<A> &out, std::size_t j, Int v)
    {
        if constexpr (std::is_same_v<A, S>) { out.set(v); }
        else { out[j].set(v); }
    }
    template <typename A> struct Feed
    {
        static constexpr auto name = "hgv_bk_feed";
        static void           start(NodeScheduler sched, Scalar<"base", Int> base, Scalar<"n", Int> n)
        {
            const std::size_t i = next_write(0, static_cast<std::size_t>(base.value()), static_cast<std::size_t>(n.value()));
            if (i < cycles()) { sched.schedule(dt(k_start + static_cast<std::int64_t>(i))); }
        }
        static void eval(NodeScheduler sched, Scalar<"base", Int> base, Scalar<"n", Int> n, Out<A> out)
        {
            const auto b    = static_cast<std::size_t>(base.value());
            const auto cols = static_cast<std::size_t>(n.value());
            const auto i    = static_cast<std::size_t>(us(sched.now()) - k_start);
            if (i < cycles())
            {
                for (std::size_t j = 0; j < cols; ++j)
                {
                    const auto &v = g_prog.hist[b + j][i];
                    if (v.has_value()) { write<A>(out, j, *v); }
                }
            }
            const std::size_t k = next_write(i + 1, b, cols);
            if (k < cycles()) { sched.schedule(dt(k_start + static_cast<std::int64_t>(k))); }
        }
    };

    // ------------------------------------------------------------------ the body
    // what compose() observed: the WiringInstance of every value declaration, in statement order
    std::vector<std::pair<std::string, const WiringInstance *>> g_seen;

    const char *cap_name(std::size_t k) { return k == 0 ? "c0" : k == 1 ? "c1" : "c2"; }

    // import captured port k (context::get -> resolve_context_source -> Wiring::capture_outer_source in a compiled child)
    Port<S> cap_elem(Wiring &w, std::size_t k, int elem)
    {
        if (g_prog.caps.at(k) == 's') { return context::get<S>(w, cap_name(k)); }
        auto whole = context::get<L2>(w, cap_name(k));
        return tsl_element(whole, static_cast<std::size_t>(elem));
    }
    void cap_touch(Wiring &w, std::size_t k)
    {
        if (g_prog.caps.at(k) == 's') { static_cast<void>(context::get<S>(w, cap_name(k))); }
        else { static_cast<void>(context::get<L2>(w, cap_name(k))); }
    }

    struct ArgPorts
    {
        std::vector<std::optional<Port<S>>>  s;
        std::vector<std::optional<Port<L2>>> l;
        void add(const Port<S> &p) { s.emplace_back(p); l.emplace_back(std::nullopt); }
        void add(const Port<L2> &p) { s.emplace_back(std::nullopt); l.emplace_back(p); }
    };

    void interpret(Wiring &w, const ArgPorts &args)
    {
        g_seen.clear();
        for (std::size_t k : g_prog.pre) { cap_touch(w, k); }
        std::map<std::string, Port<S>> env;
        Int                            rec_id = 0;
        for (const Decl &d : g_prog.decls)
        {
            std::vector<Port<S>> in;
            for (const Src &s : d.srcs)
            {
                switch (s.kind)
                {
                    case 'a':
                        if (s.elem < 0) { in.push_back(*args.s.at(s.index)); }
                        else { in.push_back(tsl_element(*args.l.at(s.index), static_cast<std::size_t>(s.elem))); }
                        break;
                    case 'c': in.push_back(cap_elem(w, s.index, s.elem)); break;
                    default: in.push_back(env.at(s.label)); break;
                }
            }
            if (d.rec)
            {
                wire<Rec>(w, in.at(0), Int{rec_id});
                ++rec_id;
                continue;
            }
            Port<S> out;
            if (d.def == "f1") { out = wire<F1>(w, in.at(0), d.k); }
            else if (d.def == "g1") { out = wire<G1>(w, in.at(0), d.k); }
            else if (d.def == "f2") { out = wire<F2>(w, in.at(0), in.at(1), d.k); }
            else { out = wire<G2>(w, in.at(0), in.at(1), d.k); }
            g_seen.emplace_back(d.label, out.erased().peered_node());
            env.emplace(d.label, out);
        }
    }

    template <typename... A> struct Body
    {
        static constexpr auto name = "hgv_bk_body";
        static void           compose(Wiring &w, Port<A>... a)
        {
            ArgPorts args;
            (args.add(a), ...);
            interpret(w, args);
        }
    };

    // ------------------------------------------------------------------ the parent
    struct Outcome
    {
        std::string ids, recs, err;
    };

    std::string ids_line()
    {
        std::map<const WiringInstance *, std::size_t> num;
        std::string                                   s;
        for (const auto &[label, node] : g_seen)
        {
            auto it = num.find(node);
            if (it == num.end()) { it = num.emplace(node, num.size()).first; }
            s += (s.empty() ? "" : ",") + label + ":" + std::to_string(it->second);
        }
        return s;
    }

    std::string recs_line()
    {
        std::vector<std::string> rows;
        Int                      id = 0;
        for (const Decl &d : g_prog.decls)
        {
            if (!d.rec) { continue; }
            std::string r    = d.label + ":";
            const auto &seen = g_rec[id];
            for (std::size_t i = 0; i < cycles(); ++i)
            {
                auto it = seen.find(k_start + static_cast<std::int64_t>(i));
                r += (i ? "/" : "") + (it == seen.end() ? std::string{"-"} : std::to_string(it->second));
            }
            rows.push_back(std::move(r));
            ++id;
        }
        std::sort(rows.begin(), rows.end());
        std::string s;
        for (std::size_t i = 0; i < rows.size(); ++i) { s += (i ? ";" : "") + rows[i]; }
        return s;
    }

    template <typename A> Port<A> feed(Wiring &w, std::size_t &base)
    {
        constexpr std::size_t n = std::is_same_v<A, S> ? 1 : 2;
        Port<A>               p = wire<Feed<A>>(w, Int{static_cast<std::int64_t>(base)}, Int{static_cast<std::int64_t>(n)}).template as<A>();
        base += n;
        return p;
    }

    template <typename... A> Outcome attach_and_run(bool nested)
    {
        Outcome     o;
        const char *where = nested ? "nested" : "inlined";
        g_seen.clear();
        g_rec.clear();
        Wiring w{WiringKind::TopLevel, WiringOptions{}};
        try
        {
            std::size_t             base = 0;
            std::tuple<Port<A>...>  args{feed<A>(w, base)...};   // braced init: evaluated left to right
            // the captured outer ports, published under c0, c1, c2 (scopes nest: released in reverse order)
            std::vector<std::optional<Port<S>>>  cs;
            std::vector<std::optional<Port<L2>>> cl;
            for (char c : g_prog.caps)
            {
                if (c == 's') { cs.emplace_back(feed<S>(w, base)); cl.emplace_back(std::nullopt); }
                else { cs.emplace_back(std::nullopt); cl.emplace_back(feed<L2>(w, base)); }
            }
            std::optional<context::scope<"c0">> s0;
            std::optional<context::scope<"c1">> s1;
            std::optional<context::scope<"c2">> s2;
            auto open = [&](auto &scope, std::size_t k) {
                if (k >= g_prog.caps.size()) { return; }
                if (cs[k].has_value()) { scope.emplace(w, *cs[k]); }
                else { scope.emplace(w, *cl[k]); }
            };
            open(s0, 0);
            open(s1, 1);
            open(s2, 2);
            struct Close
            {
                std::optional<context::scope<"c0">> &a;
                std::optional<context::scope<"c1">> &b;
                std::optional<context::scope<"c2">> &c;
                ~Close() { c.reset(); b.reset(); a.reset(); }
            } close{s0, s1, s2};
            std::apply(
                [&](const Port<A> &...a) {
                    if (nested) { nested_<Body<A...>>(w, a...); }
                    else { wire<Body<A...>>(w, a...); }
                },
                args);
        }
        catch (const std::exception &e)
        {
            if (std::getenv("HGV_VERBOSE")) { std::cerr << where << "-wire: " << e.what() << "\n"; }
            o.err = std::string{where} + "-wire";
            return o;
        }
        o.ids = ids_line();
        try
        {
            GraphBuilder         gb = std::move(w).finish();
            GraphExecutorBuilder eb;
            const std::int64_t   end = k_start + static_cast<std::int64_t>(cycles());
            eb.graph_builder(std::move(gb)).mode(GraphExecutorMode::Simulation).start_time(dt(k_start)).end_time(dt(end));
            GraphExecutorValue executor = eb.make_executor();
            executor.view().run();
        }
        catch (const std::exception &e)
        {
            if (std::getenv("HGV_VERBOSE")) { std::cerr << where << "-run: " << e.what() << "\n"; }
            o.err = std::string{where} + "-run";
            return o;
        }
        o.recs = recs_line();
        return o;
    }

    Outcome dispatch(bool nested)
    {
        const std::string &g = g_prog.sig;
        if (g == "s") { return attach_and_run<S>(nested); }
        if (g == "l") { return attach_and_run<L2>(nested); }
        if (g == "ss") { return attach_and_run<S, S>(nested); }
        if (g == "sl") { return attach_and_run<S, L2>(nested); }
        if (g == "ls") { return attach_and_run<L2, S>(nested); }
        if (g == "ll") { return attach_and_run<L2, L2>(nested); }
        if (g == "sss") { return attach_and_run<S, S, S>(nested); }
        if (g == "ssl") { return attach_and_run<S, S, L2>(nested); }
        if (g == "sls") { return attach_and_run<S, L2, S>(nested); }
        if (g == "lss") { return attach_and_run<L2, S, S>(nested); }
        throw std::logic_error("unknown signature");
    }
    const std::set<std::string> k_sigs{"s", "l", "ss", "sl", "ls", "ll", "sss", "ssl", "sls", "lss"};

    // ------------------------------------------------------------------ parsing
    bool shape_ok(const std::string &s, std::size_t lo)
    {
        if (s.size() < lo || s.size() > 3) { return false; }
        return std::all_of(s.begin(), s.end(), [](char c) { return c == 's' || c == 'l'; });
    }

    bool is_label(const std::string &s)
    {
        if (s.empty() || s.size() > 12 || !(s[0] >= 'a' && s[0] <= 'z')) { return false; }
        return std::all_of(s.begin(), s.end(), [](char c) { return (c >= 'a' && c <= 'z') || (c >= '0' && c <= '9') || c == '_'; });
    }

    std::optional<std::int64_t> to_int(const std::string &s)
    {
        std::size_t i = (!s.empty() && s[0] == '-') ? 1 : 0;
        if (s.size() == i || s.size() - i > 6) { return std::nullopt; }
        for (std::size_t j = i; j < s.size(); ++j)
        {
            if (s[j] < '0' || s[j] > '9') { return std::nullopt; }
        }
        return std::stoll(s);
    }

    // $<k>[.<i>] | @<k>[.<i>] | <lbl>
    std::optional<Src> parse_src(const std::string &t, const std::set<std::string> &values)
    {
        Src s;
        if (!t.empty() && (t[0] == '$' || t[0] == '@'))
        {
            const std::string &shape = t[0] == '$' ? g_prog.sig : g_prog.caps;
            s.kind                   = t[0] == '$' ? 'a' : 'c';
            if (t.size() != 2 && t.size() != 4) { return std::nullopt; }
            if (t[1] < '0' || t[1] > '2') { return std::nullopt; }
            s.index = static_cast<std::size_t>(t[1] - '0');
            if (s.index >= shape.size()) { return std::nullopt; }
            if (t.size() == 4)
            {
                if (t[2] != '.' || (t[3] != '0' && t[3] != '1') || shape[s.index] != 'l') { return std::nullopt; }
                s.elem = t[3] - '0';
            }
            else if (shape[s.index] != 's') { return std::nullopt; }
            return s;
        }
        if (!values.count(t)) { return std::nullopt; }
        s.label = t;
        return s;
    }
}  // namespace

int main()
{
    std::ios::sync_with_stdio(false);
    bool                  have_body = false, have_in = false, ran = false;
    std::set<std::string> used, values;
    auto                  fresh_order = [&] {
        g_prog.pre.clear();
        g_prog.decls.clear();
        used.clear();
        values.clear();
        ran = false;
    };
    std::string line;
    while (std::getline(std::cin, line))
    {
        auto ws = split(line);
        if (ws.empty()) { std::cout << "\n"; continue; }
        const std::string &op = ws[0];
        if (op == "case" && ws.size() == 2)
        {
            g_prog    = Program{};
            have_body = have_in = false;
            fresh_order();
            std::cout << line << "\n";
        }
        else if (op == "body" && ws.size() == 3 && !have_body)
        {
            const std::string caps = ws[2] == "-" ? std::string{} : ws[2];
            if (!k_sigs.count(ws[1]) || !(caps.empty() || shape_ok(caps, 1))) { std::cout << "bad-op\n"; continue; }
            g_prog.sig  = ws[1];
            g_prog.caps = caps;
            have_body   = true;
            std::cout << "ok\n";
        }
        else if (op == "in" && have_body && !have_in)
        {
            std::size_t chans = 0;
            for (char c : g_prog.sig + g_prog.caps) { chans += c == 's' ? 1 : 2; }
            std::vector<std::vector<std::optional<Int>>> hist;
            bool                                          bad = ws.size() != 1 + chans;
            for (std::size_t j = 1; j < ws.size() && !bad; ++j)
            {
                std::vector<std::optional<Int>> col;
                std::string                     tok;
                std::istringstream              is(ws[j]);
                while (std::getline(is, tok, ','))
                {
                    if (tok == "-") { col.emplace_back(std::nullopt); continue; }
                    auto v = to_int(tok);
                    if (!v) { bad = true; break; }
                    col.emplace_back(Int{*v});
                }
                if (ws[j].empty() || ws[j].back() == ',') { bad = true; }
                if (col.empty() || col.size() > 8 || (!hist.empty() && col.size() != hist[0].size())) { bad = true; }
                hist.push_back(std::move(col));
            }
            if (bad) { std::cout << "bad-op\n"; continue; }
            g_prog.hist = std::move(hist);
            have_in     = true;
            std::cout << "ok\n";
        }
        else if (op == "pre" && have_in && !ran && g_prog.decls.empty() && g_prog.pre.empty() && ws.size() >= 2)
        {
            std::vector<std::size_t> pre;
            bool                     bad = false;
            for (std::size_t j = 1; j < ws.size(); ++j)
            {
                const std::string &t = ws[j];
                if (t.size() != 2 || t[0] != '@' || t[1] < '0' || t[1] > '2' || static_cast<std::size_t>(t[1] - '0') >= g_prog.caps.size())
                {
                    bad = true;
                    break;
                }
                pre.push_back(static_cast<std::size_t>(t[1] - '0'));
            }
            if (bad) { std::cout << "bad-op\n"; continue; }
            g_prog.pre = std::move(pre);
            std::cout << "ok\n";
        }
        else if ((op == "node" || op == "rec") && have_in && !ran)
        {
            Decl d;
            d.rec = op == "rec";
            std::size_t first_src = 0, arity = 0;
            if (d.rec)
            {
                if (ws.size() != 3) { std::cout << "bad-op\n"; continue; }
                d.label   = ws[1];
                first_src = 2;
                arity     = 1;
            }
            else
            {
                if (ws.size() < 5) { std::cout << "bad-op\n"; continue; }
                d.label = ws[1];
                d.def   = ws[2];
                arity   = (d.def == "f1" || d.def == "g1") ? 1 : (d.def == "f2" || d.def == "g2") ? 2 : 0;
                auto k  = to_int(ws[3]);
                if (arity == 0 || !k || ws.size() != 4 + arity) { std::cout << "bad-op\n"; continue; }
                d.k       = Int{*k};
                first_src = 4;
            }
            if (!is_label(d.label) || used.count(d.label) || g_prog.decls.size() >= 24) { std::cout << "bad-op\n"; continue; }
            bool bad = false;
            for (std::size_t j = 0; j < arity; ++j)
            {
                auto s = parse_src(ws[first_src + j], values);
                if (!s) { bad = true; break; }
                d.srcs.push_back(*s);
            }
            if (bad) { std::cout << "bad-op\n"; continue; }
            used.insert(d.label);
            if (!d.rec) { values.insert(d.label); }
            g_prog.decls.push_back(std::move(d));
            std::cout << "ok\n";
        }
        else if (op == "run" && ws.size() == 1 && have_in && !ran)
        {
            ran = true;
            Outcome n, i;
            try
            {
                n = dispatch(true);
                i = dispatch(false);
            }
            catch (const std::exception &e)
            {
                if (std::getenv("HGV_VERBOSE")) { std::cerr << "run: " << e.what() << "\n"; }
                std::cout << "err:driver\n";
                continue;
            }
            if (!n.err.empty()) { std::cout << "err:" << n.err << "\n"; continue; }
            if (!i.err.empty()) { std::cout << "err:" << i.err << "\n"; continue; }
            std::cout << "ids=" << n.ids << " iids=" << i.ids << " nrec=" << n.recs << " irec=" << i.recs << "\n";
        }
        else if (op == "reset" && ws.size() == 1 && have_in)
        {
            fresh_order();
            std::cout << "ok\n";
        }
        else { std::cout << "bad-op\n"; }
    }
    return 0;
}
