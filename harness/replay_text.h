// Private helpers of harness/drv_replay.cpp (C20): textual time-series schemas and canonical
// delta / value text  <->  the real value-layer `Value`s of /repo.
//
//   schema  S ::= TS<Int> | TS<Str> | SIGNAL | TSS<Int> | TSS<Str> | TSD<K,S> | TSL<S,n> (n>=1, fixed)
//               | TSL<S> (DYNAMIC list: no size, grows on `at(i)`; indices 0..DYN_MAX-1 in delta text)
//               | TSB<f:S,g:S,...> | TSW<Int,period,min_period>          K ::= Int | Str
//   delta   TS/TSW: <scalar>   SIGNAL: T   TSS: {+e,+e,-e}   TSD: {-k,-k,k=<d>,k=<d>}
//           TSL: [i=<d>,...]   TSB: (f=<d>,...)   (absent field / index = no child delta)
//   scalar  Int: decimal, Str: [a-z][a-z0-9]*
// Canonical print order: TSS added (sorted) then removed (sorted); TSD removed (sorted) then modified
// (sorted by key); TSL by index; TSB in field order.  Int sorts numerically, Str lexicographically.
#pragma once
#include <hgraph/types/metadata/ts_value_type_meta_data.h>
#include <hgraph/types/metadata/type_registry.h>
#include <hgraph/types/metadata/value_plan_factory.h>
#include <hgraph/types/primitive_types.h>
#include <hgraph/types/time_series/ts_output.h>
#include <hgraph/types/value/value.h>
#include <hgraph/types/value/value_builder.h>
#include <hgraph/types/value/value_view.h>
#include <hgraph/types/value/specialized_views.h>

#include <algorithm>
#include <memory>
#include <stdexcept>
#include <string>
#include <utility>
#include <vector>

namespace hgv::rt
{
    using namespace hgraph;

    struct ParseError : std::runtime_error
    {
        using std::runtime_error::runtime_error;
    };

    enum class Kind { TS, SIGNAL, TSS, TSD, TSL, TSB, TSW };
    enum class ScalarK { Int, Str, Bool };

    constexpr std::size_t DYN_MAX = 12;   // largest index + 1 the delta text of a dynamic TSL may name

    struct Sch
    {
        Kind                                              kind{Kind::TS};
        ScalarK scalar{ScalarK::Int};   // TS/TSS/TSW element, TSD key
        std::vector<std::pair<std::string, std::unique_ptr<Sch>>> kids;          // TSD: 1, TSL: 1, TSB: n
        std::size_t                                       n{0};                  // TSL size, TSW period
        std::size_t                                       min_n{0};              // TSW min period
        bool                                              dyn{false};            // TSL without a fixed size
        const TSValueTypeMetaData                        *meta{nullptr};
    };

    inline const ValueTypeMetaData *scalar_meta(ScalarK s)
    {
        auto &r = TypeRegistry::instance();
        switch (s)
        {
            case ScalarK::Int: return r.register_scalar<Int>("int");
            case ScalarK::Str: return r.register_scalar<Str>("str");
            case ScalarK::Bool: return r.register_scalar<bool>("bool");
        }
        return nullptr;
    }

    inline ValueTypeRef bind(const ValueTypeMetaData *m)
    {
        auto b = ValuePlanFactory::instance().type_for(m);
        if (!b) throw std::logic_error("unresolved binding");
        return b;
    }

    // ---------------------------------------------------------------- schema parser
    struct Cursor
    {
        const std::string &s;
        std::size_t        i{0};
        bool               eof() const { return i >= s.size(); }
        char               peek() const { return eof() ? '\0' : s[i]; }
        bool               eat(char c)
        {
            if (peek() == c) { ++i; return true; }
            return false;
        }
        void need(char c)
        {
            if (!eat(c)) throw ParseError(std::string("expected '") + c + "' at " + std::to_string(i));
        }
        bool eat_word(const char *w)
        {
            std::size_t n = std::char_traits<char>::length(w);
            if (s.compare(i, n, w) == 0) { i += n; return true; }
            return false;
        }
        std::string token()
        {
            std::size_t b = i;
            while (!eof() && (std::isalnum(static_cast<unsigned char>(s[i])) || s[i] == '_')) ++i;
            if (b == i) throw ParseError("expected token at " + std::to_string(i));
            return s.substr(b, i - b);
        }
    };

    inline ScalarK parse_scalar_kind(Cursor &c)
    {
        if (c.eat_word("Int")) return ScalarK::Int;
        if (c.eat_word("Str")) return ScalarK::Str;
        throw ParseError("scalar kind");
    }

    inline std::unique_ptr<Sch> parse_schema(Cursor &c)
    {
        auto  out = std::make_unique<Sch>();
        auto &r   = TypeRegistry::instance();
        if (c.eat_word("TSS<"))
        {
            out->kind   = Kind::TSS;
            out->scalar = parse_scalar_kind(c);
            c.need('>');
            out->meta = r.tss(scalar_meta(out->scalar));
        }
        else if (c.eat_word("TSD<"))
        {
            out->kind   = Kind::TSD;
            out->scalar = parse_scalar_kind(c);
            c.need(',');
            auto child = parse_schema(c);
            c.need('>');
            out->meta = r.tsd(scalar_meta(out->scalar), child->meta);
            out->kids.emplace_back("", std::move(child));
        }
        else if (c.eat_word("TSL<"))
        {
            out->kind  = Kind::TSL;
            auto child = parse_schema(c);
            if (c.eat('>'))
            {
                out->dyn  = true;                 // dynamic list: fixed_size() == 0
                out->n    = 0;
                out->meta = r.tsl(child->meta, 0);
            }
            else
            {
                c.need(',');
                out->n = static_cast<std::size_t>(std::stoul(c.token()));
                c.need('>');
                if (out->n == 0) throw ParseError("TSL size");
                out->meta = r.tsl(child->meta, out->n);
            }
            out->kids.emplace_back("", std::move(child));
        }
        else if (c.eat_word("TSB<"))
        {
            out->kind = Kind::TSB;
            std::vector<std::pair<std::string, const TSValueTypeMetaData *>> fields;
            do {
                std::string name = c.token();
                c.need(':');
                auto child = parse_schema(c);
                fields.emplace_back(name, child->meta);
                out->kids.emplace_back(name, std::move(child));
            } while (c.eat(','));
            c.need('>');
            out->meta = r.un_named_tsb(fields);
        }
        else if (c.eat_word("TSW<"))
        {
            out->kind   = Kind::TSW;
            out->scalar = parse_scalar_kind(c);
            c.need(',');
            out->n = static_cast<std::size_t>(std::stoul(c.token()));
            c.need(',');
            out->min_n = static_cast<std::size_t>(std::stoul(c.token()));
            c.need('>');
            out->meta = r.tsw(scalar_meta(out->scalar), out->n, out->min_n);
        }
        else if (c.eat_word("TS<"))
        {
            out->kind   = Kind::TS;
            out->scalar = parse_scalar_kind(c);
            c.need('>');
            out->meta = r.ts(scalar_meta(out->scalar));
        }
        else if (c.eat_word("SIGNAL"))
        {
            out->kind   = Kind::SIGNAL;
            out->scalar = ScalarK::Bool;
            (void)scalar_meta(ScalarK::Bool);
            out->meta = r.signal();
        }
        else { throw ParseError("schema at " + std::to_string(c.i)); }
        if (out->meta == nullptr) throw ParseError("schema not interned");
        return out;
    }

    // ---------------------------------------------------------------- scalars
    inline Value scalar_value(ScalarK k, const std::string &tok)
    {
        switch (k)
        {
            case ScalarK::Int:
            {
                std::size_t pos = 0;
                long long   v   = 0;
                try { v = std::stoll(tok, &pos); }
                catch (...) { throw ParseError("int token " + tok); }
                if (pos != tok.size()) throw ParseError("int token " + tok);
                return Value{Int{v}};
            }
            case ScalarK::Str:
                if (tok.empty() || !std::islower(static_cast<unsigned char>(tok[0]))) throw ParseError("str token " + tok);
                return Value{Str{tok}};
            case ScalarK::Bool:
                if (tok != "T") throw ParseError("signal token " + tok);
                return Value{true};
        }
        throw ParseError("scalar");
    }

    struct Key
    {
        bool        is_int{true};
        long long   i{0};
        std::string s;
        bool        operator<(const Key &o) const { return is_int ? i < o.i : s < o.s; }
        std::string str() const { return is_int ? std::to_string(i) : s; }
    };

    inline Key key_of(const ValueView &v)
    {
        Key k;
        if (const auto *p = v.try_as<Int>()) { k.is_int = true; k.i = *p; }
        else if (const auto *q = v.try_as<Str>()) { k.is_int = false; k.s = *q; }
        else if (const auto *b = v.try_as<bool>()) { k.is_int = false; k.s = *b ? "T" : "F"; }
        else { throw std::logic_error("unsupported scalar in value"); }
        return k;
    }

    // ---------------------------------------------------------------- delta text -> Value
    inline Value parse_delta(const Sch &sch, Cursor &c)
    {
        switch (sch.kind)
        {
            case Kind::TS:
            case Kind::TSW:
            case Kind::SIGNAL: return scalar_value(sch.scalar, c.token());
            case Kind::TSS:
            {
                const auto elem = bind(scalar_meta(sch.scalar));
                SetBuilder added{elem}, removed{elem};
                c.need('{');
                if (!c.eat('}'))
                {
                    do {
                        bool plus = c.eat('+');
                        if (!plus) c.need('-');
                        Value e = scalar_value(sch.scalar, c.token());
                        (void)(plus ? added : removed).insert(e.view());
                    } while (c.eat(','));
                    c.need('}');
                }
                BundleBuilder bundle{bind(sch.meta->delta_value_schema)};
                bundle.set("added", added.build());
                bundle.set("removed", removed.build());
                return bundle.build();
            }
            case Kind::TSD:
            {
                const Sch &child = *sch.kids[0].second;
                const auto key_b = bind(scalar_meta(sch.scalar));
                SetBuilder removed{key_b};
                MapBuilder modified{key_b, bind(child.meta->delta_value_schema)};
                c.need('{');
                if (!c.eat('}'))
                {
                    do {
                        if (c.eat('-'))
                        {
                            Value k = scalar_value(sch.scalar, c.token());
                            (void)removed.insert(k.view());
                        }
                        else
                        {
                            Value k = scalar_value(sch.scalar, c.token());
                            c.need('=');
                            Value d = parse_delta(child, c);
                            modified.set_item(k.view(), d.view());
                        }
                    } while (c.eat(','));
                    c.need('}');
                }
                BundleBuilder bundle{bind(sch.meta->delta_value_schema)};
                bundle.set("removed", removed.build());
                bundle.set("modified", modified.build());
                return bundle.build();
            }
            case Kind::TSL:
            {
                const Sch &child = *sch.kids[0].second;
                MapBuilder  map{bind(scalar_meta(ScalarK::Int)), bind(child.meta->delta_value_schema)};
                c.need('[');
                if (!c.eat(']'))
                {
                    do {
                        Value k = scalar_value(ScalarK::Int, c.token());
                        if (k.view().checked_as<Int>() < 0 ||
                            static_cast<std::size_t>(k.view().checked_as<Int>()) >= (sch.dyn ? DYN_MAX : sch.n))
                            throw ParseError("TSL index out of range");
                        c.need('=');
                        Value d = parse_delta(child, c);
                        map.set_item(k.view(), d.view());
                    } while (c.eat(','));
                    c.need(']');
                }
                return map.build();
            }
            case Kind::TSB:
            {
                BundleBuilder bundle{bind(sch.meta->delta_value_schema)};
                c.need('(');
                if (!c.eat(')'))
                {
                    do {
                        std::string name = c.token();
                        std::size_t idx  = 0;
                        while (idx < sch.kids.size() && sch.kids[idx].first != name) ++idx;
                        if (idx == sch.kids.size()) throw ParseError("unknown field " + name);
                        c.need('=');
                        Value d = parse_delta(*sch.kids[idx].second, c);
                        bundle.set(idx, std::move(d));
                    } while (c.eat(','));
                    c.need(')');
                }
                return bundle.build();
            }
        }
        throw ParseError("delta");
    }

    // ---------------------------------------------------------------- Value -> canonical delta text
    inline std::string sorted_join(std::vector<std::pair<Key, std::string>> &items)
    {
        std::sort(items.begin(), items.end(), [](const auto &a, const auto &b) { return a.first < b.first; });
        std::string out;
        for (auto &it : items)
        {
            if (!out.empty()) out += ",";
            out += it.second;
        }
        return out;
    }

    inline std::string print_delta(const Sch &sch, const ValueView &v)
    {
        if (!v.has_value()) return "<null>";
        switch (sch.kind)
        {
            case Kind::TS:
            case Kind::TSW:
            case Kind::SIGNAL: return key_of(v).str();
            case Kind::TSS:
            {
                const auto bundle = v.as_bundle();
                std::vector<std::pair<Key, std::string>> add, rem;
                {
                    const auto a = bundle.at(0).as_set();
                    for (const auto &e : a) { Key k = key_of(e); add.emplace_back(k, "+" + k.str()); }
                    const auto r = bundle.at(1).as_set();
                    for (const auto &e : r) { Key k = key_of(e); rem.emplace_back(k, "-" + k.str()); }
                }
                std::string a = sorted_join(add), r = sorted_join(rem);
                return "{" + a + (a.empty() || r.empty() ? "" : ",") + r + "}";
            }
            case Kind::TSD:
            {
                const Sch &child  = *sch.kids[0].second;
                const auto bundle = v.as_bundle();
                std::vector<std::pair<Key, std::string>> rem, mod;
                {
                    const auto r = bundle.at(0).as_set();
                    for (const auto &e : r) { Key k = key_of(e); rem.emplace_back(k, "-" + k.str()); }
                    const auto m = bundle.at(1).as_map();
                    for (const auto &[kv, dv] : m)
                    {
                        Key k = key_of(kv);
                        mod.emplace_back(k, k.str() + "=" + print_delta(child, dv));
                    }
                }
                std::string r = sorted_join(rem), m = sorted_join(mod);
                std::string extra = bundle.size() > 2 ? ",!strict" : "";
                return "{" + r + (r.empty() || m.empty() ? "" : ",") + m + extra + "}";
            }
            case Kind::TSL:
            {
                const Sch &child = *sch.kids[0].second;
                std::vector<std::pair<Key, std::string>> items;
                const auto m = v.as_map();
                for (const auto &[kv, dv] : m)
                {
                    Key k = key_of(kv);
                    items.emplace_back(k, k.str() + "=" + print_delta(child, dv));
                }
                return "[" + sorted_join(items) + "]";
            }
            case Kind::TSB:
            {
                const auto  bundle = v.as_bundle();
                std::string out;
                for (std::size_t i = 0; i < sch.kids.size(); ++i)
                {
                    if (!bundle.element_valid(i)) continue;
                    const auto f = bundle.at(i);
                    if (!f.has_value()) continue;
                    if (!out.empty()) out += ",";
                    out += sch.kids[i].first + "=" + print_delta(*sch.kids[i].second, f);
                }
                return "(" + out + ")";
            }
        }
        return "?";
    }

    // ---------------------------------------------------------------- live output -> canonical state text
    //   invalid position: _    TS: v   SIGNAL: T   TSS: {e,..}   TSD: {k=<s>,..}   TSL: [<s>,<s>]   TSB: (f=<s>,..)
    //   TSW: <e;e;e> (oldest first; _ before the first push)   dynamic TSL: [<s>,<s>]#<size>
    //   (View = TSOutputView or TSInputView: the same read API)
    template <typename View>
    std::string print_state(const Sch &sch, const View &o)
    {
        switch (sch.kind)
        {
            case Kind::TS:
            case Kind::SIGNAL:
            {
                if (!o.valid()) return "_";
                const auto v = o.value();
                return v.has_value() ? key_of(v).str() : "_";
            }
            case Kind::TSW:
            {
                if (!o.valid()) return "_";
                const auto v = o.value();
                if (!v.has_value()) return "_";
                std::string out = "<";
                const auto  iv  = v.as_indexed_view();
                for (std::size_t i = 0; i < iv.size(); ++i)
                {
                    if (i) out += ";";
                    const auto e = iv.at(i);
                    out += e.has_value() ? key_of(e).str() : "_";
                }
                return out + ">";
            }
            case Kind::TSS:
            {
                if (!o.valid()) return "_";
                std::vector<std::pair<Key, std::string>> items;
                const auto v = o.value();
                if (v.has_value())
                {
                    const auto s = v.as_set();
                    for (const auto &e : s) { Key k = key_of(e); items.emplace_back(k, k.str()); }
                }
                return "{" + sorted_join(items) + "}";
            }
            case Kind::TSD:
            {
                if (!o.valid()) return "_";
                const Sch &child = *sch.kids[0].second;
                std::vector<std::pair<Key, std::string>> items;
                const auto d = o.as_dict();
                for (const auto &[kv, cv] : d.items())
                {
                    Key k = key_of(kv);
                    items.emplace_back(k, k.str() + "=" + print_state(child, cv));
                }
                return "{" + sorted_join(items) + "}";
            }
            case Kind::TSL:
            {
                const Sch  &child = *sch.kids[0].second;
                std::string out;
                const auto  l = o.as_list();
                for (std::size_t i = 0; i < l.size(); ++i)
                {
                    if (i) out += ",";
                    out += print_state(child, l.at(i));
                }
                return "[" + out + "]" + (sch.dyn ? "#" + std::to_string(l.size()) : std::string{});
            }
            case Kind::TSB:
            {
                std::string out;
                const auto  b = o.as_bundle();
                for (std::size_t i = 0; i < sch.kids.size(); ++i)
                {
                    if (i) out += ",";
                    out += sch.kids[i].first + "=" + print_state(*sch.kids[i].second, b.at(i));
                }
                return "(" + out + ")";
            }
        }
        return "?";
    }
}  // namespace hgv::rt
