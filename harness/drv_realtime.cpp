// hgv_realtime: runs a REAL real-time GraphExecutor (executor.cpp run_storage / advance_realtime,
// graph.cpp evaluate_impl, node_scheduler.h, push_source_node.cpp) on a small graph of scripted
// scheduler nodes + one queue push source, with the wall clock and the executor's condition
// wait owned by this harness through include/hgraph/util/verif_hooks.h (C17).
//
// Everything runs on one thread: the hook that replaces condition.wait_for releases the executor
// mutex, plays the next events of the script (clock advances, pushes through the real
// PushSourceSender, request_stop through the real executor view, spurious wake-ups), re-takes
// the mutex and evaluates the executor's own predicate, exactly as the condition variable would.
//
// Lines (one output line per input line):
//   case <n>
//   cfg <start> <end> <slice> <wall0> <cost>      times in microseconds; cost = clock advance per cycle
//   node <id> <ops> ; <ops> ; ...                 script node <id> (ids 1..n in order); entry 0 = start hook
//        ops: r<d> schedule(+d)  R<t> schedule(t)  w<d> wall alarm(+d)  W<t> wall alarm(t)
//             a<d> clock advance  p<v> push v  x request_stop  L repeat this entry forever  - nothing
//   before <k> <ev>...   events played when cycle #k (0-based) is about to evaluate (before the flag reset)
//   after <k> <ev>...    events played after cycle #k evaluated          ev: a<d> p<v> x
//   events <ev>...       events played at the wait points, in order: a<d> t(imeout) p<v> x s(purious)
//   run                  -> the trace
#include "hgv_common.h"

#include <hgraph/runtime/push_source_node.h>
#include <hgraph/runtime/runtime.h>
#include <hgraph/types/graph_wiring.h>
#include <hgraph/types/static_node.h>
#include <hgraph/util/verif_hooks.h>

#include <functional>
#include <map>
#include <mutex>
#include <stdexcept>
#include <typeindex>

#if !defined(HGRAPH_VERIF_HOOKS)
#error "hgv_realtime needs the verification hooks (HGRAPH_VERIF_HOOKS)"
#endif

using namespace hgraph;
using namespace hgv;

namespace
{
    struct Tok { char op; std::int64_t n; };
    using Toks = std::vector<Tok>;

    struct CaseState
    {
        std::int64_t start{1000}, end{2000}, slice{1000}, wall{1000}, cost{1};
        std::map<std::int64_t, std::vector<Toks>> scripts;     // node id -> per-evaluation ops
        std::map<std::int64_t, Toks>              before, after;
        Toks                                      events;
        std::size_t                               ev_pos{0};
        std::map<std::int64_t, std::size_t>       evals;       // node id -> evaluations so far (0 = start)
        std::int64_t                              cycle{0};
        std::vector<std::string>                  log;
        PushSourceSender                          sender;
        GraphExecutorView                         view;
        bool                                      have_view{false};
        DateTime                                  last_next{MAX_DT};
    };
    CaseState g;

    void logf(std::string s) { g.log.push_back(std::move(s)); }

    bool parse_tok(const std::string &t, Tok &out, const std::string &allowed)
    {
        if (t.empty() || allowed.find(t[0]) == std::string::npos) { return false; }
        out.op = t[0];
        out.n  = 0;
        if (t.size() > 1)
        {
            for (std::size_t i = 1; i < t.size(); ++i) { if (t[i] < '0' || t[i] > '9') { return false; } }
            out.n = to_i(t.substr(1));
        }
        return true;
    }

    // the environment events shared by every injection point; returns the log token
    std::string play_env(const Tok &e)
    {
        switch (e.op)
        {
            case 'a': g.wall += e.n; return "a" + std::to_string(e.n);
            case 'p':
            {
                const bool ok = g.sender.try_send(Int{e.n});
                return "p" + std::to_string(e.n) + "=" + (ok ? "1" : "0") + "@" + std::to_string(g.wall);
            }
            case 'x':
                if (g.have_view) { g.view.request_stop(); }
                return "x@" + std::to_string(g.wall);
            default: return "?";
        }
    }

    std::string join(const std::vector<std::string> &v)
    {
        std::string s;
        for (std::size_t i = 0; i < v.size(); ++i) { s += (i ? "," : "") + v[i]; }
        return s;
    }

    // ------------------------------------------------------------------ hooks
    DateTime hook_wall_now(void *) { return dt(g.wall); }

    bool hook_wait(void *, std::unique_lock<std::mutex> &lock, TimeDelta duration, const std::function<bool()> &pred)
    {
        std::int64_t             remaining = duration.count();
        std::vector<std::string> toks;
        bool                     result = false;
        lock.unlock();
        for (;;)
        {
            bool timed_out = false;
            if (g.ev_pos >= g.events.size())
            {
                g.wall += remaining;      // script exhausted: the wait simply times out
                timed_out = true;
            }
            else
            {
                const Tok e = g.events[g.ev_pos++];
                switch (e.op)
                {
                    case 'a':
                        g.wall += e.n;
                        toks.push_back("a" + std::to_string(e.n));
                        if (e.n >= remaining) { timed_out = true; } else { remaining -= e.n; }
                        break;
                    case 't':
                        g.wall += remaining;
                        toks.push_back("t");
                        timed_out = true;
                        break;
                    case 's': toks.push_back("s"); break;
                    default: toks.push_back(play_env(e)); break;
                }
            }
            // what the condition variable does on a notification, a spurious wake or the timeout:
            // re-acquire the mutex and evaluate the predicate under it
            lock.lock();
            if (pred()) { result = true; break; }
            if (timed_out) { result = false; break; }
            lock.unlock();
        }
        if (!toks.empty()) { logf("Z[" + join(toks) + "]"); }
        return result;
    }

    const verif::Hooks g_hooks{nullptr, &hook_wall_now, &hook_wait, nullptr};

    // ------------------------------------------------------------------ nodes
    const Toks *script_entry(std::int64_t id, std::size_t k)
    {
        auto it = g.scripts.find(id);
        if (it == g.scripts.end() || it->second.empty()) { return nullptr; }
        const auto &sc = it->second;
        if (k < sc.size()) { return &sc[k]; }
        for (const Tok &t : sc.back()) { if (t.op == 'L') { return &sc.back(); } }
        return nullptr;
    }

    std::string run_ops(std::int64_t id, const NodeScheduler &sched, const EvaluationClockView &clock)
    {
        const std::size_t k = g.evals[id]++;
        std::vector<std::string> toks;
        if (const Toks *ops = script_entry(id, k))
        {
            for (const Tok &o : *ops)
            {
                switch (o.op)
                {
                    case 'r': sched.schedule(TimeDelta{o.n}); toks.push_back("r" + std::to_string(o.n)); break;
                    case 'R': sched.schedule(dt(o.n)); toks.push_back("R" + std::to_string(o.n)); break;
                    case 'w':
                        toks.push_back("w" + std::to_string(o.n) + "@" + std::to_string(us(clock.now())));
                        sched.schedule(TimeDelta{o.n}, std::nullopt, true);
                        break;
                    case 'W':
                        toks.push_back("W" + std::to_string(o.n) + "@" + std::to_string(us(clock.now())));
                        sched.schedule(dt(o.n), std::nullopt, true);
                        break;
                    case 'L': break;
                    default: toks.push_back(play_env(o)); break;
                }
            }
        }
        return std::to_string(id) + ":" + std::to_string(k) + "[" + join(toks) + "]";
    }

    struct RScript
    {
        static constexpr auto name = "rt_script";
        static void start(Scalar<"id", Int> id, NodeScheduler sched, EvaluationClockView clock)
        {
            logf("S" + run_ops(id.value(), sched, clock));
        }
        static void eval(Scalar<"id", Int> id, NodeScheduler sched, EvaluationClockView clock, Out<TS<Int>> out)
        {
            logf("n" + run_ops(id.value(), sched, clock));
        }
    };

    struct RSink
    {
        static constexpr auto name = "rt_sink";
        static void eval(In<"a", TS<Int>> a) { logf("v" + std::to_string(a.value())); }
    };

    struct PushTag {};

    // ------------------------------------------------------------------ observer (points B and A)
    struct Obs : LifecycleObserver
    {
        void on_after_start_graph(const GraphView &gv) override
        {
            if (gv.is_root()) { g.last_next = gv.next_scheduled_time(); }
        }
        void on_before_graph_evaluation(const GraphView &gv) override
        {
            if (!gv.is_root()) { return; }
            logf("c" + std::to_string(us(gv.evaluation_time())) + "@" + std::to_string(g.wall));
            auto it = g.before.find(g.cycle);
            if (it != g.before.end())
            {
                std::vector<std::string> toks;
                for (const Tok &e : it->second) { toks.push_back(play_env(e)); }
                logf("B[" + join(toks) + "]");
            }
        }
        void on_after_graph_evaluation(const GraphView &gv) override
        {
            if (!gv.is_root()) { return; }
            g.last_next = gv.next_scheduled_time();
            logf("e" + ts(g.last_next));
            g.wall += g.cost;
            auto it = g.after.find(g.cycle);
            if (it != g.after.end())
            {
                std::vector<std::string> toks;
                for (const Tok &e : it->second) { toks.push_back(play_env(e)); }
                logf("A[" + join(toks) + "]");
            }
            ++g.cycle;
        }
    };

    std::string run_case()
    {
        g.log.clear();
        g.evals.clear();
        g.ev_pos = 0;
        g.cycle = 0;
        g.sender = PushSourceSender{};
        g.have_view = false;
        g.last_next = MAX_DT;
        const std::int64_t wall0 = g.wall;
        std::string result;
        try
        {
            const auto *ts_int = ts_type<TS<Int>>();
            Wiring w{WiringKind::TopLevel, WiringOptions{}};
            WiringPortRef push_ref = w.add_unique_node(
                std::type_index(typeid(PushTag)),
                make_push_source_node(*ts_int, [](PushSourceSender s) { g.sender = std::move(s); }),
                std::span<const WiringPortRef>{}, Value{});
            wire<RSink>(w, Port<TS<Int>>{w, push_ref});
            for (const auto &kv : g.scripts) { wire<RScript>(w, Int{kv.first}); }
            GraphBuilder gb = std::move(w).finish();

            Obs obs;
            GraphExecutorBuilder eb;
            eb.graph_builder(std::move(gb))
                .mode(GraphExecutorMode::RealTime)
                .start_time(dt(g.start))
                .end_time(dt(g.end))
                .max_wait_slice(TimeDelta{g.slice})
                .add_lifecycle_observer(&obs);
            verif::install(&g_hooks);
            {
                GraphExecutorValue executor = eb.make_executor();
                g.view = executor.view();
                g.have_view = true;
                logf("start@" + std::to_string(g.wall));
                try
                {
                    g.view.run();
                    const char *reason = g.view.stop_requested() ? "stop"
                                         : (g.last_next != MAX_DT && g.last_next < dt(g.end)) ? "cutoff"
                                                                                              : "end";
                    logf(std::string("end:") + reason + "@" + std::to_string(g.wall));
                }
                catch (const std::exception &e) { logf(std::string("run-err:") + e.what()); }
                g.have_view = false;
                g.sender = PushSourceSender{};
            }
            verif::install(nullptr);
        }
        catch (const std::exception &e)
        {
            verif::install(nullptr);
            logf(std::string("build-err:") + e.what());
        }
        g.wall = wall0;
        for (std::size_t i = 0; i < g.log.size(); ++i) { result += (i ? " | " : "") + g.log[i]; }
        return result;
    }

    bool parse_list(const std::vector<std::string> &w, std::size_t from, const std::string &allowed, Toks &out)
    {
        for (std::size_t i = from; i < w.size(); ++i)
        {
            if (w[i] == "-") { continue; }
            Tok t{};
            if (!parse_tok(w[i], t, allowed)) { return false; }
            out.push_back(t);
        }
        return true;
    }
}  // namespace

int main()
{
    std::ios::sync_with_stdio(false);
    std::string line;
    while (std::getline(std::cin, line))
    {
        auto w = split(line);
        try
        {
            if (w.empty()) { std::cout << "\n"; continue; }
            const std::string &op = w[0];
            if (op == "case" && w.size() == 2)
            {
                g = CaseState{};
                std::cout << line << "\n";
            }
            else if (op == "cfg" && w.size() == 6)
            {
                g.start = to_i(w[1]); g.end = to_i(w[2]); g.slice = to_i(w[3]); g.wall = to_i(w[4]); g.cost = to_i(w[5]);
                std::cout << "ok\n";
            }
            else if (op == "node" && w.size() >= 2)
            {
                const std::int64_t id = to_i(w[1]);
                std::vector<Toks> sc;
                Toks cur;
                bool ok = id == static_cast<std::int64_t>(g.scripts.size()) + 1;
                for (std::size_t i = 2; i < w.size() && ok; ++i)
                {
                    if (w[i] == ";") { sc.push_back(cur); cur.clear(); continue; }
                    if (w[i] == "-") { continue; }
                    Tok t{};
                    ok = parse_tok(w[i], t, "rRwWapxL");
                    cur.push_back(t);
                }
                sc.push_back(cur);
                if (!ok) { std::cout << "bad-op\n"; continue; }
                g.scripts[id] = std::move(sc);
                std::cout << "ok\n";
            }
            else if ((op == "before" || op == "after") && w.size() >= 2)
            {
                Toks t;
                if (!parse_list(w, 2, "apx", t)) { std::cout << "bad-op\n"; continue; }
                (op == "before" ? g.before : g.after)[to_i(w[1])] = std::move(t);
                std::cout << "ok\n";
            }
            else if (op == "events")
            {
                Toks t;
                if (!parse_list(w, 1, "atpxs", t)) { std::cout << "bad-op\n"; continue; }
                g.events = std::move(t);
                std::cout << "ok\n";
            }
            else if (op == "run" && w.size() == 1) { std::cout << run_case() << "\n"; }
            else { std::cout << "bad-op\n"; }
        }
        catch (const std::exception &e) { std::cout << "bad-op\n"; }
    }
    return 0;
}
