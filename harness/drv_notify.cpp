// hgv_notify: C07 notification / failed-run reuse stream.
//
// A case is a sequence of RUNS executed one after the other by this process: on the case's EVALUATION THREAD (one
// std::thread per case, created by the `case` line, so that what a case leaves behind on its thread cannot make a later
// case fail: every reported input reproduces alone), or - with the `thread` prefix - on a fresh std::thread that is
// joined before the next line is read.  Process-wide state is shared by all cases.  Every run builds the
// REAL graph  source -> noter -> sink  with the native node builder and runs it with the real simulation executor:
//   source : pull source, scheduled on start (t = 1 us), ticks at the recipe's tick times (re-schedules itself)
//   noter  : compute node; on every tick it executes that tick's action list: register one-shot notifications through
//            EngineControlView::add_before_evaluation_notification / add_after_evaluation_notification, or throw;
//            its start / stop hooks register the recipe's start / stop lists
//   sink   : logs the value it receives
// A notification callback logs its label (kind given at registration + id), then executes the action list of its id
// (re-entrant registrations through the same API, `!` = throw).
//
// line protocol (one output line per input line):
//   case <n>                      -> case <n>           (forgets the builder; new evaluation thread)
//   [thread] run <recipe...>      -> <trace>            fresh GraphExecutorBuilder for the recipe, one executor, run
//   [thread] again                -> <trace>            another executor from the SAME builder as the last `run`
// recipe tokens:   v<base>  nc  [start acts]  { t<time> acts }  [ stop acts ]  { d<id>=<act>,<act>... }
//   acts:  b<id> | a<id>  (register before / after notification <id>)     x  (the node evaluation throws; ticks only)
//   d<id>= acts of notification <id> when it fires: b<j> | a<j> (j > id) | !  (throw)
// trace tokens:  S (noter start)  E<t> (noter eval)  X (noter throws)  K<t>=<v> (sink)  b<id>/a<id> (firing)  ! (it throws)
//                P (noter stop)   then the result: ok | err:note:<kind><id> | err:node:<t> | err:other:<text>
#include <hgraph/lib/testing/runtime_support.h>
#include <hgraph/runtime/runtime.h>
#include <hgraph/types/metadata/type_registry.h>
#include <hgraph/types/primitive_types.h>
#include <hgraph/types/value/value.h>

#include "hgv_common.h"

#include <functional>
#include <iostream>
#include <condition_variable>
#include <map>
#include <memory>
#include <mutex>
#include <optional>
#include <stdexcept>
#include <string>
#include <thread>
#include <utility>
#include <vector>

namespace
{
    using namespace hgraph;

    constexpr int MAX_ID   = 31;
    constexpr int MAX_TIME = 40;

    struct Act
    {
        char kind{'b'};   // 'b' register before, 'a' register after, '!' throw
        int  id{0};
    };

    struct Tick
    {
        std::int64_t     time{1};
        std::vector<Act> acts;
    };

    struct Recipe
    {
        Int                             base{100};
        bool                            no_cleanup{false};
        std::vector<Act>                start_acts;
        std::vector<Tick>               ticks;
        std::vector<Act>                stop_acts;
        std::map<int, std::vector<Act>> defs;
    };

    thread_local std::string *tl_log = nullptr;

    void logt(const std::string &tok)
    {
        if (tl_log == nullptr) { return; }
        if (!tl_log->empty()) { tl_log->push_back(' '); }
        tl_log->append(tok);
    }

    bool parse_act(const std::string &w, bool allow_throw, char throw_char, Act &out)
    {
        if (w.size() == 1 && w[0] == throw_char)
        {
            if (!allow_throw) { return false; }
            out = Act{'!', 0};
            return true;
        }
        if (w.size() < 2 || (w[0] != 'b' && w[0] != 'a')) { return false; }
        int v = 0;
        for (std::size_t i = 1; i < w.size(); ++i)
        {
            if (w[i] < '0' || w[i] > '9' || i > 3) { return false; }
            v = v * 10 + (w[i] - '0');
        }
        if (w.size() > 2 && w[1] == '0') { return false; }   // canonical numerals only
        if (v > MAX_ID) { return false; }
        out = Act{w[0], v};
        return true;
    }

    bool parse_nat(const std::string &s, std::int64_t &out)
    {
        if (s.empty() || s.size() > 6) { return false; }
        if (s.size() > 1 && s[0] == '0') { return false; }
        std::int64_t v = 0;
        for (char c : s)
        {
            if (c < '0' || c > '9') { return false; }
            v = v * 10 + (c - '0');
        }
        out = v;
        return true;
    }

    std::optional<Recipe> parse_recipe(const std::vector<std::string> &ws, std::size_t from)
    {
        Recipe r;
        enum { Start, Ticks, Stop, Defs } sect = Start;
        bool seen_v = false;
        for (std::size_t i = from; i < ws.size(); ++i)
        {
            const std::string &w = ws[i];
            if (w == "nc")
            {
                if (sect != Start || r.no_cleanup || !r.start_acts.empty()) { return std::nullopt; }
                r.no_cleanup = true;
                continue;
            }
            if (w[0] == 'v')
            {
                std::int64_t v = 0;
                if (sect != Start || seen_v || r.no_cleanup || !r.start_acts.empty() || !parse_nat(w.substr(1), v)) { return std::nullopt; }
                seen_v = true;
                r.base = static_cast<Int>(v);
                continue;
            }
            if (w[0] == 't')
            {
                std::int64_t t = 0;
                if (sect > Ticks || !parse_nat(w.substr(1), t) || t < 1 || t > MAX_TIME) { return std::nullopt; }
                if (!r.ticks.empty() && r.ticks.back().time >= t) { return std::nullopt; }
                sect = Ticks;
                r.ticks.push_back(Tick{t, {}});
                continue;
            }
            if (w == "stop")
            {
                if (sect >= Stop) { return std::nullopt; }
                sect = Stop;
                continue;
            }
            if (w[0] == 'd')
            {
                const auto eq = w.find('=');
                std::int64_t id = 0;
                if (eq == std::string::npos || !parse_nat(w.substr(1, eq - 1), id) || id > MAX_ID) { return std::nullopt; }
                if (r.defs.count(static_cast<int>(id)) != 0) { return std::nullopt; }
                sect = Defs;
                std::vector<Act> acts;
                std::string      rest = w.substr(eq + 1);
                std::size_t      pos  = 0;
                if (rest.empty()) { return std::nullopt; }
                while (pos <= rest.size())
                {
                    const auto comma = rest.find(',', pos);
                    const std::string item = rest.substr(pos, comma == std::string::npos ? std::string::npos : comma - pos);
                    Act a;
                    if (!parse_act(item, true, '!', a)) { return std::nullopt; }
                    if (a.kind != '!' && a.id <= id) { return std::nullopt; }   // children have larger ids: every drain terminates
                    acts.push_back(a);
                    if (comma == std::string::npos) { break; }
                    pos = comma + 1;
                }
                r.defs.emplace(static_cast<int>(id), std::move(acts));
                continue;
            }
            if (sect == Defs) { return std::nullopt; }
            Act a;
            if (!parse_act(w, sect == Ticks, 'x', a)) { return std::nullopt; }
            if (sect == Start) { r.start_acts.push_back(a); }
            else if (sect == Ticks) { r.ticks.back().acts.push_back(a); }
            else { r.stop_acts.push_back(a); }
        }
        return r;
    }

    struct NoteFailure : std::runtime_error
    {
        using std::runtime_error::runtime_error;
    };

    void run_acts(const std::shared_ptr<const Recipe> &recipe, const EngineControlView &engine, const std::vector<Act> &acts,
                  const std::string &who);

    std::function<void()> make_callback(std::shared_ptr<const Recipe> recipe, EngineControlView engine, char kind, int id)
    {
        return [recipe = std::move(recipe), engine, kind, id] {
            const std::string label = std::string(1, kind) + std::to_string(id);
            logt(label);
            if (const auto found = recipe->defs.find(id); found != recipe->defs.end())
            {
                run_acts(recipe, engine, found->second, "hgvnote[" + label + "]");
            }
        };
    }

    void run_acts(const std::shared_ptr<const Recipe> &recipe, const EngineControlView &engine, const std::vector<Act> &acts,
                  const std::string &who)
    {
        for (const Act &a : acts)
        {
            switch (a.kind)
            {
                case 'b': engine.add_before_evaluation_notification(make_callback(recipe, engine, 'b', a.id)); break;
                case 'a': engine.add_after_evaluation_notification(make_callback(recipe, engine, 'a', a.id)); break;
                default:
                    logt(who.rfind("hgvnode", 0) == 0 ? "X" : "!");
                    throw std::runtime_error(who + " failed");
            }
        }
    }

    NodeBuilder tick_source(const TSValueTypeMetaData *ts_int, std::shared_ptr<const Recipe> recipe)
    {
        NodeTypeMetaData schema;
        schema.display_name      = "hgv_tick_source";
        schema.output_schema     = ts_int;
        schema.node_kind         = NodeKind::PullSource;
        schema.schedule_on_start = true;

        NodeCallbacks callbacks;
        callbacks.evaluate = [recipe](const NodeView &view, DateTime now) {
            const std::int64_t t = hgv::us(now);
            std::optional<std::int64_t> next;
            bool                        tick = false;
            for (const Tick &k : recipe->ticks)
            {
                if (k.time == t) { tick = true; }
                if (k.time > t && !next.has_value()) { next = k.time; }
            }
            if (tick) { testing::set_output_value(view, now, Int{recipe->base + static_cast<Int>(t)}); }
            if (next.has_value()) { view.graph_value()->schedule_node(view.node_index(), hgv::dt(*next)); }
        };
        return NodeBuilder::native(std::move(schema), std::move(callbacks));
    }

    NodeBuilder noter_node(const TSValueTypeMetaData *input_schema, const TSValueTypeMetaData *ts_int,
                           std::shared_ptr<const Recipe> recipe)
    {
        NodeTypeMetaData schema;
        schema.display_name  = "hgv_noter";
        schema.input_schema  = input_schema;
        schema.output_schema = ts_int;
        schema.node_kind     = NodeKind::Compute;

        NodeCallbacks callbacks;
        callbacks.start = [recipe](const NodeView &view, DateTime) {
            logt("S");
            run_acts(recipe, view.graph().executor().engine_control(), recipe->start_acts, "hgvstart");
        };
        callbacks.evaluate = [recipe](const NodeView &view, DateTime now) {
            const std::int64_t t = hgv::us(now);
            logt("E" + std::to_string(t));
            auto root   = view.input(now);
            auto bundle = root.as_bundle();
            auto input  = bundle[0];
            const Int v = input.value().checked_as<Int>();
            for (const Tick &k : recipe->ticks)
            {
                if (k.time == t)
                {
                    run_acts(recipe, view.graph().executor().engine_control(), k.acts, "hgvnode[" + std::to_string(t) + "]");
                }
            }
            testing::set_output_value(view, now, Int{v});
        };
        callbacks.stop = [recipe](const NodeView &view, DateTime) {
            logt("P");
            run_acts(recipe, view.graph().executor().engine_control(), recipe->stop_acts, "hgvstop");
        };
        return NodeBuilder::native(std::move(schema), std::move(callbacks), testing::single_input_endpoint(*input_schema, *ts_int));
    }

    NodeBuilder log_sink(const TSValueTypeMetaData *input_schema, const TSValueTypeMetaData *ts_int)
    {
        NodeTypeMetaData schema;
        schema.display_name = "hgv_log_sink";
        schema.input_schema = input_schema;
        schema.node_kind    = NodeKind::Sink;

        NodeCallbacks callbacks;
        callbacks.evaluate = [](const NodeView &view, DateTime now) {
            auto root   = view.input(now);
            auto bundle = root.as_bundle();
            auto input  = bundle[0];
            logt("K" + std::to_string(hgv::us(now)) + "=" + std::to_string(static_cast<long long>(input.value().checked_as<Int>())));
        };
        return NodeBuilder::native(std::move(schema), std::move(callbacks), testing::single_input_endpoint(*input_schema, *ts_int));
    }

    GraphExecutorBuilder make_builder(const Recipe &recipe)
    {
        auto       &registry     = TypeRegistry::instance();
        const auto *int_meta     = registry.register_scalar<Int>("int");
        const auto *ts_int       = registry.ts(int_meta);
        const auto *input_schema = testing::single_input_schema(*ts_int);
        auto        shared       = std::make_shared<const Recipe>(recipe);

        GraphBuilder graph_builder;
        graph_builder.label("hgv_notify")
            .add_node(tick_source(ts_int, shared))
            .add_node(noter_node(input_schema, ts_int, shared))
            .add_node(log_sink(input_schema, ts_int))
            .add_edge(GraphEdge{.source_node = 0, .source_path = {}, .target_node = 1, .target_path = {0}})
            .add_edge(GraphEdge{.source_node = 1, .source_path = {}, .target_node = 2, .target_path = {0}});

        GraphExecutorBuilder builder;
        builder.graph_builder(std::move(graph_builder))
            .mode(GraphExecutorMode::Simulation)
            .start_time(MIN_ST)
            .end_time(MIN_ST + TimeDelta{50})
            .cleanup_on_error(!recipe.no_cleanup);
        return builder;
    }

    std::string canonical_error(const std::string &what)
    {
        const std::pair<const char *, const char *> markers[] = {{"hgvnote[", "err:note:"}, {"hgvnode[", "err:node:"}};
        for (const auto &[marker, cls] : markers)
        {
            const auto at = what.find(marker);
            if (at == std::string::npos) { continue; }
            const auto open  = at + 8;
            const auto close = what.find(']', open);
            if (close == std::string::npos) { continue; }
            return std::string(cls) + what.substr(open, close - open);
        }
        std::string s;
        for (char c : what.substr(0, 60)) { s.push_back((c == ' ' || c == '\n' || c == '\t') ? '_' : c); }
        return "err:other:" + s;
    }

    // One run = one fresh executor from the (possibly reused) builder, destroyed before the result is logged.
    std::string run_once(const GraphExecutorBuilder &builder)
    {
        std::string trace;
        tl_log = &trace;
        try
        {
            GraphExecutorValue executor = builder.make_executor();
            executor.view().run();
            logt("ok");
        }
        catch (const std::exception &error)
        {
            logt(canonical_error(error.what()));
        }
        catch (...)
        {
            logt("err:other:unknown");
        }
        tl_log = nullptr;
        return trace;
    }

    // the evaluation thread of a case: executes the jobs it is handed, one at a time, until it is destroyed
    class EvalThread
    {
      public:
        EvalThread() : thread_([this] { loop(); }) {}
        EvalThread(const EvalThread &) = delete;
        EvalThread &operator=(const EvalThread &) = delete;
        ~EvalThread()
        {
            {
                std::lock_guard lock{mutex_};
                quit_ = true;
            }
            wake_.notify_all();
            thread_.join();
        }

        void run(std::function<void()> job)
        {
            std::unique_lock lock{mutex_};
            job_  = std::move(job);
            busy_ = true;
            wake_.notify_all();
            done_.wait(lock, [this] { return !busy_; });
        }

      private:
        void loop()
        {
            std::unique_lock lock{mutex_};
            for (;;)
            {
                wake_.wait(lock, [this] { return quit_ || busy_; });
                if (quit_) { return; }
                auto job = std::move(job_);
                lock.unlock();
                job();
                lock.lock();
                busy_ = false;
                done_.notify_all();
            }
        }

        std::mutex              mutex_;
        std::condition_variable wake_;
        std::condition_variable done_;
        std::function<void()>   job_;
        bool                    busy_{false};
        bool                    quit_{false};
        std::thread             thread_;
    };

    std::string run_on(EvalThread &eval, const GraphExecutorBuilder &builder, bool fresh_thread)
    {
        std::string trace;
        if (fresh_thread)
        {
            std::thread worker{[&] { trace = run_once(builder); }};
            worker.join();
        }
        else
        {
            eval.run([&] { trace = run_once(builder); });
        }
        return trace;
    }
}  // namespace

int main()
{
    std::ios::sync_with_stdio(false);
    std::optional<GraphExecutorBuilder> builder;
    auto                                eval = std::make_unique<EvalThread>();
    std::string                         line;
    while (std::getline(std::cin, line))
    {
        auto ws = hgv::split(line);
        if (ws.empty())
        {
            std::cout << "\n";
            continue;
        }
        std::string out = "bad-op";
        try
        {
            if (ws[0] == "case" && ws.size() == 2)
            {
                builder.reset();
                eval = std::make_unique<EvalThread>();
                out  = "case " + ws[1];
            }
            else
            {
                std::size_t at     = 0;
                bool        thread = false;
                if (ws[0] == "thread")
                {
                    thread = true;
                    at     = 1;
                }
                if (at < ws.size() && ws[at] == "run")
                {
                    if (auto recipe = parse_recipe(ws, at + 1); recipe.has_value())
                    {
                        builder.emplace(make_builder(*recipe));
                        out = run_on(*eval, *builder, thread);
                    }
                }
                else if (at + 1 == ws.size() && ws[at] == "again" && builder.has_value())
                {
                    out = run_on(*eval, *builder, thread);
                }
            }
        }
        catch (const std::exception &e)
        {
            out = std::string("err:driver:") + canonical_error(e.what());
        }
        std::cout << out << "\n";
    }
    std::cout.flush();
    return 0;
}
