// hgv_twindow: drives a REAL standalone TSOutput of a DURATION (time-span) TSW<Int> (compiled from the
// working tree, linked from .build/libhgv.a: TimeTSWindowStorage / TSWindowStorageCore in
// src/hgraph/types/metadata/ts_data_window_ops.cpp) through its public mutation view, with an explicit
// evaluation time on every operation, and dumps everything the public readers show after every step.
//
// One output line per input line.
//   case <id>               -> "case <id>"
//   twin <span> <minspan>   -> "ok"      fresh TSOutput of registry.tsw_duration(Int, span us, minspan us)
//   push <t> <v>            -> "ok"      TSWDataMutationView::push at evaluation time t
//   wclear <t>              -> "ok"      TSWDataMutationView::clear
//   wclearpush <t> <v>      -> "ok"      clear + push inside ONE mutation view
//   dump <t>                -> the state as seen by output.view(t):
//        lmt= mod= valid= allvalid= n=          last_modified_time, modified(), valid(), all_valid(), size()
//        w=[v@time,...]                         at(i) / time_at(i) for i < size()        (logical order)
//        vv=[v,...]                             value().as_list()                          (value surface)
//        vr=[v@time,...]                        values() / value_times() ranges
//        fmt=                                   first_modified_time()
//        ev=<v>|-                               has_removed_value(t) ? removed_value(t) : -
//        clr=                                   cleared(t)
//        d=<v>|none                             delta_value()
//   cap                     -> "cap=<n>"  reserved slots of the cyclic buffer, read back from
//                              dynamic_storage_metrics() (diagnostic only; not an observable of the property)
// Errors: "err:invalid-arg" | "err:logic" | "err:range" | "err:other".  Unknown op: "bad-op".
#include "hgv_common.h"

#include <hgraph/types/metadata/type_registry.h>
#include <hgraph/types/primitive_types.h>
#include <hgraph/types/static_schema.h>
#include <hgraph/types/time_series/ts_output.h>
#include <hgraph/types/value/value.h>

#include <memory>
#include <stdexcept>

using namespace hgraph;
using namespace hgv;

namespace
{
    Int as_int(const ValueView &v) { return v.checked_as<Int>(); }

    struct BadOp {};

    std::int64_t nat(const std::string &s)
    {
        if (s.empty() || s.find_first_not_of("0123456789") != std::string::npos || s.size() > 15) { throw BadOp{}; }
        return std::stoll(s);
    }
    std::int64_t integer(const std::string &s)
    {
        const std::string body = (!s.empty() && s[0] == '-') ? s.substr(1) : s;
        if (body.empty() || body.find_first_not_of("0123456789") != std::string::npos || body.size() > 15) { throw BadOp{}; }
        return std::stoll(s);
    }

    std::string join(const std::vector<std::string> &items)
    {
        std::string out = "[";
        for (std::size_t i = 0; i < items.size(); ++i) { out += (i ? "," : "") + items[i]; }
        return out + "]";
    }

    std::string dump(TSOutput &output, DateTime t)
    {
        auto view   = output.view(t);
        auto window = view.as_window();
        std::string out = "lmt=" + std::to_string(us(view.last_modified_time())) + " mod=" + std::to_string(view.modified()) +
                          " valid=" + std::to_string(view.valid()) + " allvalid=" + std::to_string(view.all_valid()) +
                          " n=" + std::to_string(window.size());
        std::vector<std::string> indexed, listed, ranged;
        for (std::size_t i = 0; i < window.size(); ++i)
        {
            indexed.push_back(std::to_string(as_int(window.at(i))) + "@" + std::to_string(us(window.time_at(i))));
        }
        {
            const auto list = view.value().as_list();
            for (std::size_t i = 0; i < list.size(); ++i) { listed.push_back(std::to_string(as_int(list.at(i)))); }
        }
        {
            std::vector<std::string> vals, times;
            for (const auto v : window.values()) { vals.push_back(std::to_string(as_int(v))); }
            for (const auto tm : window.value_times()) { times.push_back(std::to_string(us(tm))); }
            for (std::size_t i = 0; i < vals.size(); ++i) { ranged.push_back(vals[i] + "@" + (i < times.size() ? times[i] : std::string{"?"})); }
            if (times.size() != vals.size()) { ranged.push_back("times:" + std::to_string(times.size())); }
        }
        out += " w=" + join(indexed) + " vv=" + join(listed) + " vr=" + join(ranged);
        out += " fmt=" + std::to_string(us(window.first_modified_time()));
        const auto data = window.data_view();
        out += " ev=" + (data.has_removed_value(t) ? std::to_string(as_int(data.removed_value(t))) : std::string{"-"});
        out += " clr=" + std::to_string(data.cleared(t));
        const auto delta = view.delta_value();
        out += " d=" + (delta.has_value() ? std::to_string(as_int(delta)) : std::string{"none"});
        return out;
    }

    // capacity_ of the cyclic buffer: reserved_bytes = capacity_ * (value stride + time stride) [+ evicted_/observer
    // bytes, which are 0 for an inline Int and an unobserved output]; one slot is Int (8) + DateTime (8) bytes.
    std::string capacity(TSOutput &output)
    {
        const auto metrics = output.data_view().dynamic_storage_metrics();
        constexpr std::size_t slot_bytes = sizeof(Int) + sizeof(DateTime);
        return "cap=" + std::to_string(metrics.reserved_bytes / slot_bytes) + (metrics.reserved_bytes % slot_bytes ? "+" : "");
    }
}  // namespace

int main()
{
    std::ios::sync_with_stdio(false);
    auto       &registry = TypeRegistry::instance();
    const auto *int_meta = scalar_descriptor<Int>::value_meta();

    std::unique_ptr<TSOutput> output;
    std::string               line;
    while (std::getline(std::cin, line))
    {
        auto w = split(line);
        if (w.empty()) { std::cout << "\n"; continue; }
        const std::string &op = w[0];
        try
        {
            auto need = [&](std::size_t args) { return output != nullptr && w.size() == args + 1; };
            if (op == "case") { output.reset(); std::cout << line << "\n"; }
            else if (op == "twin" && w.size() == 3)
            {
                const auto span = nat(w[1]), min_span = nat(w[2]);
                const auto *meta = registry.tsw_duration(int_meta, TimeDelta{span}, TimeDelta{min_span});
                output = std::make_unique<TSOutput>(*meta);
                std::cout << "ok\n";
            }
            else if (op == "push" && need(2))
            {
                const auto t = dt(nat(w[1]));
                Value      value{Int{integer(w[2])}};
                auto       view   = output->view(t);
                auto       window = view.as_window();
                auto       mutation = window.begin_mutation(t);
                mutation.push(value.view());
                std::cout << "ok\n";
            }
            else if (op == "wclear" && need(1))
            {
                const auto t = dt(nat(w[1]));
                auto       view   = output->view(t);
                auto       window = view.as_window();
                auto       mutation = window.begin_mutation(t);
                mutation.clear();
                std::cout << "ok\n";
            }
            else if (op == "wclearpush" && need(2))
            {
                const auto t = dt(nat(w[1]));
                Value      value{Int{integer(w[2])}};
                auto       view   = output->view(t);
                auto       window = view.as_window();
                auto       mutation = window.begin_mutation(t);
                mutation.clear();
                mutation.push(value.view());
                std::cout << "ok\n";
            }
            else if (op == "dump" && need(1)) { std::cout << dump(*output, dt(nat(w[1]))) << "\n"; }
            else if (op == "cap" && need(0)) { std::cout << capacity(*output) << "\n"; }
            else { std::cout << "bad-op\n"; }
        }
        catch (const BadOp &) { std::cout << "bad-op\n"; }
        catch (const std::invalid_argument &) { std::cout << "err:invalid-arg\n"; }
        catch (const std::out_of_range &) { std::cout << "err:range\n"; }
        catch (const std::length_error &) { std::cout << "err:range\n"; }
        catch (const std::logic_error &) { std::cout << "err:logic\n"; }
        catch (const std::exception &) { std::cout << "err:other\n"; }
    }
    return 0;
}
