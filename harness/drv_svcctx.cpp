// hgv_svcctx (C07, service transport contexts): ONE process runs a HISTORY of builds of small subscription-service
// client graphs.  runtime/service_node.cpp keeps PROCESS-LIFETIME transport contexts, found or created at build time:
//   register_subscription_key_source_context   keyed on (service path, storage offset)
//   register_subscription_key_capture_context  keyed on (service path, storage offset, same_cycle)
// The context pointer is also the runtime type id under which the node type is interned process-wide, and the capture
// context's `same_cycle` decides whether a key change is handed to the source for the SAME engine cycle (Direct) or for
// the NEXT one (RequestDeferred).  What a graph does must follow from its own recipe alone - never from which other
// graphs the process built before it.
//
// The graph of a step (runtime-builder form, as tests/cpp/test_service_node.cpp builds them):
//
//      0  key_script        TS<K>     the client's subscription key, cycle by cycle (the step's script)
//      1  capture(path)     sink      make_subscription_key_capture_node(path, K, same_cycle)     } layout cs
//      2  source(path)      TSS<K>    make_subscription_key_source_node(path, K)                  } (sc: 1 and 2 swapped)
//      3  observe           sink      logs every tick of the published key set
//      edges 0 -> capture.key, source -> capture.subscriptions, source -> observe
//
// Nodes are evaluated in index order.  `cs` (capture ranked before the source) is the order of a Direct transport;
// `sc` (source first) is the order a deferred transport gets when the service implementation derives from its keys.
//
// One output line per input line:
//
//   case <n>                                             -> case <n>      (forgets the builders of the case before;
//                                                           with the argument --fresh every case is handled in a
//                                                           forked child of its own: no process history at all)
//   build <path> <keytype> <mode> <layout> <script...>   -> cyc[t ..] pub[t:-[r ..]+[a ..]={m ..} ..]
//        path     a word ([A-Za-z0-9._/:-], at most 60 characters)
//        keytype  int | i32 | str        (script keys k are Int k / int32 k / the string "s<k>"; printed as k)
//        mode     direct | deferred      (same_cycle = true / false)
//        layout   cs | sc
//        script   one token per engine cycle from the start time on: `_` (no change) or a key 0..99 (set the key),
//                 1..16 tokens; cycle i is evaluation time MIN_ST + i*MIN_TD; the run ends after 2*len+3 cycles
//        cyc      the evaluation times of all engine cycles of the run (integer microseconds)
//        pub      every tick of the source's key set: time, removed keys, added keys, members (all sorted)
//   reuse <i>                                            -> the same kind of line: one more executor made from the
//                                                           builder of the i-th `build` line of this case (0-based)
//   anything else                                        -> bad-op
//   errors: err:build (a node/graph builder threw) | err:run (run() threw)
#include "hgv_common.h"

#include <hgraph/lib/testing/runtime_support.h>
#include <hgraph/runtime/runtime.h>
#include <hgraph/runtime/service_node.h>
#include <hgraph/types/metadata/type_registry.h>
#include <hgraph/types/static_node.h>

#include <algorithm>
#include <cstdint>
#include <memory>
#include <optional>
#include <string>
#include <vector>

#include <sys/wait.h>
#include <unistd.h>

using namespace hgraph;
using namespace hgv;

namespace
{
    using Script = std::vector<std::optional<Int>>;

    struct Pub
    {
        std::int64_t     time{0};
        std::vector<Int> removed, added, members;
    };

    struct RunLog
    {
        std::vector<std::int64_t> cycles;
        std::vector<Pub>          pubs;
    };

    // harness-side tables of the run that is executing (runs are strictly sequential; read-only for the nodes
    // except the log)
    const Script *g_script = nullptr;
    RunLog       *g_log    = nullptr;

    template <typename K> struct KeyOf;
    template <> struct KeyOf<Int>
    {
        static Int to(Int k) { return k; }
        static Int from(const Int &v) { return v; }
    };
    template <> struct KeyOf<std::int32_t>
    {
        static std::int32_t to(Int k) { return static_cast<std::int32_t>(k); }
        static Int          from(const std::int32_t &v) { return v; }
    };
    template <> struct KeyOf<Str>
    {
        static Str to(Int k) { return "s" + std::to_string(k); }
        static Int from(const Str &v) { return v.size() > 1 ? std::stoll(v.substr(1)) : -1; }
    };

    template <typename K> struct KeyScript
    {
        static constexpr auto name              = "svcctx_key_script";
        static constexpr bool schedule_on_start = true;

        static void eval(NodeScheduler sched, State<Int> step, Out<TS<K>> out)
        {
            const Int i = step.get();
            step.set(i + 1);
            if (g_script == nullptr) { return; }
            const auto n = static_cast<Int>(g_script->size());
            if (i < n && (*g_script)[static_cast<std::size_t>(i)].has_value())
            {
                out.set(KeyOf<K>::to(*(*g_script)[static_cast<std::size_t>(i)]));
            }
            if (i + 1 < n) { sched.schedule(MIN_TD); }
        }
    };

    template <typename K> struct Observe
    {
        static constexpr auto name = "svcctx_observe";

        static void eval(In<"subs", TSS<K>> subs, DateTime now)
        {
            if (g_log == nullptr) { return; }
            Pub p;
            p.time = us(now);
            for (const K &key : subs.removed()) { p.removed.push_back(KeyOf<K>::from(key)); }
            for (const K &key : subs.added()) { p.added.push_back(KeyOf<K>::from(key)); }
            for (const K &key : subs.values()) { p.members.push_back(KeyOf<K>::from(key)); }
            std::sort(p.removed.begin(), p.removed.end());
            std::sort(p.added.begin(), p.added.end());
            std::sort(p.members.begin(), p.members.end());
            g_log->pubs.push_back(std::move(p));
        }
    };

    struct CycleObs : LifecycleObserver
    {
        void on_before_graph_evaluation(const GraphView &g) override
        {
            if (g_log != nullptr && !g.is_nested()) { g_log->cycles.push_back(us(g.evaluation_time())); }
        }
    };
    CycleObs g_obs;

    struct Recipe
    {
        std::string path, keytype;
        bool        same_cycle{true};
        bool        capture_first{true};
        Script      script;
    };

    template <typename K> GraphBuilder make_graph(const Recipe &r, const ValueTypeMetaData &meta)
    {
        GraphBuilder      builder;
        const std::size_t cap = r.capture_first ? 1 : 2;
        const std::size_t src = r.capture_first ? 2 : 1;
        builder.add_node(NodeBuilder{}.implementation<KeyScript<K>>());
        if (r.capture_first)
        {
            builder.add_node(make_subscription_key_capture_node(r.path, meta, r.same_cycle));
            builder.add_node(make_subscription_key_source_node(r.path, meta));
        }
        else
        {
            builder.add_node(make_subscription_key_source_node(r.path, meta));
            builder.add_node(make_subscription_key_capture_node(r.path, meta, r.same_cycle));
        }
        builder.add_node(NodeBuilder{}.implementation<Observe<K>>());
        builder.add_edge(GraphEdge{.source_node = 0, .target_node = cap, .target_path = {0}});
        builder.add_edge(GraphEdge{.source_node = src, .target_node = cap, .target_path = {1}});
        builder.add_edge(GraphEdge{.source_node = src, .target_node = 3, .target_path = {0}});
        return builder;
    }

    struct Built
    {
        Recipe               recipe;
        GraphExecutorBuilder eb;
    };

    std::unique_ptr<Built> build(const Recipe &r)
    {
        auto        &registry = TypeRegistry::instance();
        GraphBuilder gb;
        if (r.keytype == "int") { gb = make_graph<Int>(r, *registry.register_scalar<Int>("int")); }
        else if (r.keytype == "i32") { gb = make_graph<std::int32_t>(r, *registry.register_scalar<std::int32_t>("int32")); }
        else { gb = make_graph<Str>(r, *registry.register_scalar<Str>("str")); }
        auto b    = std::make_unique<Built>();
        b->recipe = r;
        const auto cycles = static_cast<std::int64_t>(2 * r.script.size() + 3);
        b->eb.graph_builder(std::move(gb)).mode(GraphExecutorMode::Simulation).start_time(MIN_ST).end_time(MIN_ST + MIN_TD * cycles);
        b->eb.add_lifecycle_observer(&g_obs);
        return b;
    }

    std::string join(const std::vector<Int> &v)
    {
        std::string s;
        for (std::size_t i = 0; i < v.size(); ++i) { s += (i ? " " : "") + std::to_string(v[i]); }
        return s;
    }

    std::string show(const RunLog &log)
    {
        std::string s = "cyc[";
        for (std::size_t i = 0; i < log.cycles.size(); ++i) { s += (i ? " " : "") + std::to_string(log.cycles[i]); }
        s += "] pub[";
        for (std::size_t i = 0; i < log.pubs.size(); ++i)
        {
            const Pub &p = log.pubs[i];
            s += (i ? " " : "") + std::to_string(p.time) + ":-[" + join(p.removed) + "]+[" + join(p.added) + "]={" + join(p.members) + "}";
        }
        return s + "]";
    }

    std::string run(const Built &b)
    {
        RunLog log;
        g_script = &b.recipe.script;
        g_log    = &log;
        bool ok  = true;
        try
        {
            GraphExecutorValue executor = b.eb.make_executor();
            executor.view().run();
        }
        catch (const std::exception &) { ok = false; }
        g_script = nullptr;
        g_log    = nullptr;
        return ok ? show(log) : "err:run";
    }

    bool path_ok(const std::string &s)
    {
        if (s.empty() || s.size() > 60) return false;
        for (const char c : s)
        {
            if (!(std::isalnum(static_cast<unsigned char>(c)) || c == '.' || c == '_' || c == '/' || c == ':' || c == '-')) return false;
        }
        return true;
    }

    std::optional<Int> small_nat(const std::string &s, Int limit)
    {
        if (s.empty() || s.size() > 2) return std::nullopt;
        Int v = 0;
        for (const char c : s)
        {
            if (c < '0' || c > '9') return std::nullopt;
            v = v * 10 + (c - '0');
        }
        if (s.size() == 2 && s[0] == '0') return std::nullopt;
        return v <= limit ? std::optional<Int>{v} : std::nullopt;
    }

    std::optional<Recipe> parse_build(const std::vector<std::string> &w)
    {
        if (w.size() < 6 || w.size() > 5 + 16) return std::nullopt;
        Recipe r;
        r.path    = w[1];
        r.keytype = w[2];
        if (!path_ok(r.path)) return std::nullopt;
        if (r.keytype != "int" && r.keytype != "i32" && r.keytype != "str") return std::nullopt;
        if (w[3] == "direct") { r.same_cycle = true; }
        else if (w[3] == "deferred") { r.same_cycle = false; }
        else { return std::nullopt; }
        if (w[4] == "cs") { r.capture_first = true; }
        else if (w[4] == "sc") { r.capture_first = false; }
        else { return std::nullopt; }
        for (std::size_t i = 5; i < w.size(); ++i)
        {
            if (w[i] == "_") { r.script.emplace_back(std::nullopt); continue; }
            const auto k = small_nat(w[i], 99);
            if (!k.has_value()) return std::nullopt;
            r.script.emplace_back(*k);
        }
        return r;
    }
}  // namespace

/** `--fresh` only: what the parent does before it forks - scalar registrations, the harness's own node types, one run of
    a graph WITHOUT any service node - so that a child does not pay the first-use cost of the runtime again.  Nothing in
    here reaches runtime/service_node.cpp. */
template <typename K> void warm_types(const char *scalar_name)
{
    (void)TypeRegistry::instance().register_scalar<K>(scalar_name);
    (void)NodeBuilder{}.implementation<KeyScript<K>>();
    (void)NodeBuilder{}.implementation<Observe<K>>();
    GraphBuilder gb;
    gb.add_node(NodeBuilder{}.implementation<KeyScript<K>>());
    GraphExecutorBuilder eb;
    eb.graph_builder(std::move(gb)).mode(GraphExecutorMode::Simulation).start_time(MIN_ST).end_time(MIN_ST + MIN_TD * 5);
    eb.add_lifecycle_observer(&g_obs);
    const Script script{Int{1}, std::nullopt};
    g_script = &script;
    try
    {
        GraphExecutorValue executor = eb.make_executor();
        executor.view().run();
    }
    catch (const std::exception &) {}
    g_script = nullptr;
}

void warm()
{
    warm_types<Int>("int");
    warm_types<std::int32_t>("int32");
    warm_types<Str>("str");
}

/** the lines of one case (a `case` header and what follows it up to the next header) */
void run_case(const std::vector<std::string> &lines, std::vector<std::string> &outs)
{
    std::vector<std::unique_ptr<Built>> builders;    // the builders of the case, in `build` order
    for (const auto &line : lines)
    {
        const auto w = split(line);
        if (w.empty()) { outs.emplace_back(); continue; }
        if (w.size() == 2 && w[0] == "case") { outs.push_back("case " + w[1]); continue; }
        std::string out = "bad-op";
        if (w[0] == "build")
        {
            const auto r = parse_build(w);
            if (r.has_value())
            {
                std::unique_ptr<Built> b;
                try { b = build(*r); }
                catch (const std::exception &) { b = nullptr; }
                out = b == nullptr ? std::string{"err:build"} : run(*b);
                builders.push_back(std::move(b));
            }
        }
        else if (w[0] == "reuse" && w.size() == 2)
        {
            const auto i = small_nat(w[1], 99);
            if (i.has_value() && static_cast<std::size_t>(*i) < builders.size())
            {
                const auto &b = builders[static_cast<std::size_t>(*i)];
                out           = b == nullptr ? std::string{"err:build"} : run(*b);
            }
        }
        outs.push_back(std::move(out));
    }
}

int main(int argc, char **argv)
{
    std::ios::sync_with_stdio(false);
    // `--fresh`: every case is handled by a child process forked HERE, before this process has built a service node or
    // run a service graph: each case then sees a process without any service history (see warm()).
    const bool               fresh = argc > 1 && std::string{argv[1]} == "--fresh";
    if (fresh) { warm(); }
    std::vector<std::string> pending;
    const auto               flush = [&] {
        if (pending.empty()) return;
        std::vector<std::string> outs;
        if (!fresh) { run_case(pending, outs); }
        else
        {
            int fds[2];
            if (pipe(fds) != 0) return;
            std::cout.flush();
            const pid_t child = fork();
            if (child == 0)
            {
                close(fds[0]);
                run_case(pending, outs);
                std::string text;
                for (const auto &o : outs) text += o + "\n";
                std::size_t done = 0;
                while (done < text.size())
                {
                    const auto n = write(fds[1], text.data() + done, text.size() - done);
                    if (n <= 0) break;
                    done += static_cast<std::size_t>(n);
                }
                close(fds[1]);
                _exit(0);
            }
            close(fds[1]);
            std::string text;
            char        buffer[4096];
            for (;;)
            {
                const auto n = read(fds[0], buffer, sizeof buffer);
                if (n <= 0) break;
                text.append(buffer, static_cast<std::size_t>(n));
            }
            close(fds[0]);
            int status = 0;
            if (child > 0) waitpid(child, &status, 0);
            std::istringstream is{text};
            std::string        o;
            while (std::getline(is, o)) outs.push_back(o);
            while (outs.size() < pending.size()) outs.emplace_back("<crash in the forked case>");
            outs.resize(pending.size());
        }
        for (const auto &o : outs) std::cout << o << "\n";
        pending.clear();
    };
    std::string line;
    while (std::getline(std::cin, line))
    {
        const auto w = split(line);
        if (w.size() == 2 && w[0] == "case") flush();
        pending.push_back(line);
    }
    flush();
    std::cout.flush();
    return 0;
}
