// hgv_ref (C13): runs a REAL graph compiled from the working tree
//
//     replay(selector), replay(a: S), replay(b: S) [, replay(c: S)]
//        -> if_then_else(cond, a, b)  |  if_cmp(cmp, a, b, c)      (stdlib operators; publish a REF<S>)
//        -> [stage]        direct | pass  (the REF goes through a nested_ sub-graph)
//                                 | inner (the consumers live inside a nested_ sub-graph that takes S)
//                                 | innerref (... that takes the REF<S> and dereferences it itself)
//        -> 1..3 counting consumer nodes   (harness static nodes with an S input; consumer 1 is
//                                           InputValidity::Unchecked, the others use the default gate)
//        -> record(deref)                  the stdlib recorder reading THROUGH the reference
//     record(a), record(b) [, record(c)]   recorder sinks on the targets themselves
//
// in simulation, for a textual history, and prints what every consumer saw in every engine cycle.
// One output line per input line:
//
//   case <id>                               -> "case <id>"      (flushes a pending history first)
//   cfg <shape> <ncons> <stage> [<selop>]   -> "ok" | "bad-op"
//        shape: ts | tss | tsd   (TS<Int>, TSS<Int>, TSD<Int,TS<Int>>);  ncons 1..3
//               tsb2 | tsb3 | tsl2 | tsbw2   STRUCTURED targets: every target is the whole output of ONE node
//               (hgv_make_*: copies each field source that ticked into its field) of schema TSB{x,y} / TSB{x,y,z} /
//               TSL<TS<Int>,2> (elements called x, y); tsbw2 = TSB{x,y} assembled at wiring time with to_tsb (a
//               non-peered reference, one item per field).  One replay source per target field.
//               tsf | tle | tsx | tsm | tssf   SIBLING CHILDREN as targets; the consumers read TS<Int> (tssf: TSS<Int>)
//                 tsf   a..d = fields x,y,z,w of ONE node output TSB{x,y,z,w: TS<Int>}       (getitem_ by name)
//                 tle   a..d = elements 0..3 of ONE node output TSL<TS<Int>,4>               (child path)
//                 tssf  a..d = fields of ONE node output TSB{x,y,z,w: TSS<Int>}              (non-scalar siblings: control)
//                 tsx   a..d = field x of FOUR DIFFERENT node outputs TSB{x,y}               (control)
//                 tsm   a,b = fields x,y of one TSB{x,y} node output;  c,d = independent replay sources
//               ticks as for ts / tss (`a=5`, `a=+1,-2`); the producer nodes copy what ticked into the child
//        stage: direct | pass | inner | innerref;   selop: ite (default) | cmp | tree:<T>
//        tree:<T>  CHAINED references: a selection tree whose inner nodes publish references that are the
//                  branches of the node above.   T ::= a|b|c|d          a target (replay source)
//                                                    | i(T,T)           if_then_else(cond, T, T)
//                                                    | m(T,T,T)         if_cmp(cmp, T, T, T)
//                                                    | p(T)             T (not a target) passed as REF through a nested_ graph
//                  at most 6 selection nodes, depth <= 4, the root is i or m; the selection nodes are numbered
//                  in pre-order (root = 0), each has its own replayed selector; targets a..<highest letter used>
//   c [sel=<a|b|c>] [s<k>=<0|1|2>] [a=<d>] [b=<d>] [c=<d>] [d=<d>]   one engine cycle (MIN_ST + i); answered when the run happens
//        sel=a: cond=true / cmp=LT,  sel=b: cond=false / cmp=EQ,  sel=c: cmp=GT (cmp only)   [ite / cmp cfg only]
//        s<k>=<j>: selector of selection node k ticks and selects its branch j                [tree cfg only]
//        d   ts: <int>     tss: +k,-k,...      tsd: k:v,-k,...
//        structured shapes: the ticks address fields, `a.x=<int>` (several fields of one target per cycle allowed)
//        "r=<0|1> ra=<d|-> rb=<d|-> [rc=<d|->] rs=<d|-> | <c0> | <c1> ..."
//        r    the REF output of the (root) selection operator ticked in this cycle
//        (tsbw2: "r=-" and no n - the graph has other REF nodes, the selection operators are not identified)
//        tree cfg: " n=<count>" follows r: how many nodes of the tree (i, m, p) published a reference in this cycle
//        ra   what the recorder on a (b, c) stored for this cycle;  rs the recorder through the reference
//        <ci> "-" consumer i was not evaluated, else "v=<valid> m=<modified> x=<value|_> d=<delta_value()|_>"
//             (+ " k=<+added,-removed[,~modified]>" from the key accessors for tss / tsd)
//             structured shapes: "v=<valid> m=<modified> x=<x|_>,<y|_>[,<z|_>] fm=<one modified bit per field>";
//             ra / rs are the fields that ticked / were recorded, "x:<v>,y:<v>" (ra from an observer node on the target)
//   run                                     -> "end"
// A history is run when `run`, the next `case`/`cfg` or EOF is read.  Errors -> "err:<class>".
#include "hgv_common.h"

#include <hgraph/lib/std/std_nodes.h>
#include <hgraph/lib/std/std_operators.h>
#include <hgraph/lib/std/operators/comparison.h>
#include <hgraph/lib/std/operators/collection.h>
#include <hgraph/lib/std/operators/control.h>
#include <hgraph/lib/std/operators/impl/record_replay_memory_impl.h>
#include <hgraph/lib/testing/record_replay.h>
#include <hgraph/runtime/lifecycle_observer.h>
#include <hgraph/runtime/runtime.h>
#include <hgraph/types/graph_wiring.h>
#include <hgraph/types/metadata/type_registry.h>
#include <hgraph/types/static_node.h>
#include <hgraph/types/subgraph_wiring.h>

#include <algorithm>
#include <array>
#include <map>
#include <optional>

using namespace hgraph;
using namespace hgv;

namespace
{
    using STS  = TS<Int>;
    using STSS = TSS<Int>;
    using STSD = TSD<Int, TS<Int>>;
    // structured targets
    using SB2  = UnNamedTSB<Field<"x", TS<Int>>, Field<"y", TS<Int>>>;
    using SB3  = UnNamedTSB<Field<"x", TS<Int>>, Field<"y", TS<Int>>, Field<"z", TS<Int>>>;
    using SL2  = TSL<TS<Int>, 2>;
    // one output whose children are the targets (sibling children)
    using SF4  = UnNamedTSB<Field<"x", TS<Int>>, Field<"y", TS<Int>>, Field<"z", TS<Int>>, Field<"w", TS<Int>>>;
    using SL4  = TSL<TS<Int>, 4>;
    using SS4  = UnNamedTSB<Field<"x", TSS<Int>>, Field<"y", TSS<Int>>, Field<"z", TSS<Int>>, Field<"w", TSS<Int>>>;

    template <typename S> constexpr int NFIELDS = 0;
    template <> constexpr int NFIELDS<SB2>  = 2;
    template <> constexpr int NFIELDS<SB3>  = 3;
    template <> constexpr int NFIELDS<SL2>  = 2;
    template <typename S> constexpr bool IS_STRUCT = NFIELDS<S> > 0;
    const char *const FIELD_NAMES[3]               = {"x", "y", "z"};

    // ---- per-run log: cycle -> consumer -> what it saw ---------------------------------------
    std::map<std::int64_t, std::map<int, std::string>> g_seen;

    void note(DateTime now, int idx, std::string what)
    {
        auto &slot = g_seen[us(now) - us(MIN_ST)][idx];
        if (!slot.empty()) { slot += " !twice! "; }
        slot += what;
    }

    std::string join_sorted(std::vector<std::pair<Int, std::string>> items)
    {
        std::sort(items.begin(), items.end(), [](const auto &l, const auto &r) { return l.first < r.first; });
        std::string out;
        for (auto &it : items) { out += (out.empty() ? "" : ",") + it.second; }
        return out;
    }

    std::string int_set_text(const ValueView &set, const char *prefix)
    {
        std::vector<std::pair<Int, std::string>> items;
        if (set.has_value())
        {
            for (const auto &e : set.as_set())
            {
                const Int k = e.checked_as<Int>();
                items.emplace_back(k, prefix + std::to_string(k));
            }
        }
        return join_sorted(std::move(items));
    }

    std::string cat(const std::string &l, const std::string &r) { return l + (l.empty() || r.empty() ? "" : ",") + r; }

    // canonical delta text of a delta Value of shape S
    template <typename S> std::string delta_text(const ValueView &v);
    template <> std::string delta_text<STS>(const ValueView &v)
    {
        return v.has_value() ? std::to_string(v.checked_as<Int>()) : std::string{"_"};
    }
    template <> std::string delta_text<STSS>(const ValueView &v)
    {
        if (!v.has_value()) { return "_"; }
        const auto b = v.as_bundle();
        return "{" + cat(int_set_text(b.at(0), "+"), int_set_text(b.at(1), "-")) + "}";
    }
    template <> std::string delta_text<STSD>(const ValueView &v)
    {
        if (!v.has_value()) { return "_"; }
        const auto b = v.as_bundle();
        std::vector<std::pair<Int, std::string>> mod;
        for (const auto &[kv, dv] : b.at(1).as_map())
        {
            const Int k = kv.checked_as<Int>();
            mod.emplace_back(k, std::to_string(k) + ":" + (dv.has_value() ? std::to_string(dv.checked_as<Int>()) : "_"));
        }
        return "{" + cat(int_set_text(b.at(0), "-"), join_sorted(std::move(mod))) + "}";
    }

    template <typename A>
        requires std::is_same_v<typename A::schema, STS>
    std::string seen_text(const A &ts)
    {
        std::string s = std::string{"v="} + (ts.valid() ? "1" : "0") + " m=" + (ts.modified() ? "1" : "0");
        s += " x=" + (ts.valid() ? std::to_string(ts.value()) : std::string{"_"});
        s += " d=" + (ts.valid() ? delta_text<STS>(ts.base().delta_value()) : std::string{"_"});
        return s;
    }

    template <typename A>
        requires std::is_same_v<typename A::schema, STSS>
    std::string seen_text(const A &ts)
    {
        std::string s = std::string{"v="} + (ts.valid() ? "1" : "0") + " m=" + (ts.modified() ? "1" : "0");
        if (!ts.valid()) { return s + " x=_ d=_ k=_"; }
        std::vector<std::pair<Int, std::string>> vals, add, rem;
        for (Int k : ts.values()) { vals.emplace_back(k, std::to_string(k)); }
        for (Int k : ts.added()) { add.emplace_back(k, "+" + std::to_string(k)); }
        for (Int k : ts.removed()) { rem.emplace_back(k, "-" + std::to_string(k)); }
        s += " x={" + join_sorted(vals) + "}";
        s += " d=" + delta_text<STSS>(ts.delta());
        s += " k={" + cat(join_sorted(add), join_sorted(rem)) + "}";
        return s;
    }

    template <typename A>
        requires std::is_same_v<typename A::schema, STSD>
    std::string seen_text(const A &ts)
    {
        std::string s = std::string{"v="} + (ts.valid() ? "1" : "0") + " m=" + (ts.modified() ? "1" : "0");
        if (!ts.valid()) { return s + " x=_ d=_ k=_"; }
        std::vector<std::pair<Int, std::string>> vals, add, rem, mod;
        for (const auto &[kv, child] : ts.items())
        {
            const Int k = kv.template checked_as<Int>();
            vals.emplace_back(k, std::to_string(k) + ":" + (child.valid() ? std::to_string(child.value()) : std::string{"_"}));
        }
        for (const auto &kv : ts.added_keys()) { const Int k = kv.template checked_as<Int>(); add.emplace_back(k, "+" + std::to_string(k)); }
        for (const auto &kv : ts.removed_keys()) { const Int k = kv.template checked_as<Int>(); rem.emplace_back(k, "-" + std::to_string(k)); }
        for (const auto &[kv, child] : ts.modified_items())
        {
            const Int k = kv.template checked_as<Int>();
            mod.emplace_back(k, "~" + std::to_string(k));
        }
        s += " x={" + join_sorted(vals) + "}";
        s += " d=" + delta_text<STSD>(ts.delta());
        s += " k={" + cat(cat(join_sorted(add), join_sorted(rem)), join_sorted(mod)) + "}";
        return s;
    }

    // field I of a structured input / output (TSB by name, TSL by index)
    template <int I, typename A>
    decltype(auto) fld(A &ts)
    {
        using S = typename std::remove_cvref_t<A>::schema;
        if constexpr (std::is_same_v<S, SL2>) { return ts[I]; }
        else if constexpr (I == 0) { return ts.template field<"x">(); }
        else if constexpr (I == 1) { return ts.template field<"y">(); }
        else { return ts.template field<"z">(); }
    }

    template <typename A, typename F>
    void for_fields(A &ts, F &&f)
    {
        using S = typename std::remove_cvref_t<A>::schema;
        [&]<int... I>(std::integer_sequence<int, I...>) { (f(I, fld<I>(ts)), ...); }(std::make_integer_sequence<int, NFIELDS<S>>{});
    }

    template <typename A>
        requires IS_STRUCT<typename A::schema>
    std::string seen_text(const A &ts)
    {
        std::string s = std::string{"v="} + (ts.valid() ? "1" : "0") + " m=" + (ts.modified() ? "1" : "0");
        std::string x, fm;
        for_fields(ts, [&](int i, auto &&f) {
            x += (i ? "," : "") + (f.valid() ? std::to_string(f.value()) : std::string{"_"});
            fm += f.modified() ? "1" : "0";
        });
        return s + " x=" + x + " fm=" + fm;
    }

    // the fields that ticked, "x:<v>,y:<v>"
    template <typename A>
    std::string ticked_text(const A &ts)
    {
        std::string out;
        for_fields(ts, [&](int i, auto &&f) {
            if (f.modified() && f.valid()) { out += (out.empty() ? "" : ",") + std::string{FIELD_NAMES[i]} + ":" + std::to_string(f.value()); }
        });
        return out;
    }

    template <> std::string delta_text<SB2>(const ValueView &v)
    {
        if (!v.has_value()) { return "_"; }
        const auto  b = v.as_bundle();
        std::string out;
        for (std::size_t i = 0; i < 2; ++i)
        {
            if (!b.element_valid(i) || !b.at(i).has_value()) { continue; }
            out += (out.empty() ? "" : ",") + std::string{FIELD_NAMES[i]} + ":" + std::to_string(b.at(i).checked_as<Int>());
        }
        return out;
    }
    template <> std::string delta_text<SB3>(const ValueView &v)
    {
        if (!v.has_value()) { return "_"; }
        const auto  b = v.as_bundle();
        std::string out;
        for (std::size_t i = 0; i < 3; ++i)
        {
            if (!b.element_valid(i) || !b.at(i).has_value()) { continue; }
            out += (out.empty() ? "" : ",") + std::string{FIELD_NAMES[i]} + ":" + std::to_string(b.at(i).checked_as<Int>());
        }
        return out;
    }
    template <> std::string delta_text<SL2>(const ValueView &v)
    {
        if (!v.has_value()) { return "_"; }
        std::vector<std::pair<Int, std::string>> items;
        for (const auto &[kv, dv] : v.as_map())
        {
            const Int k = kv.checked_as<Int>();
            items.emplace_back(k, std::string{FIELD_NAMES[k]} + ":" + (dv.has_value() ? std::to_string(dv.checked_as<Int>()) : "_"));
        }
        return join_sorted(std::move(items));
    }

    // ---- structured targets: one node whose whole output is the target -------------------------
    template <typename S> struct HgvMake;
    template <> struct HgvMake<SB2>
    {
        static constexpr auto name = "hgv_make_b2";
        static void eval(In<"x", TS<Int>, InputValidity::Unchecked> x, In<"y", TS<Int>, InputValidity::Unchecked> y, Out<SB2> out)
        {
            if (x.modified()) { out.field<"x">().set(x.value()); }
            if (y.modified()) { out.field<"y">().set(y.value()); }
        }
    };
    template <> struct HgvMake<SB3>
    {
        static constexpr auto name = "hgv_make_b3";
        static void eval(In<"x", TS<Int>, InputValidity::Unchecked> x, In<"y", TS<Int>, InputValidity::Unchecked> y,
                         In<"z", TS<Int>, InputValidity::Unchecked> z, Out<SB3> out)
        {
            if (x.modified()) { out.field<"x">().set(x.value()); }
            if (y.modified()) { out.field<"y">().set(y.value()); }
            if (z.modified()) { out.field<"z">().set(z.value()); }
        }
    };
    template <> struct HgvMake<SL2>
    {
        static constexpr auto name = "hgv_make_l2";
        static void eval(In<"x", TS<Int>, InputValidity::Unchecked> x, In<"y", TS<Int>, InputValidity::Unchecked> y, Out<SL2> out)
        {
            if (x.modified()) { out.set(0, x.value()); }
            if (y.modified()) { out.set(1, y.value()); }
        }
    };

    // ---- sibling children: ONE node, ONE output, four children that tick independently ---------
    struct HgvMakeF4
    {
        static constexpr auto name = "hgv_make_f4";
        static void eval(In<"x", TS<Int>, InputValidity::Unchecked> x, In<"y", TS<Int>, InputValidity::Unchecked> y,
                         In<"z", TS<Int>, InputValidity::Unchecked> z, In<"w", TS<Int>, InputValidity::Unchecked> v, Out<SF4> out)
        {
            if (x.modified()) { out.field<"x">().set(x.value()); }
            if (y.modified()) { out.field<"y">().set(y.value()); }
            if (z.modified()) { out.field<"z">().set(z.value()); }
            if (v.modified()) { out.field<"w">().set(v.value()); }
        }
    };
    struct HgvMakeL4
    {
        static constexpr auto name = "hgv_make_l4";
        static void eval(In<"x", TS<Int>, InputValidity::Unchecked> x, In<"y", TS<Int>, InputValidity::Unchecked> y,
                         In<"z", TS<Int>, InputValidity::Unchecked> z, In<"w", TS<Int>, InputValidity::Unchecked> v, Out<SL4> out)
        {
            if (x.modified()) { out.set(0, x.value()); }
            if (y.modified()) { out.set(1, y.value()); }
            if (z.modified()) { out.set(2, z.value()); }
            if (v.modified()) { out.set(3, v.value()); }
        }
    };
    struct HgvMakeSS4
    {
        static constexpr auto name = "hgv_make_ss4";
        template <typename I, typename O>
        static void copy(const I &in, O &&out)
        {
            if (!in.modified()) { return; }
            for (Int r : in.removed()) { out.remove(r); }
            for (Int a : in.added()) { out.add(a); }
        }
        static void eval(In<"x", TSS<Int>, InputValidity::Unchecked> x, In<"y", TSS<Int>, InputValidity::Unchecked> y,
                         In<"z", TSS<Int>, InputValidity::Unchecked> z, In<"w", TSS<Int>, InputValidity::Unchecked> v, Out<SS4> out)
        {
            copy(x, out.field<"x">());
            copy(y, out.field<"y">());
            copy(z, out.field<"z">());
            copy(v, out.field<"w">());
        }
    };
    const char *const FIELD4[4] = {"x", "y", "z", "w"};

    // child `index` of a node output, addressed by path
    template <typename C, typename P>
    Port<C> child_port(Wiring &w, const P &parent, std::size_t index)
    {
        auto path = parent.path();
        path.push_back(index);
        return Port<C>{w, parent.node(), std::move(path)};
    }

    // what ticked on a target itself (the structured counterpart of record(a))
    std::map<std::int64_t, std::map<int, std::string>> g_target;
    template <typename S>
    struct HgvTargetObs
    {
        static constexpr auto name = "hgv_target_obs";
        static void eval(DateTime now, Scalar<"idx", Int> idx, In<"ts", S, InputValidity::Unchecked> ts)
        {
            g_target[us(now) - us(MIN_ST)][static_cast<int>(idx.value())] = ticked_text(ts);
        }
    };

    // ---- the counting consumers ---------------------------------------------------------------
    template <typename S, bool Checked>
    struct HgvConsumer
    {
        static constexpr auto name = Checked ? "hgv_consumer" : "hgv_consumer_unchecked";
        static void eval(DateTime now, Scalar<"idx", Int> idx,
                         In<"ts", S, (Checked ? InputValidity::Valid : InputValidity::Unchecked)> ts)
        {
            note(now, static_cast<int>(idx.value()), seen_text(ts));
        }
    };

    template <typename S>
    void wire_consumers(Wiring &w, Port<S> ts, int n)
    {
        for (int i = 0; i < n; ++i)
        {
            if (i == 1) { wire<HgvConsumer<S, false>>(w, Int{i}, ts); }
            else { wire<HgvConsumer<S, true>>(w, Int{i}, ts); }
        }
    }

    // nested stages
    template <typename S>
    struct HgvRefPass
    {
        static constexpr auto name = "hgv_ref_pass";
        static Port<REF<S>>   compose(Wiring &, Port<REF<S>> in) { return in; }
    };

    template <typename S, int N>
    struct HgvInner
    {
        static constexpr auto name = "hgv_ref_inner";
        static void           compose(Wiring &w, Port<S> in) { wire_consumers<S>(w, in, N); }
    };

    // the REF itself crosses the boundary; the child dereferences it for its consumers
    template <typename S, int N>
    struct HgvInnerRef
    {
        static constexpr auto name = "hgv_ref_inner_ref";
        static void           compose(Wiring &w, Port<REF<S>> in) { wire_consumers<S>(w, in.template as<S>(), N); }
    };

    // ---- selection trees (chained references) ---------------------------------------------------
    struct TNode
    {
        char             kind{'l'};   // l leaf, i if_then_else, m if_cmp, p nested pass-through
        int              target{0};   // leaf: target index
        int              sel{-1};     // i / m: selector number (pre-order)
        std::vector<int> kids;
    };

    struct Tree
    {
        std::vector<TNode> nodes;
        int                root{-1};
        int                nsel{0};
        int                ntargets{0};
        std::vector<int>   arity;     // per selector number
    };

    constexpr int MAX_TARGETS = 4;
    constexpr int MAX_SEL     = 6;
    constexpr int MAX_DEPTH   = 4;

    // recursive descent over "i(T,T)" / "m(T,T,T)" / "p(T)" / letter;  -1 = malformed
    int parse_tree(const std::string &txt, std::size_t &pos, Tree &t, int depth)
    {
        if (pos >= txt.size() || depth > MAX_DEPTH) { return -1; }
        const char ch = txt[pos];
        if (ch >= 'a' && ch < 'a' + MAX_TARGETS)
        {
            ++pos;
            TNode n;
            n.target   = ch - 'a';
            t.ntargets = std::max(t.ntargets, n.target + 1);
            t.nodes.push_back(n);
            return static_cast<int>(t.nodes.size()) - 1;
        }
        if (ch != 'i' && ch != 'm' && ch != 'p') { return -1; }
        const std::size_t want = ch == 'i' ? 2 : ch == 'm' ? 3 : 1;
        ++pos;
        if (pos >= txt.size() || txt[pos] != '(') { return -1; }
        ++pos;
        TNode n;
        n.kind = ch;
        if (ch != 'p')
        {
            if (t.nsel >= MAX_SEL) { return -1; }
            n.sel = t.nsel++;
            t.arity.push_back(static_cast<int>(want));
        }
        const int self = static_cast<int>(t.nodes.size());
        t.nodes.push_back(n);
        for (std::size_t k = 0; k < want; ++k)
        {
            if (k > 0)
            {
                if (pos >= txt.size() || txt[pos] != ',') { return -1; }
                ++pos;
            }
            const int kid = parse_tree(txt, pos, t, depth + 1);
            if (kid < 0 || (ch == 'p' && t.nodes[kid].kind == 'l')) { return -1; }
            t.nodes[self].kids.push_back(kid);
        }
        if (pos >= txt.size() || txt[pos] != ')') { return -1; }
        ++pos;
        return self;
    }

    bool make_tree(const std::string &txt, Tree &out)
    {
        Tree        t;
        std::size_t pos = 0;
        t.root          = parse_tree(txt, pos, t, 1);
        if (t.root < 0 || pos != txt.size()) { return false; }
        if (t.nodes[t.root].kind != 'i' && t.nodes[t.root].kind != 'm') { return false; }
        out = std::move(t);
        return true;
    }

    struct Cfg
    {
        std::string shape{"ts"};
        int         ncons{1};
        std::string stage{"direct"};
        bool        cmp{false};
        std::string sib;              // tsf | tle | tsx | tsm | tssf: the targets are children of node outputs
        bool        wired{false};     // tsbw2: targets assembled at wiring time (to_tsb)
        bool        chained{false};   // cfg ... tree:<T>
        Tree        tree;             // always set: ite = i(a,b), cmp = m(a,b,c)
        int         targets() const { return tree.ntargets; }
        int         nfields() const { return shape == "tsb3" ? 3 : (shape == "tsb2" || shape == "tsl2" || shape == "tsbw2") ? 2 : 0; }
    };

    struct DeltaSpec
    {
        std::vector<std::pair<Int, Int>> sets;  // ts: one (0, v); tss: (k, 0); tsd: (k, v)
        std::vector<Int>                 dels;
    };

    struct Cycle
    {
        std::array<std::optional<int>, MAX_SEL>           sel;   // per selection node
        std::array<std::optional<DeltaSpec>, MAX_TARGETS> d;
    };

    std::vector<std::string> split_commas(const std::string &tok)
    {
        std::vector<std::string> out;
        std::string              cur;
        for (char ch : tok)
        {
            if (ch == ',') { out.push_back(cur); cur.clear(); }
            else { cur += ch; }
        }
        out.push_back(cur);
        return out;
    }

    bool parse_nat(const std::string &s, Int &out)
    {
        if (s.empty() || s.size() > 9) { return false; }
        for (char ch : s)
        {
            if (ch < '0' || ch > '9') { return false; }
        }
        out = Int{std::stoll(s)};
        return true;
    }

    bool parse_int(const std::string &s, Int &out)
    {
        if (!s.empty() && s[0] == '-')
        {
            Int n{};
            if (!parse_nat(s.substr(1), n)) { return false; }
            out = -n;
            return true;
        }
        return parse_nat(s, out);
    }

    // textual delta -> DeltaSpec, syntax by shape; false = malformed
    bool parse_spec(const std::string &shape, const std::string &tok, DeltaSpec &out)
    {
        if (shape == "ts")
        {
            Int v{};
            if (!parse_int(tok, v)) { return false; }
            out.sets.emplace_back(Int{0}, v);
            return true;
        }
        for (const auto &p : split_commas(tok))
        {
            Int k{}, v{};
            if (shape == "tss")
            {
                if (p.size() < 2 || (p[0] != '+' && p[0] != '-') || !parse_nat(p.substr(1), k)) { return false; }
                if (p[0] == '+') { out.sets.emplace_back(k, Int{0}); }
                else { out.dels.push_back(k); }
            }
            else
            {
                if (p.size() >= 2 && p[0] == '-')
                {
                    if (!parse_nat(p.substr(1), k)) { return false; }
                    out.dels.push_back(k);
                    continue;
                }
                auto c = p.find(':');
                if (c == std::string::npos || !parse_nat(p.substr(0, c), k) || !parse_int(p.substr(c + 1), v)) { return false; }
                out.sets.emplace_back(k, v);
            }
        }
        return true;
    }

    template <typename S> Value make_delta(const DeltaSpec &d);
    template <> Value make_delta<STS>(const DeltaSpec &d) { return Value{Int{d.sets.at(0).second}}; }
    template <> Value make_delta<STSS>(const DeltaSpec &d)
    {
        std::vector<Int> added;
        for (const auto &[k, v] : d.sets) { added.push_back(k); }
        return set_delta<Int>(added, d.dels);
    }
    template <> Value make_delta<STSD>(const DeltaSpec &d)
    {
        std::map<Int, Int> modified;
        for (const auto &[k, v] : d.sets) { modified[k] = v; }
        return static_node_detail::build_dict_delta<Int, TS<Int>>(modified, d.dels);
    }

    struct Obs final : LifecycleObserver
    {
        std::map<std::int64_t, bool> ref_ticked;
        std::map<std::int64_t, int>  published;
        int                          nsel{1};
        void on_after_graph_evaluation(const GraphView &graph) override
        {
            if (!graph.is_root()) { return; }
            const auto i = us(graph.evaluation_time()) - us(MIN_ST);
            int        seen = 0, count = 0;
            for (std::size_t index = 0; index < graph.node_count() && seen < nsel; ++index)
            {
                auto node = graph.node_at(index);
                // the first nodes with a REF output are the nodes of the selection tree (selection operators and
                // nested pass-throughs); nodes are stored in rank order, so the root of the tree - it depends on all
                // the others - is the last of them (a `pass` stage node comes after the root)
                if (!node.has_output()) { continue; }
                auto out = node.output(graph.evaluation_time());
                if (out.schema() == nullptr || out.schema()->kind != TSTypeKind::REF) { continue; }
                ++seen;
                if (out.modified()) { ++count; }
                if (seen == nsel) { ref_ticked[i] = out.modified(); }
            }
            published[i] = count;
        }
    };

    template <typename S, int N>
    void wire_inner(Wiring &w, Port<S> deref) { nested_<HgvInner<S, N>>(w, deref); }

    const char *const TARGET_KEYS[MAX_TARGETS] = {"hgv::a", "hgv::b", "hgv::c", "hgv::d"};
    const char *const RECORD_KEYS[MAX_TARGETS] = {"hgv::ra", "hgv::rb", "hgv::rc", "hgv::rd"};
    const char *const SEL_KEYS[MAX_SEL] = {"hgv::sel", "hgv::sel1", "hgv::sel2", "hgv::sel3", "hgv::sel4", "hgv::sel5"};

    // wire the selection tree bottom-up; every inner result is handed on un-dereferenced (the REF output of
    // the operator node bound to the REF input of the node above)
    template <typename S>
    Port<S> wire_tree(Wiring &w, const Tree &t, int n, const std::vector<Port<S>> &tg)
    {
        const TNode &node = t.nodes[n];
        if (node.kind == 'l') { return tg[node.target]; }
        std::vector<Port<S>> kids;
        for (int k : node.kids) { kids.push_back(wire_tree<S>(w, t, k, tg)); }
        if (node.kind == 'p') { return nested_<HgvRefPass<S>>(w, kids[0].template as<REF<S>>()).template as<S>(); }
        if (node.kind == 'm')
        {
            auto selector = wire<stdlib::replay_impl, TS<stdlib::CmpResult>>(w, Str{SEL_KEYS[node.sel]});
            return wire<stdlib::if_cmp>(w, selector, kids[0], kids[1], kids[2]).template as<S>();
        }
        auto selector = wire<stdlib::replay_impl, TS<Bool>>(w, Str{SEL_KEYS[node.sel]});
        return wire<stdlib::if_then_else>(w, selector, kids[0], kids[1]).template as<S>();
    }

    template <typename S>
    std::vector<std::string> run_history(const Cfg &cfg, const std::vector<Cycle> &cycles)
    {
        g_seen.clear();
        g_target.clear();
        Wiring w;
        record_replay::set_config(w.global_state(),
                                  record_replay::RecordReplayConfig{.backend = std::string{record_replay::TESTING}});
        std::vector<Port<S>> tg;
        auto field_key = [](int t, int f) { return std::string{TARGET_KEYS[t]} + "." + FIELD_NAMES[f]; };
        for (int t = 0; t < cfg.targets(); ++t)
        {
            if constexpr (IS_STRUCT<S>)
            {
                std::vector<Port<TS<Int>>> src;
                for (int f = 0; f < NFIELDS<S>; ++f) { src.push_back(wire<stdlib::replay_impl, TS<Int>>(w, Str{field_key(t, f)})); }
                if constexpr (std::is_same_v<S, SB3>) { tg.push_back(wire<HgvMake<S>>(w, src[0], src[1], src[2])); }
                else if constexpr (std::is_same_v<S, SB2>)
                {
                    if (cfg.wired) { tg.push_back(stdlib::to_tsb<SB2>(w, src[0], src[1])); }
                    else { tg.push_back(wire<HgvMake<S>>(w, src[0], src[1])); }
                }
                else { tg.push_back(wire<HgvMake<S>>(w, src[0], src[1])); }
            }
            else if (cfg.sib.empty()) { tg.push_back(wire<stdlib::replay_impl, S>(w, Str{TARGET_KEYS[t]})); }
        }
        if constexpr (std::is_same_v<S, STS> || std::is_same_v<S, STSS>)
        {
            if (!cfg.sib.empty())
            {
                std::vector<Port<S>> src;
                for (int t = 0; t < MAX_TARGETS; ++t) { src.push_back(wire<stdlib::replay_impl, S>(w, Str{TARGET_KEYS[t]})); }
                if constexpr (std::is_same_v<S, STSS>)
                {
                    auto one = wire<HgvMakeSS4>(w, src[0], src[1], src[2], src[3]);
                    for (int t = 0; t < cfg.targets(); ++t) { tg.push_back(child_port<S>(w, one, static_cast<std::size_t>(t))); }
                }
                else if (cfg.sib == "tsf")
                {
                    auto one = wire<HgvMakeF4>(w, src[0], src[1], src[2], src[3]);
                    for (int t = 0; t < cfg.targets(); ++t)
                    {
                        tg.push_back(wire<stdlib::getitem_>(w, one, Str{FIELD4[t]}).template as<S>());
                    }
                }
                else if (cfg.sib == "tle")
                {
                    auto one = wire<HgvMakeL4>(w, src[0], src[1], src[2], src[3]);
                    for (int t = 0; t < cfg.targets(); ++t) { tg.push_back(child_port<S>(w, one, static_cast<std::size_t>(t))); }
                }
                else if (cfg.sib == "tsx")
                {
                    for (int t = 0; t < cfg.targets(); ++t)
                    {
                        auto bundle = wire<HgvMake<SB2>>(w, src[t], src[t]);
                        tg.push_back(wire<stdlib::getitem_>(w, bundle, Str{"x"}).template as<S>());
                    }
                }
                else   // tsm
                {
                    auto pair = wire<HgvMake<SB2>>(w, src[0], src[1]);
                    tg.push_back(wire<stdlib::getitem_>(w, pair, Str{"x"}).template as<S>());
                    tg.push_back(child_port<S>(w, pair, 1));
                    for (int t = 2; t < cfg.targets(); ++t) { tg.push_back(src[t]); }
                }
            }
        }
        auto wire_rest = [&](auto sel) {
            if (cfg.stage == "direct") { wire_consumers<S>(w, sel.template as<S>(), cfg.ncons); }
            else if (cfg.stage == "pass")
            {
                auto through = nested_<HgvRefPass<S>>(w, sel.template as<REF<S>>());
                wire_consumers<S>(w, through.template as<S>(), cfg.ncons);
            }
            else if (cfg.stage == "innerref")
            {
                auto ref = sel.template as<REF<S>>();
                if (cfg.ncons == 1) { nested_<HgvInnerRef<S, 1>>(w, ref); }
                else if (cfg.ncons == 2) { nested_<HgvInnerRef<S, 2>>(w, ref); }
                else { nested_<HgvInnerRef<S, 3>>(w, ref); }
            }
            else
            {
                auto deref = sel.template as<S>();
                if (cfg.ncons == 1) { wire_inner<S, 1>(w, deref); }
                else if (cfg.ncons == 2) { wire_inner<S, 2>(w, deref); }
                else { wire_inner<S, 3>(w, deref); }
            }
            wire<stdlib::dense_record_impl>(w, sel.template as<S>(), Str{"hgv::rs"});
        };
        if (cfg.chained) { wire_rest(wire_tree<S>(w, cfg.tree, cfg.tree.root, tg)); }
        else if (cfg.cmp)
        {
            auto selector = wire<stdlib::replay_impl, TS<stdlib::CmpResult>>(w, Str{"hgv::sel"});
            wire_rest(wire<stdlib::if_cmp>(w, selector, tg[0], tg[1], tg[2]));
        }
        else
        {
            auto selector = wire<stdlib::replay_impl, TS<Bool>>(w, Str{"hgv::sel"});
            wire_rest(wire<stdlib::if_then_else>(w, selector, tg[0], tg[1]));
        }
        for (int t = 0; t < cfg.targets(); ++t)
        {
            if constexpr (IS_STRUCT<S>) { wire<HgvTargetObs<S>>(w, Int{t}, tg[t]); }
            else { wire<stdlib::dense_record_impl>(w, tg[t], Str{RECORD_KEYS[t]}); }
        }
        GraphBuilder gb = std::move(w).finish();

        std::array<std::vector<std::optional<Value>>, MAX_SEL>     ds;
        std::array<std::vector<std::optional<Value>>, MAX_TARGETS> dt;
        for (const auto &c : cycles)
        {
            for (int k = 0; k < cfg.tree.nsel; ++k)
            {
                const auto &sel = c.sel[k];
                if (!sel.has_value()) { ds[k].emplace_back(std::nullopt); }
                else if (cfg.tree.arity[k] == 3)
                {
                    const auto r = *sel == 0 ? stdlib::CmpResult::LT : *sel == 1 ? stdlib::CmpResult::EQ : stdlib::CmpResult::GT;
                    ds[k].emplace_back(Value{r});
                }
                else { ds[k].emplace_back(Value{Bool{*sel == 0}}); }
            }
            if constexpr (!IS_STRUCT<S>)
            {
                for (int t = 0; t < cfg.targets(); ++t)
                {
                    dt[t].push_back(c.d[t].has_value() ? std::optional<Value>{make_delta<S>(*c.d[t])} : std::nullopt);
                }
            }
        }
        for (int k = 0; k < cfg.tree.nsel; ++k) { testing::set_replay_deltas(gb.global_state(), SEL_KEYS[k], ds[k]); }
        if constexpr (IS_STRUCT<S>)
        {
            for (int t = 0; t < cfg.targets(); ++t)
            {
                for (int f = 0; f < NFIELDS<S>; ++f)
                {
                    std::vector<std::optional<Value>> df;
                    for (const auto &c : cycles)
                    {
                        std::optional<Value> v;
                        if (c.d[t].has_value())
                        {
                            for (const auto &[k, val] : c.d[t]->sets)
                            {
                                if (k == Int{f}) { v = Value{Int{val}}; }
                            }
                        }
                        df.push_back(std::move(v));
                    }
                    testing::set_replay_deltas(gb.global_state(), field_key(t, f), df);
                }
            }
        }
        if constexpr (!IS_STRUCT<S>)
        {
            for (int t = 0; t < cfg.targets(); ++t) { testing::set_replay_deltas(gb.global_state(), TARGET_KEYS[t], dt[t]); }
            // sibling modes feed all four inputs of the producer: the unused ones never tick
            for (int t = cfg.targets(); t < MAX_TARGETS && !cfg.sib.empty(); ++t)
            {
                testing::set_replay_deltas(gb.global_state(), TARGET_KEYS[t], std::vector<std::optional<Value>>(cycles.size()));
            }
        }

        Obs obs;
        obs.nsel = 0;
        for (const auto &n : cfg.tree.nodes) { obs.nsel += n.kind != 'l' ? 1 : 0; }
        GraphExecutorBuilder eb;
        eb.graph_builder(std::move(gb))
            .start_time(MIN_ST)
            .end_time(MIN_ST + TimeDelta{static_cast<std::int64_t>(cycles.size()) + 2});
        eb.add_lifecycle_observer(&obs);
        GraphExecutorValue executor = eb.make_executor();
        auto               view     = executor.view();
        view.run();

        std::array<std::vector<std::optional<Value>>, MAX_TARGETS> rec;
        if constexpr (!IS_STRUCT<S>)
        {
            for (int t = 0; t < cfg.targets(); ++t) { rec[t] = testing::get_recorded_deltas(view.graph().global_state(), RECORD_KEYS[t]); }
        }
        auto rs = testing::get_recorded_deltas(view.graph().global_state(), "hgv::rs");
        std::vector<std::string> lines;
        const char *const        names[MAX_TARGETS] = {" ra=", " rb=", " rc=", " rd="};
        for (std::size_t i = 0; i < cycles.size(); ++i)
        {
            const auto  ci = static_cast<std::int64_t>(i);
            // tsbw2: the REF nodes of the graph are not only the selection operators - r / n are not observed
            std::string s  = std::string{"r="} + (cfg.wired ? "-" : obs.ref_ticked.count(ci) && obs.ref_ticked[ci] ? "1" : "0");
            if (cfg.chained && !cfg.wired) { s += " n=" + std::to_string(obs.published.count(ci) ? obs.published[ci] : 0); }
            for (int t = 0; t < cfg.targets(); ++t)
            {
                if constexpr (IS_STRUCT<S>)
                {
                    auto it = g_target.find(ci);
                    s += names[t] + (it != g_target.end() && it->second.count(t) && !it->second[t].empty() ? it->second[t] : std::string{"-"});
                }
                else { s += names[t] + (i < rec[t].size() && rec[t][i].has_value() ? delta_text<S>(rec[t][i]->view()) : std::string{"-"}); }
            }
            std::string rst = i < rs.size() && rs[i].has_value() ? delta_text<S>(rs[i]->view()) : std::string{"-"};
            s += " rs=" + (rst.empty() ? std::string{"-"} : rst);
            for (int k = 0; k < cfg.ncons; ++k)
            {
                auto it = g_seen.find(ci);
                s += " | ";
                if (it == g_seen.end() || !it->second.count(k)) { s += "-"; }
                else { s += it->second[k]; }
            }
            lines.push_back(std::move(s));
        }
        for (const auto &[ci, per] : g_seen)
        {
            if (ci >= static_cast<std::int64_t>(cycles.size())) { lines.assign(cycles.size(), "err:activity-after-history"); break; }
        }
        lines.push_back("end");
        return lines;
    }
}  // namespace

int main()
{
    std::ios::sync_with_stdio(false);
    hgraph::stdlib::register_standard_operators();

    Cfg                cfg;
    make_tree("i(a,b)", cfg.tree);
    std::vector<Cycle> cycles;
    bool               cfg_bad = false;
    const bool         debug   = getenv("HGV_DEBUG") != nullptr;

    auto flush = [&](bool with_run_line) {
        if (cycles.empty() && !with_run_line) { return; }
        std::vector<std::string> lines;
        try
        {
            if (cfg.shape == "ts") { lines = run_history<STS>(cfg, cycles); }
            else if (cfg.shape == "tss") { lines = run_history<STSS>(cfg, cycles); }
            else if (cfg.shape == "tsd") { lines = run_history<STSD>(cfg, cycles); }
            else if (cfg.shape == "tsb3") { lines = run_history<SB3>(cfg, cycles); }
            else if (cfg.shape == "tsl2") { lines = run_history<SL2>(cfg, cycles); }
            else { lines = run_history<SB2>(cfg, cycles); }
        }
        catch (const std::invalid_argument &e)
        {
            lines.assign(cycles.size() + 1, std::string{"err:invalid-argument"});
            if (debug) { std::cerr << e.what() << "\n"; }
        }
        catch (const std::exception &e)
        {
            lines.assign(cycles.size() + 1, std::string{"err:exception"});
            if (debug) { std::cerr << e.what() << "\n"; }
        }
        if (lines.size() != cycles.size() + 1) { lines.resize(cycles.size() + 1, lines.empty() ? "err:short" : lines.back()); }
        for (std::size_t i = 0; i < cycles.size(); ++i) { std::cout << lines[i] << "\n"; }
        if (with_run_line) { std::cout << lines.back() << "\n"; }
        cycles.clear();
    };

    std::string line;
    while (std::getline(std::cin, line))
    {
        auto w = split(line);
        if (w.empty()) { flush(false); std::cout << "\n"; continue; }
        const std::string &op = w[0];
        try
        {
            if (op == "case")
            {
                flush(false);
                cfg     = Cfg{};
                make_tree("i(a,b)", cfg.tree);
                cfg_bad = false;
                std::cout << line << "\n";
            }
            else if (op == "cfg")
            {
                flush(false);
                Cfg  c;
                const bool chained = w.size() == 5 && w[4].rfind("tree:", 0) == 0;
                bool ok = (w.size() == 4 || w.size() == 5) && (w[1] == "ts" || w[1] == "tss" || w[1] == "tsd" || w[1] == "tsb2" || w[1] == "tsb3" || w[1] == "tsl2" ||
                           w[1] == "tsbw2" || w[1] == "tsf" || w[1] == "tle" || w[1] == "tsx" || w[1] == "tsm" || w[1] == "tssf") &&
                          (w[2] == "1" || w[2] == "2" || w[2] == "3") &&
                          (w[3] == "direct" || w[3] == "pass" || w[3] == "inner" || w[3] == "innerref") &&
                          (w.size() == 4 || w[4] == "ite" || w[4] == "cmp" || chained);
                if (ok)
                {
                    c.cmp     = w.size() == 5 && w[4] == "cmp";
                    c.chained = chained;
                    ok        = make_tree(chained ? w[4].substr(5) : c.cmp ? std::string{"m(a,b,c)"} : std::string{"i(a,b)"}, c.tree);
                }
                if (ok)
                {
                    c.shape = w[1];
                    if (w[1] == "tsf" || w[1] == "tle" || w[1] == "tsx" || w[1] == "tsm") { c.sib = w[1]; c.shape = "ts"; }
                    if (w[1] == "tssf") { c.sib = w[1]; c.shape = "tss"; }
                    c.wired = w[1] == "tsbw2";
                    c.ncons = static_cast<int>(to_i(w[2]));
                    c.stage = w[3];
                    cfg     = c;
                    cfg_bad = false;
                    std::cout << "ok\n";
                }
                else { cfg_bad = true; std::cout << "bad-op\n"; }
            }
            else if (op == "c")
            {
                Cycle cy;
                bool  ok = !cfg_bad;   // after a rejected cfg every cycle line is rejected too
                for (std::size_t i = 1; i < w.size() && ok; ++i)
                {
                    const auto eq = w[i].find('=');
                    if (eq == std::string::npos) { ok = false; break; }
                    const std::string k = w[i].substr(0, eq), v = w[i].substr(eq + 1);
                    if (k == "sel" && !cfg.chained && (v == "a" || v == "b" || (v == "c" && cfg.cmp)) && !cy.sel[0].has_value())
                    {
                        cy.sel[0] = v[0] - 'a';
                    }
                    else if (cfg.chained && k.size() == 2 && k[0] == 's' && k[1] >= '0' && k[1] < '0' + cfg.tree.nsel &&
                             v.size() == 1 && v[0] >= '0' && v[0] < '0' + cfg.tree.arity[k[1] - '0'] &&
                             !cy.sel[k[1] - '0'].has_value())
                    {
                        cy.sel[k[1] - '0'] = v[0] - '0';
                    }
                    else if (cfg.nfields() > 0)
                    {
                        // structured: <target>.<field>=<int>, each field of a target at most once per cycle
                        Int val{};
                        ok = k.size() == 3 && k[1] == '.' && k[0] >= 'a' && k[0] < 'a' + cfg.targets() && k[2] >= 'x' &&
                             k[2] < 'x' + cfg.nfields() && parse_int(v, val);
                        if (ok)
                        {
                            auto &d = cy.d[k[0] - 'a'];
                            if (!d.has_value()) { d = DeltaSpec{}; }
                            for (const auto &[f, old] : d->sets) { ok = ok && f != Int{k[2] - 'x'}; }
                            if (ok) { d->sets.emplace_back(Int{k[2] - 'x'}, val); }
                        }
                    }
                    else if (k.size() == 1 && k[0] >= 'a' && k[0] < 'a' + cfg.targets() && !cy.d[k[0] - 'a'].has_value())
                    {
                        DeltaSpec d;
                        ok = parse_spec(cfg.shape, v, d);
                        cy.d[k[0] - 'a'] = std::move(d);
                    }
                    else { ok = false; }
                }
                if (!ok) { flush(false); std::cout << "bad-op\n"; }
                else { cycles.push_back(std::move(cy)); }
            }
            else if (op == "run")
            {
                if (cfg_bad) { flush(false); std::cout << "bad-op\n"; }
                else { flush(true); }
            }
            else { flush(false); std::cout << "bad-op\n"; }
        }
        catch (const std::exception &) { flush(false); std::cout << "bad-op\n"; }
    }
    flush(false);
    return 0;
}
