// hgv_ref (C13): runs a REAL graph compiled from the working tree
//
//     replay(cond: TS<Bool>), replay(a: S), replay(b: S)
//        -> if_then_else(cond, a, b)            (stdlib operator; publishes a REF<S>)
//        -> [stage]                             direct | pass (the REF goes through a nested_ sub-graph)
//                                               | inner (the consumers live inside a nested_ sub-graph)
//        -> 1..3 counting consumer nodes        (harness static nodes with an S input; consumer 1 is
//                                               InputValidity::Unchecked, the others use the default)
//     record(a), record(b)                      recorder sinks on both targets
//
// in simulation, for a textual history, and prints what every consumer saw in every engine cycle.
// One output line per input line:
//
//   case <id>                          -> "case <id>"          (flushes a pending history first)
//   cfg <shape> <ncons> <stage>        -> "ok" | "bad-op"      shape: ts | tss | tsd
//        (TS<Int>, TSS<Int>, TSD<Int,TS<Int>>)
//   c [cond=<0|1>] [a=<d>] [b=<d>]     one engine cycle (MIN_ST + i); answered when the run happens:
//        d   ts: <int>     tss: +k,-k,...      tsd: k:v,-k,...
//        "r=<0|1> ra=<d|-> rb=<d|-> | <c0> | <c1> ..."
//        r    the REF output of if_then_else ticked in this cycle
//        ra   what the recorder on a (b) stored for this cycle
//        <ci> "-" consumer i was not evaluated, else "v=<valid> m=<modified> x=<value|_> d=<delta|_>"
//             (+ " k=<+added,-removed>" from the key accessors for tss / tsd)
//   run                                -> "end"
// A history is run when `run`, the next `case` or EOF is read.  Errors -> "err:<class>".
#include "hgv_common.h"

#include <hgraph/lib/std/std_nodes.h>
#include <hgraph/lib/std/std_operators.h>
#include <hgraph/lib/std/operators/control.h>
#include <hgraph/lib/std/operators/impl/record_replay_memory_impl.h>
#include <hgraph/lib/testing/record_replay.h>
#include <hgraph/runtime/lifecycle_observer.h>
#include <hgraph/runtime/runtime.h>
#include <hgraph/types/graph_wiring.h>
#include <hgraph/types/metadata/type_registry.h>
#include <hgraph/types/static_node.h>
#include <hgraph/types/subgraph_wiring.h>

#include <algorithm>
#include <map>
#include <optional>

using namespace hgraph;
using namespace hgv;

namespace
{
    using STS  = TS<Int>;
    using STSS = TSS<Int>;
    using STSD = TSD<Int, TS<Int>>;

    // ---- per-run log: cycle -> consumer -> what it saw ---------------------------------------
    std::map<std::int64_t, std::map<int, std::string>> g_seen;

    void note(DateTime now, int idx, std::string what)
    {
        auto &slot = g_seen[us(now) - us(MIN_ST)][idx];
        if (!slot.empty()) { slot += " !twice! "; }
        slot += what;
    }

    std::string join_sorted(std::vector<std::pair<Int, std::string>> items)
    {
        std::sort(items.begin(), items.end(), [](const auto &l, const auto &r) { return l.first < r.first; });
        std::string out;
        for (auto &it : items) { out += (out.empty() ? "" : ",") + it.second; }
        return out;
    }

    std::string int_set_text(const ValueView &set, const char *prefix)
    {
        std::vector<std::pair<Int, std::string>> items;
        if (set.has_value())
        {
            for (const auto &e : set.as_set())
            {
                const Int k = e.checked_as<Int>();
                items.emplace_back(k, prefix + std::to_string(k));
            }
        }
        return join_sorted(std::move(items));
    }

    std::string cat(const std::string &l, const std::string &r) { return l + (l.empty() || r.empty() ? "" : ",") + r; }

    // canonical delta text of a delta Value of shape S
    template <typename S> std::string delta_text(const ValueView &v);
    template <> std::string delta_text<STS>(const ValueView &v)
    {
        return v.has_value() ? std::to_string(v.checked_as<Int>()) : std::string{"_"};
    }
    template <> std::string delta_text<STSS>(const ValueView &v)
    {
        if (!v.has_value()) { return "_"; }
        const auto b = v.as_bundle();
        return "{" + cat(int_set_text(b.at(0), "+"), int_set_text(b.at(1), "-")) + "}";
    }
    template <> std::string delta_text<STSD>(const ValueView &v)
    {
        if (!v.has_value()) { return "_"; }
        const auto b = v.as_bundle();
        std::vector<std::pair<Int, std::string>> mod;
        for (const auto &[kv, dv] : b.at(1).as_map())
        {
            const Int k = kv.checked_as<Int>();
            mod.emplace_back(k, std::to_string(k) + ":" + (dv.has_value() ? std::to_string(dv.checked_as<Int>()) : "_"));
        }
        return "{" + cat(int_set_text(b.at(0), "-"), join_sorted(std::move(mod))) + "}";
    }

    template <typename A> std::string seen_text(const A &ts);

    template <typename A>
        requires std::is_same_v<typename A::schema, STS>
    std::string seen_text(const A &ts)
    {
        std::string s = std::string{"v="} + (ts.valid() ? "1" : "0") + " m=" + (ts.modified() ? "1" : "0");
        s += " x=" + (ts.valid() ? std::to_string(ts.value()) : std::string{"_"});
        s += " d=" + (ts.valid() ? delta_text<STS>(ts.base().delta_value()) : std::string{"_"});
        return s;
    }

    template <typename A>
        requires std::is_same_v<typename A::schema, STSS>
    std::string seen_text(const A &ts)
    {
        std::string s = std::string{"v="} + (ts.valid() ? "1" : "0") + " m=" + (ts.modified() ? "1" : "0");
        if (!ts.valid()) { return s + " x=_ d=_ k=_"; }
        std::vector<std::pair<Int, std::string>> vals, add, rem;
        for (Int k : ts.values()) { vals.emplace_back(k, std::to_string(k)); }
        for (Int k : ts.added()) { add.emplace_back(k, "+" + std::to_string(k)); }
        for (Int k : ts.removed()) { rem.emplace_back(k, "-" + std::to_string(k)); }
        s += " x={" + join_sorted(vals) + "}";
        s += " d=" + delta_text<STSS>(ts.delta());
        s += " k={" + cat(join_sorted(add), join_sorted(rem)) + "}";
        return s;
    }

    template <typename A>
        requires std::is_same_v<typename A::schema, STSD>
    std::string seen_text(const A &ts)
    {
        std::string s = std::string{"v="} + (ts.valid() ? "1" : "0") + " m=" + (ts.modified() ? "1" : "0");
        if (!ts.valid()) { return s + " x=_ d=_ k=_"; }
        std::vector<std::pair<Int, std::string>> vals, add, rem, mod;
        for (const auto &[kv, child] : ts.items())
        {
            const Int k = kv.template checked_as<Int>();
            vals.emplace_back(k, std::to_string(k) + ":" + (child.valid() ? std::to_string(child.value()) : std::string{"_"}));
        }
        for (const auto &kv : ts.added_keys()) { const Int k = kv.template checked_as<Int>(); add.emplace_back(k, "+" + std::to_string(k)); }
        for (const auto &kv : ts.removed_keys()) { const Int k = kv.template checked_as<Int>(); rem.emplace_back(k, "-" + std::to_string(k)); }
        for (const auto &[kv, child] : ts.modified_items())
        {
            const Int k = kv.template checked_as<Int>();
            mod.emplace_back(k, "~" + std::to_string(k));
        }
        s += " x={" + join_sorted(vals) + "}";
        s += " d=" + delta_text<STSD>(ts.delta());
        s += " k={" + cat(cat(join_sorted(add), join_sorted(rem)), join_sorted(mod)) + "}";
        return s;
    }

    // ---- the counting consumers ---------------------------------------------------------------
    template <typename S, bool Checked>
    struct HgvConsumer
    {
        static constexpr auto name = Checked ? "hgv_consumer" : "hgv_consumer_unchecked";
        static void eval(DateTime now, Scalar<"idx", Int> idx,
                         In<"ts", S, (Checked ? InputValidity::Valid : InputValidity::Unchecked)> ts)
        {
            note(now, static_cast<int>(idx.value()), seen_text(ts));
        }
    };

    template <typename S>
    void wire_consumers(Wiring &w, Port<S> ts, int n)
    {
        for (int i = 0; i < n; ++i)
        {
            if (i == 1) { wire<HgvConsumer<S, false>>(w, Int{i}, ts); }
            else { wire<HgvConsumer<S, true>>(w, Int{i}, ts); }
        }
    }

    // nested stages
    template <typename S>
    struct HgvRefPass
    {
        static constexpr auto name = "hgv_ref_pass";
        static Port<REF<S>>   compose(Wiring &, Port<REF<S>> in) { return in; }
    };

    template <typename S, int N>
    struct HgvInner
    {
        static constexpr auto name = "hgv_ref_inner";
        static void           compose(Wiring &w, Port<S> in) { wire_consumers<S>(w, in, N); }
    };

    struct Cfg
    {
        std::string shape{"ts"};
        int         ncons{1};
        std::string stage{"direct"};
    };

    struct Cycle
    {
        std::optional<bool>        cond;
        std::optional<std::string> a, b;
    };

    // delta token -> canonical delta Value
    template <typename S> Value parse_delta(const std::string &tok);
    template <> Value parse_delta<STS>(const std::string &tok) { return Value{Int{to_i(tok)}}; }

    std::vector<std::string> split_commas(const std::string &tok)
    {
        std::vector<std::string> out;
        std::string cur;
        for (char ch : tok)
        {
            if (ch == ',') { out.push_back(cur); cur.clear(); }
            else { cur += ch; }
        }
        if (!cur.empty()) { out.push_back(cur); }
        return out;
    }

    template <> Value parse_delta<STSS>(const std::string &tok)
    {
        std::vector<Int> added, removed;
        for (const auto &p : split_commas(tok))
        {
            if (p.size() < 2 || (p[0] != '+' && p[0] != '-')) { throw std::invalid_argument("tss delta"); }
            (p[0] == '+' ? added : removed).push_back(Int{to_i(p.substr(1))});
        }
        return set_delta<Int>(added, removed);
    }

    template <> Value parse_delta<STSD>(const std::string &tok)
    {
        std::map<Int, Int> modified;
        std::vector<Int>   removed;
        for (const auto &p : split_commas(tok))
        {
            if (p.empty()) { throw std::invalid_argument("tsd delta"); }
            if (p[0] == '-') { removed.push_back(Int{to_i(p.substr(1))}); continue; }
            auto c = p.find(':');
            if (c == std::string::npos) { throw std::invalid_argument("tsd delta"); }
            modified[Int{to_i(p.substr(0, c))}] = Int{to_i(p.substr(c + 1))};
        }
        return static_node_detail::build_dict_delta<Int, TS<Int>>(modified, removed);
    }

    struct Obs final : LifecycleObserver
    {
        std::map<std::int64_t, bool> ref_ticked;
        std::map<std::int64_t, bool> seen;
        void on_after_graph_evaluation(const GraphView &graph) override
        {
            if (!graph.is_root()) { return; }
            const auto i = us(graph.evaluation_time()) - us(MIN_ST);
            seen[i] = true;
            for (std::size_t index = 0; index < graph.node_count(); ++index)
            {
                auto node = graph.node_at(index);
                // the selection node is the first (lowest rank) node whose output is a REF
                if (!node.has_output()) { continue; }
                auto out = node.output(graph.evaluation_time());
                if (out.schema() == nullptr || out.schema()->kind != TSTypeKind::REF) { continue; }
                ref_ticked[i] = out.modified();
                break;
            }
        }
    };

    template <typename S, int N>
    void wire_inner(Wiring &w, Port<S> deref) { nested_<HgvInner<S, N>>(w, deref); }

    template <typename S>
    std::vector<std::string> run_history(const Cfg &cfg, const std::vector<Cycle> &cycles)
    {
        g_seen.clear();
        Wiring w;
        record_replay::set_config(w.global_state(),
                                  record_replay::RecordReplayConfig{.backend = std::string{record_replay::TESTING}});
        auto cond = wire<stdlib::replay_impl, TS<Bool>>(w, Str{"hgv::cond"});
        auto a    = wire<stdlib::replay_impl, S>(w, Str{"hgv::a"});
        auto b    = wire<stdlib::replay_impl, S>(w, Str{"hgv::b"});
        auto sel  = wire<stdlib::if_then_else>(w, cond, a, b);
        if (cfg.stage == "direct") { wire_consumers<S>(w, sel.template as<S>(), cfg.ncons); }
        else if (cfg.stage == "pass")
        {
            auto through = nested_<HgvRefPass<S>>(w, sel.template as<REF<S>>());
            wire_consumers<S>(w, through.template as<S>(), cfg.ncons);
        }
        else
        {
            auto deref = sel.template as<S>();
            if (cfg.ncons == 1) { wire_inner<S, 1>(w, deref); }
            else if (cfg.ncons == 2) { wire_inner<S, 2>(w, deref); }
            else { wire_inner<S, 3>(w, deref); }
        }
        wire<stdlib::dense_record_impl>(w, a, Str{"hgv::ra"});
        wire<stdlib::dense_record_impl>(w, b, Str{"hgv::rb"});
        wire<stdlib::dense_record_impl>(w, sel.template as<S>(), Str{"hgv::rs"});
        GraphBuilder gb = std::move(w).finish();

        std::vector<std::optional<Value>> dc, da, db;
        for (const auto &c : cycles)
        {
            dc.push_back(c.cond.has_value() ? std::optional<Value>{Value{Bool{*c.cond}}} : std::nullopt);
            da.push_back(c.a.has_value() ? std::optional<Value>{parse_delta<S>(*c.a)} : std::nullopt);
            db.push_back(c.b.has_value() ? std::optional<Value>{parse_delta<S>(*c.b)} : std::nullopt);
        }
        testing::set_replay_deltas(gb.global_state(), "hgv::cond", dc);
        testing::set_replay_deltas(gb.global_state(), "hgv::a", da);
        testing::set_replay_deltas(gb.global_state(), "hgv::b", db);

        Obs obs;
        GraphExecutorBuilder eb;
        eb.graph_builder(std::move(gb))
            .start_time(MIN_ST)
            .end_time(MIN_ST + TimeDelta{static_cast<std::int64_t>(cycles.size()) + 2});
        eb.add_lifecycle_observer(&obs);
        GraphExecutorValue executor = eb.make_executor();
        auto               view     = executor.view();
        view.run();

        auto ra = testing::get_recorded_deltas(view.graph().global_state(), "hgv::ra");
        auto rb = testing::get_recorded_deltas(view.graph().global_state(), "hgv::rb");
        auto rs = testing::get_recorded_deltas(view.graph().global_state(), "hgv::rs");
        std::vector<std::string> lines;
        for (std::size_t i = 0; i < cycles.size(); ++i)
        {
            const auto  ci = static_cast<std::int64_t>(i);
            std::string s  = std::string{"r="} + (obs.ref_ticked.count(ci) && obs.ref_ticked[ci] ? "1" : "0");
            s += " ra=" + (i < ra.size() && ra[i].has_value() ? delta_text<S>(ra[i]->view()) : std::string{"-"});
            s += " rb=" + (i < rb.size() && rb[i].has_value() ? delta_text<S>(rb[i]->view()) : std::string{"-"});
            s += " rs=" + (i < rs.size() && rs[i].has_value() ? delta_text<S>(rs[i]->view()) : std::string{"-"});
            for (int k = 0; k < cfg.ncons; ++k)
            {
                auto it = g_seen.find(ci);
                s += " | ";
                if (it == g_seen.end() || !it->second.count(k)) { s += "-"; }
                else { s += it->second[k]; }
            }
            lines.push_back(std::move(s));
        }
        for (const auto &[ci, per] : g_seen)
        {
            if (ci >= static_cast<std::int64_t>(cycles.size())) { lines.assign(cycles.size(), "err:activity-after-history"); break; }
        }
        lines.push_back("end");
        return lines;
    }
}  // namespace

int main()
{
    std::ios::sync_with_stdio(false);
    hgraph::stdlib::register_standard_operators();

    Cfg                cfg;
    std::vector<Cycle> cycles;
    bool               cfg_bad = false;

    auto flush = [&](bool with_run_line) {
        if (cycles.empty() && !with_run_line) { return; }
        std::vector<std::string> lines;
        try
        {
            if (cfg_bad) { throw std::invalid_argument("cfg"); }
            if (cfg.shape == "ts") { lines = run_history<STS>(cfg, cycles); }
            else if (cfg.shape == "tss") { lines = run_history<STSS>(cfg, cycles); }
            else { lines = run_history<STSD>(cfg, cycles); }
        }
        catch (const std::invalid_argument &e) { lines.assign(cycles.size() + 1, std::string{"err:invalid-argument"}); if (getenv("HGV_DEBUG")) std::cerr << e.what() << "\n"; }
        catch (const std::exception &e) { lines.assign(cycles.size() + 1, std::string{"err:exception"}); if (getenv("HGV_DEBUG")) std::cerr << e.what() << "\n"; }
        if (lines.size() != cycles.size() + 1) { lines.resize(cycles.size() + 1, lines.empty() ? "err:short" : lines.back()); }
        for (std::size_t i = 0; i < cycles.size(); ++i) { std::cout << lines[i] << "\n"; }
        if (with_run_line) { std::cout << lines.back() << "\n"; }
        cycles.clear();
    };

    std::string line;
    while (std::getline(std::cin, line))
    {
        auto w = split(line);
        if (w.empty()) { flush(false); std::cout << "\n"; continue; }
        const std::string &op = w[0];
        try
        {
            if (op == "case")
            {
                flush(false);
                cfg     = Cfg{};
                cfg_bad = false;
                std::cout << line << "\n";
            }
            else if (op == "cfg" && w.size() == 4)
            {
                flush(false);
                Cfg  c;
                bool ok = (w[1] == "ts" || w[1] == "tss" || w[1] == "tsd") &&
                          (w[2] == "1" || w[2] == "2" || w[2] == "3") &&
                          (w[3] == "direct" || w[3] == "pass" || w[3] == "inner");
                if (ok)
                {
                    c.shape = w[1];
                    c.ncons = static_cast<int>(to_i(w[2]));
                    c.stage = w[3];
                    cfg     = c;
                    cfg_bad = false;
                    std::cout << "ok\n";
                }
                else { cfg_bad = true; std::cout << "bad-op\n"; }
            }
            else if (op == "c")
            {
                Cycle cy;
                bool  ok = true;
                for (std::size_t i = 1; i < w.size() && ok; ++i)
                {
                    const auto eq = w[i].find('=');
                    if (eq == std::string::npos) { ok = false; break; }
                    const std::string k = w[i].substr(0, eq), v = w[i].substr(eq + 1);
                    if (k == "cond" && (v == "0" || v == "1")) { cy.cond = v == "1"; }
                    else if (k == "a" && !v.empty()) { cy.a = v; }
                    else if (k == "b" && !v.empty()) { cy.b = v; }
                    else { ok = false; }
                }
                if (!ok) { flush(false); std::cout << "bad-op\n"; }
                else { cycles.push_back(std::move(cy)); }
            }
            else if (op == "run") { flush(true); }
            else { flush(false); std::cout << "bad-op\n"; }
        }
        catch (const std::exception &) { flush(false); std::cout << "bad-op\n"; }
    }
    flush(false);
    return 0;
}
