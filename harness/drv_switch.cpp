// hgv_switch: runs a REAL graph
//     replay(key: TS<Int> | TS<Str>) [, replay(x: TS<Int>) [, replay(y: TS<Int>) [, replay(z: TS<Int>)]]]
//         -> switch_({k1: f1, k2: f2, ...[, default]}[.reload()] [, x [, y [, z]]]) -> record
// compiled from the working tree, in simulation, for a textual key/input history, and prints what was
// observed per engine cycle: the recorded output tick and the lifecycle of the branch graphs.
// One output line per input line.
//
//   case <id>                                  -> "case <id>"   (flushes a pending history first)
//   cfg <int|str> <reload 0|1> <default|-> <nin 0|1|2|3> <key>=<branch> ...   -> "ok" | "bad-op"
//        (str: the keys are the decimal strings of the given integers, wired as TS<Str>)
//        branches (every branch binds ALL nin inputs; a key-consuming one the key as well):
//          nin=0: beat    start hook schedules now; every wake: k++, emit 100+k, wake +2 while k<3   (self-scheduling source)
//                 keyonly key*2                                           (key-consuming)
//          nin=1: inc     x+1                                             (stateless)
//                 sum     running sum of x                                (stateful)
//                 keyadd  key+x                                           (key-consuming)
//                 timer   x tick: n=x, left=2, emit 10n, wake +2 (tag t); wake: emit 10n+left, left--, wake +2 while left>0
//                                                                         (self-scheduling, NodeScheduler)
//                 dbl1    2x+1, a two-node sub-graph (stdlib mul_ feeding a harness node)
//          nin=2: add2    x+y                                             (needs both valid)
//                 keyadd2 key+x+y                                         (key-consuming)
//                 sum2    total += x if x ticked, += y if y ticked; inputs Unchecked (evaluated with invalid inputs too)
//                 timer2  as timer on x, every output + 1000y; a y tick alone emits 1000y and keeps the pending wake
//                                                                         (self-scheduling)
//        one node bound to SEVERAL boundary inputs with a policy per position (P passive, A active, U unchecked
//        validity; "v?" = the value, -1 when the input is not valid):
//          nin=1: pecho   (x:P) x                                         never scheduled: its only input is passive
//                 kpx     (key:P, x:A) 1000 key + x                       first binding passive
//                 kxp     (key:A, x:P) 1000 key + x
//          nin=2: gadd    (x:P, y:A) 100x + y                             first binding passive
//                 gaddr   (x:A, y:P) 100x + y
//                 pp2     (x:P, y:P) 100x + y                             never scheduled
//                 orelse  (x:A U, y:A) 100 x? + y                         first binding optional
//                 orelser (x:A, y:A U) 100x + y?
//                 uap2    (x:A U, y:P) 100 x? + y                         optional active first, passive required second
//                 usum2p  (x:P U, y:A U) 100 x? + y?                      all Unchecked (evaluated with invalid inputs), first passive
//                 kgadd   (key:P, x:P, y:A) 10000 key + 100x + y          three bindings, only the last active
//                 kmid    (key:P, x:A, y:P) 10000 key + 100x + y          three bindings, only the middle active
//          nin=3: add3    (x:A, y:A, z:A) x + y + z
//                 g3      (x:P, y:A U, z:A) 10000x + 100 y? + z
//                 g3l     (x:P, y:P, z:A) 10000x + 100y + z
//   c [k <key>] [x <v>] [y <v>] [z <v>]                one engine cycle at MIN_ST + i; answered when the run happens:
//        "idle"                                 the root graph was not evaluated in that cycle (the replay nodes
//                                               wake the root graph in every cycle of the history, so: never)
//        "rec=<v|-> out=<v|none> ev=<e,e,...|-> ngc=<stored graphs>"
//              events, in order: C construct, D<i> destroy, S<i>:<branch> start, X<i> stop,
//                                E<i> graph evaluate, U<i> node user code      (<i> = ordinal of the start)
//        "err:no-branch ev=..."                 the run failed in that cycle: unmatched key, no default
//        "dead"                                 cycles after a failed cycle
//   run                                        -> "end ev=<events after the last cycle: stop, release>"
// A history is run when `run`, the next `case` or EOF is read.  Other errors -> "err:<class>".
#include "hgv_common.h"

#include <hgraph/lib/std/std_nodes.h>
#include <hgraph/lib/std/std_operators.h>
#include <hgraph/lib/std/operators/impl/record_replay_memory_impl.h>
#include <hgraph/lib/testing/record_replay.h>
#include <hgraph/runtime/lifecycle_observer.h>
#include <hgraph/runtime/runtime.h>
#include <hgraph/runtime/switch_node.h>
#include <hgraph/types/graph_wiring.h>
#include <hgraph/types/metadata/type_registry.h>
#include <hgraph/types/operator_dispatch.h>
#include <hgraph/types/static_node.h>
#include <hgraph/types/subgraph_wiring.h>
#include <hgraph/types/wired_fn.h>

#include <map>
#include <optional>
#include <span>

using namespace hgraph;
using namespace hgv;

namespace hgvsw
{
    // ---- event log -------------------------------------------------------------------------------
    std::vector<std::vector<std::string>> g_events;   // per cycle; the slot after the last cycle collects the tail
    std::size_t                           g_cycle = 0; // where events go
    int                                   g_next_inst = 0;
    int                                   g_starting  = 0;  // instance whose start hooks are running

    void ev(std::string s)
    {
        if (g_cycle >= g_events.size()) { g_events.resize(g_cycle + 1); }
        g_events[g_cycle].push_back(std::move(s));
    }

    // Node state whose construction / destruction is observable.
    struct Life
    {
        Life() noexcept { ev("C"); }
        Life(const Life &o) noexcept : id(o.id), a(o.a), b(o.b) { ev("Cc"); }
        Life(Life &&o) noexcept : id(o.id), a(o.a), b(o.b) { ev("Cm"); }
        Life &operator=(const Life &) noexcept = default;
        Life &operator=(Life &&) noexcept      = default;
        ~Life() { ev("D" + std::to_string(id)); }

        int id{0};
        Int a{0};
        Int b{0};
        [[nodiscard]] bool operator==(const Life &) const noexcept = default;
    };
}  // namespace hgvsw

namespace hgraph::static_schema_detail
{
    template <>
    struct scalar_name<hgvsw::Life>
    {
        static constexpr std::string_view value{"hgv_switch_life"};
    };
}  // namespace hgraph::static_schema_detail

template <>
struct std::hash<hgvsw::Life>
{
    [[nodiscard]] std::size_t operator()(const hgvsw::Life &s) const noexcept { return std::hash<int>{}(s.id); }
};

namespace
{
    using namespace hgvsw;

    void born(State<Life> &s) { s.modify().id = g_starting; }
    void user(State<Life> &s) { ev("U" + std::to_string(s.ref().id)); }

    // ---- the branch vocabulary -------------------------------------------------------------------
    struct HgvInc
    {
        static constexpr auto name = "hgv_inc";
        static void start(State<Life> s) { born(s); }
        static void eval(In<"x", TS<Int>> x, State<Life> s, Out<TS<Int>> out)
        {
            user(s);
            out.set(x.value() + Int{1});
        }
    };

    struct HgvSum
    {
        static constexpr auto name = "hgv_sum";
        static void start(State<Life> s) { born(s); }
        static void eval(In<"x", TS<Int>> x, State<Life> s, Out<TS<Int>> out)
        {
            user(s);
            auto &l = s.modify();
            l.a += x.value();
            out.set(l.a);
        }
    };

    struct HgvKeyAddI
    {
        static constexpr auto name = "hgv_keyadd";
        static void start(State<Life> s) { born(s); }
        static void eval(In<"key", TS<Int>> key, In<"x", TS<Int>> x, State<Life> s, Out<TS<Int>> out)
        {
            user(s);
            out.set(key.value() + x.value());
        }
    };

    struct HgvKeyAddS
    {
        static constexpr auto name = "hgv_keyadd";
        static void start(State<Life> s) { born(s); }
        static void eval(In<"key", TS<Str>> key, In<"x", TS<Int>> x, State<Life> s, Out<TS<Int>> out)
        {
            user(s);
            out.set(Int{std::stoll(std::string{key.value()})} + x.value());
        }
    };

    struct HgvTimer
    {
        static constexpr auto name = "hgv_timer";
        static void start(State<Life> s) { born(s); }
        static void eval(In<"x", TS<Int>> x, NodeScheduler sched, State<Life> s, Out<TS<Int>> out)
        {
            user(s);
            auto &l = s.modify();
            if (x.modified())
            {
                l.a = x.value();
                l.b = 2;
                out.set(l.a * 10);
                sched.schedule(TimeDelta{2}, std::string{"t"});
            }
            else
            {
                out.set(l.a * 10 + l.b);
                l.b -= 1;
                if (l.b > 0) { sched.schedule(TimeDelta{2}, std::string{"t"}); }
            }
        }
    };

    struct HgvBeat
    {
        static constexpr auto name = "hgv_beat";
        static void start(NodeScheduler sched, State<Life> s)
        {
            born(s);
            sched.schedule(sched.now());
        }
        static void eval(NodeScheduler sched, State<Life> s, Out<TS<Int>> out)
        {
            user(s);
            auto &l = s.modify();
            l.a += 1;
            out.set(Int{100} + l.a);
            if (l.a < 3) { sched.schedule(TimeDelta{2}); }
        }
    };

    struct HgvKeyOnlyI
    {
        static constexpr auto name = "hgv_keyonly";
        static void start(State<Life> s) { born(s); }
        static void eval(In<"key", TS<Int>> key, State<Life> s, Out<TS<Int>> out)
        {
            user(s);
            out.set(key.value() * Int{2});
        }
    };

    struct HgvKeyOnlyS
    {
        static constexpr auto name = "hgv_keyonly";
        static void start(State<Life> s) { born(s); }
        static void eval(In<"key", TS<Str>> key, State<Life> s, Out<TS<Int>> out)
        {
            user(s);
            out.set(Int{std::stoll(std::string{key.value()})} * Int{2});
        }
    };

    struct HgvAdd2
    {
        static constexpr auto name = "hgv_add2";
        static void start(State<Life> s) { born(s); }
        static void eval(In<"x", TS<Int>> x, In<"y", TS<Int>> y, State<Life> s, Out<TS<Int>> out)
        {
            user(s);
            out.set(x.value() + y.value());
        }
    };

    struct HgvKeyAdd2I
    {
        static constexpr auto name = "hgv_keyadd2";
        static void start(State<Life> s) { born(s); }
        static void eval(In<"key", TS<Int>> key, In<"x", TS<Int>> x, In<"y", TS<Int>> y, State<Life> s, Out<TS<Int>> out)
        {
            user(s);
            out.set(key.value() + x.value() + y.value());
        }
    };

    struct HgvKeyAdd2S
    {
        static constexpr auto name = "hgv_keyadd2";
        static void start(State<Life> s) { born(s); }
        static void eval(In<"key", TS<Str>> key, In<"x", TS<Int>> x, In<"y", TS<Int>> y, State<Life> s, Out<TS<Int>> out)
        {
            user(s);
            out.set(Int{std::stoll(std::string{key.value()})} + x.value() + y.value());
        }
    };

    struct HgvSum2
    {
        static constexpr auto name = "hgv_sum2";
        static void start(State<Life> s) { born(s); }
        static void eval(In<"x", TS<Int>, InputValidity::Unchecked> x, In<"y", TS<Int>, InputValidity::Unchecked> y, State<Life> s,
                         Out<TS<Int>> out)
        {
            user(s);
            auto &l = s.modify();
            if (x.valid() && x.modified()) { l.a += x.value(); }
            if (y.valid() && y.modified()) { l.a += y.value(); }
            out.set(l.a);
        }
    };

    struct HgvTimer2
    {
        static constexpr auto name = "hgv_timer2";
        static void start(State<Life> s) { born(s); }
        static void eval(In<"x", TS<Int>> x, In<"y", TS<Int>> y, NodeScheduler sched, State<Life> s, Out<TS<Int>> out)
        {
            user(s);
            auto &l = s.modify();
            if (x.modified())
            {
                l.a = x.value();
                l.b = 2;
                out.set(l.a * 10 + y.value() * 1000);
                sched.schedule(TimeDelta{2}, std::string{"t"});
            }
            else if (sched.is_scheduled_now())
            {
                out.set(l.a * 10 + l.b + y.value() * 1000);
                l.b -= 1;
                if (l.b > 0) { sched.schedule(TimeDelta{2}, std::string{"t"}); }
            }
            else { out.set(y.value() * 1000); }
        }
    };

    // ---- one node, several boundary bindings, a policy per position ------------------------------------
    constexpr auto PAS = InputActivity::Passive;
    constexpr auto UNC = InputValidity::Unchecked;
    template <typename T> Int vq(const T &in) { return in.valid() ? Int{in.value()} : Int{-1}; }

    struct HgvPecho
    {
        static constexpr auto name = "hgv_pecho";
        static void start(State<Life> s) { born(s); }
        static void eval(In<"x", TS<Int>, PAS> x, State<Life> s, Out<TS<Int>> out) { user(s); out.set(x.value()); }
    };
    template <typename K> Int key_int(const K &key)
    {
        if constexpr (std::is_same_v<std::remove_cvref_t<decltype(key.value())>, Int>) { return key.value(); }
        else { return Int{std::stoll(std::string{key.value()})}; }
    }
    template <typename KT>
    struct HgvKpx
    {
        static constexpr auto name = "hgv_kpx";
        static void start(State<Life> s) { born(s); }
        static void eval(In<"key", TS<KT>, PAS> key, In<"x", TS<Int>> x, State<Life> s, Out<TS<Int>> out)
        {
            user(s);
            out.set(key_int(key) * Int{1000} + x.value());
        }
    };
    template <typename KT>
    struct HgvKxp
    {
        static constexpr auto name = "hgv_kxp";
        static void start(State<Life> s) { born(s); }
        static void eval(In<"key", TS<KT>> key, In<"x", TS<Int>, PAS> x, State<Life> s, Out<TS<Int>> out)
        {
            user(s);
            out.set(key_int(key) * Int{1000} + x.value());
        }
    };
    struct HgvGadd
    {
        static constexpr auto name = "hgv_gadd";
        static void start(State<Life> s) { born(s); }
        static void eval(In<"x", TS<Int>, PAS> x, In<"y", TS<Int>> y, State<Life> s, Out<TS<Int>> out)
        {
            user(s);
            out.set(x.value() * Int{100} + y.value());
        }
    };
    struct HgvGaddr
    {
        static constexpr auto name = "hgv_gaddr";
        static void start(State<Life> s) { born(s); }
        static void eval(In<"x", TS<Int>> x, In<"y", TS<Int>, PAS> y, State<Life> s, Out<TS<Int>> out)
        {
            user(s);
            out.set(x.value() * Int{100} + y.value());
        }
    };
    struct HgvPp2
    {
        static constexpr auto name = "hgv_pp2";
        static void start(State<Life> s) { born(s); }
        static void eval(In<"x", TS<Int>, PAS> x, In<"y", TS<Int>, PAS> y, State<Life> s, Out<TS<Int>> out)
        {
            user(s);
            out.set(x.value() * Int{100} + y.value());
        }
    };
    struct HgvOrelse
    {
        static constexpr auto name = "hgv_orelse";
        static void start(State<Life> s) { born(s); }
        static void eval(In<"x", TS<Int>, UNC> x, In<"y", TS<Int>> y, State<Life> s, Out<TS<Int>> out)
        {
            user(s);
            out.set(vq(x) * Int{100} + y.value());
        }
    };
    struct HgvOrelser
    {
        static constexpr auto name = "hgv_orelser";
        static void start(State<Life> s) { born(s); }
        static void eval(In<"x", TS<Int>> x, In<"y", TS<Int>, UNC> y, State<Life> s, Out<TS<Int>> out)
        {
            user(s);
            out.set(x.value() * Int{100} + vq(y));
        }
    };
    struct HgvUsum2p
    {
        static constexpr auto name = "hgv_usum2p";
        static void start(State<Life> s) { born(s); }
        static void eval(In<"x", TS<Int>, PAS, UNC> x, In<"y", TS<Int>, UNC> y, State<Life> s, Out<TS<Int>> out)
        {
            user(s);
            out.set(vq(x) * Int{100} + vq(y));
        }
    };
    struct HgvUap2
    {
        static constexpr auto name = "hgv_uap2";
        static void start(State<Life> s) { born(s); }
        static void eval(In<"x", TS<Int>, UNC> x, In<"y", TS<Int>, PAS> y, State<Life> s, Out<TS<Int>> out)
        {
            user(s);
            out.set(vq(x) * Int{100} + y.value());
        }
    };
    template <typename KT>
    struct HgvKgadd
    {
        static constexpr auto name = "hgv_kgadd";
        static void start(State<Life> s) { born(s); }
        static void eval(In<"key", TS<KT>, PAS> key, In<"x", TS<Int>, PAS> x, In<"y", TS<Int>> y, State<Life> s, Out<TS<Int>> out)
        {
            user(s);
            out.set(key_int(key) * Int{10000} + x.value() * Int{100} + y.value());
        }
    };
    template <typename KT>
    struct HgvKmid
    {
        static constexpr auto name = "hgv_kmid";
        static void start(State<Life> s) { born(s); }
        static void eval(In<"key", TS<KT>, PAS> key, In<"x", TS<Int>> x, In<"y", TS<Int>, PAS> y, State<Life> s, Out<TS<Int>> out)
        {
            user(s);
            out.set(key_int(key) * Int{10000} + x.value() * Int{100} + y.value());
        }
    };
    struct HgvAdd3
    {
        static constexpr auto name = "hgv_add3";
        static void start(State<Life> s) { born(s); }
        static void eval(In<"x", TS<Int>> x, In<"y", TS<Int>> y, In<"z", TS<Int>> z, State<Life> s, Out<TS<Int>> out)
        {
            user(s);
            out.set(x.value() + y.value() + z.value());
        }
    };
    struct HgvG3
    {
        static constexpr auto name = "hgv_g3";
        static void start(State<Life> s) { born(s); }
        static void eval(In<"x", TS<Int>, PAS> x, In<"y", TS<Int>, UNC> y, In<"z", TS<Int>> z, State<Life> s, Out<TS<Int>> out)
        {
            user(s);
            out.set(x.value() * Int{10000} + vq(y) * Int{100} + z.value());
        }
    };
    struct HgvG3l
    {
        static constexpr auto name = "hgv_g3l";
        static void start(State<Life> s) { born(s); }
        static void eval(In<"x", TS<Int>, PAS> x, In<"y", TS<Int>, PAS> y, In<"z", TS<Int>> z, State<Life> s, Out<TS<Int>> out)
        {
            user(s);
            out.set(x.value() * Int{10000} + y.value() * Int{100} + z.value());
        }
    };

    struct HgvDbl1
    {
        static constexpr auto name = "hgv_dbl1";
        static Port<TS<Int>>  compose(Wiring &w, Port<TS<Int>> x)
        {
            using namespace hgraph::stdlib::syntax;
            return wire<HgvInc>(w, (x * Int{2}).as<TS<Int>>());
        }
    };

    const std::map<std::string, int> BRANCHES{{"beat", 0},  {"keyonly", 0}, {"inc", 1},     {"sum", 1},  {"keyadd", 1}, {"timer", 1},
                                              {"dbl1", 1},  {"add2", 2},    {"keyadd2", 2}, {"sum2", 2}, {"timer2", 2},
                                              {"pecho", 1}, {"kpx", 1},     {"kxp", 1},     {"gadd", 2}, {"gaddr", 2},
                                              {"pp2", 2},   {"orelse", 2},  {"orelser", 2}, {"usum2p", 2}, {"kgadd", 2},
                                              {"kmid", 2},  {"uap2", 2},    {"add3", 3},    {"g3", 3},      {"g3l", 3}};

    // which harness node identifies a branch graph (the observer names a started instance by it)
    std::string branch_of_graph(const GraphView &g)
    {
        std::string found = "?";
        bool        mul   = false;
        for (std::size_t i = 0; i < g.node_count(); ++i)
        {
            const std::string l{g.node_at(i).label()};
            if (l.rfind("hgv_", 0) == 0) { found = l.substr(4); }
            else { mul = true; }
        }
        if (found == "inc" && mul) { return "dbl1"; }
        return found;
    }

    WiringArg ts_arg(WiringPortRef port)
    {
        WiringArg arg;
        arg.kind = WiringArg::Kind::TimeSeries;
        arg.port = std::move(port);
        return arg;
    }

    WiringArg scalar_arg(Value value)
    {
        WiringArg arg;
        arg.kind         = WiringArg::Kind::Scalar;
        arg.scalar_value = std::move(value);
        arg.scalar_meta  = arg.scalar_value.schema();
        return arg;
    }

    OperatorWireResult call_operator(Wiring &w, std::string_view name, std::vector<WiringArg> args,
                                     std::optional<bool> output_required = std::nullopt,
                                     const TSValueTypeMetaData *expected_output = nullptr)
    {
        ResolvedOperatorCall resolved = OperatorRegistry::instance().resolve(
            name, std::span<const WiringArg>{args.data(), args.size()}, output_required, expected_output, {},
            w.operator_state(), &w);
        return resolved.impl->wire(w, resolved.map, resolved.args, resolved.kwargs);
    }

    struct Cfg
    {
        bool                                             str_key{false};
        bool                                             reload{false};
        std::string                                      dflt{"-"};
        int                                              nin{1};
        std::vector<std::pair<std::int64_t, std::string>> cases;
    };

    struct Cycle
    {
        std::optional<std::int64_t> k, x, y, z;
    };

    WiredFn branch_fn(const std::string &b, bool str_key)
    {
        if (b == "inc") { return fn<HgvInc>(); }
        if (b == "sum") { return fn<HgvSum>(); }
        if (b == "keyadd") { return str_key ? fn<HgvKeyAddS>() : fn<HgvKeyAddI>(); }
        if (b == "timer") { return fn<HgvTimer>(); }
        if (b == "beat") { return fn<HgvBeat>(); }
        if (b == "keyonly") { return str_key ? fn<HgvKeyOnlyS>() : fn<HgvKeyOnlyI>(); }
        if (b == "add2") { return fn<HgvAdd2>(); }
        if (b == "keyadd2") { return str_key ? fn<HgvKeyAdd2S>() : fn<HgvKeyAdd2I>(); }
        if (b == "sum2") { return fn<HgvSum2>(); }
        if (b == "timer2") { return fn<HgvTimer2>(); }
        if (b == "dbl1") { return fn<HgvDbl1>(); }
        if (b == "pecho") { return fn<HgvPecho>(); }
        if (b == "kpx") { return str_key ? fn<HgvKpx<Str>>() : fn<HgvKpx<Int>>(); }
        if (b == "kxp") { return str_key ? fn<HgvKxp<Str>>() : fn<HgvKxp<Int>>(); }
        if (b == "gadd") { return fn<HgvGadd>(); }
        if (b == "gaddr") { return fn<HgvGaddr>(); }
        if (b == "pp2") { return fn<HgvPp2>(); }
        if (b == "orelse") { return fn<HgvOrelse>(); }
        if (b == "orelser") { return fn<HgvOrelser>(); }
        if (b == "usum2p") { return fn<HgvUsum2p>(); }
        if (b == "uap2") { return fn<HgvUap2>(); }
        if (b == "kgadd") { return str_key ? fn<HgvKgadd<Str>>() : fn<HgvKgadd<Int>>(); }
        if (b == "kmid") { return str_key ? fn<HgvKmid<Str>>() : fn<HgvKmid<Int>>(); }
        if (b == "add3") { return fn<HgvAdd3>(); }
        if (b == "g3") { return fn<HgvG3>(); }
        if (b == "g3l") { return fn<HgvG3l>(); }
        throw std::invalid_argument("branch");
    }

    Value key_value(std::int64_t k, bool str_key) { return str_key ? Value{Str{std::to_string(k)}} : Value{Int{k}}; }

    struct Obs final : LifecycleObserver
    {
        std::map<const void *, int> inst;       // graph memory -> instance ordinal
        std::vector<bool>           seen;       // root graph evaluated in cycle i
        std::vector<std::size_t>    ngc;        // stored graphs after cycle i
        std::vector<std::optional<Int>> out;    // switch output value after cycle i
        std::size_t                 ncycles{0};
        std::size_t                 begun{0};   // last cycle the root graph began

        int id_of(const GraphView &g) const
        {
            auto it = inst.find(g.data());
            return it == inst.end() ? 0 : it->second;
        }
        void on_before_start_graph(const GraphView &g) override
        {
            if (g.is_root()) { return; }
            const int id   = ++g_next_inst;
            inst[g.data()] = id;
            g_starting     = id;
            ev("S" + std::to_string(id) + ":" + branch_of_graph(g));
        }
        void on_before_stop_graph(const GraphView &g) override
        {
            if (g.is_root())
            {
                g_cycle = ncycles;   // the tail
                return;
            }
            ev("X" + std::to_string(id_of(g)));
        }
        void on_before_graph_evaluation(const GraphView &g) override
        {
            if (g.is_root())
            {
                g_cycle = std::min<std::size_t>(testing::cycle_offset(g.evaluation_time()), ncycles);
                begun   = g_cycle;
                return;
            }
            ev("E" + std::to_string(id_of(g)));
        }
        void on_after_graph_evaluation(const GraphView &g) override
        {
            if (!g.is_root()) { return; }
            const auto i = testing::cycle_offset(g.evaluation_time());
            if (i >= seen.size()) { seen.resize(i + 1, false); ngc.resize(i + 1, 0); out.resize(i + 1); }
            seen[i] = true;
            for (std::size_t n = 0; n < g.node_count(); ++n)
            {
                auto node = g.node_at(n);
                if (!node.is<SwitchNodeView>()) { continue; }
                ngc[i] = node.as<SwitchNodeView>().stored_graph_count();
                auto o = node.output(g.evaluation_time());
                if (o.valid()) { out[i] = o.value().checked_as<Int>(); }
                break;
            }
        }
    };

    std::string join(const std::vector<std::string> &v)
    {
        if (v.empty()) { return "-"; }
        std::string s;
        for (std::size_t i = 0; i < v.size(); ++i) { s += (i ? "," : "") + v[i]; }
        return s;
    }

    // Runs the history; returns one line per cycle plus the final line.
    std::vector<std::string> run_history(const Cfg &cfg, const std::vector<Cycle> &cycles)
    {
        auto &registry = TypeRegistry::instance();
        const auto *int_meta = registry.register_scalar<Int>("int");
        const auto *str_meta = registry.register_scalar<Str>("str");
        const auto *ts_int   = registry.ts(int_meta);
        const auto *ts_key   = cfg.str_key ? registry.ts(str_meta) : ts_int;

        stdlib::SwitchCases cases;
        for (const auto &[k, b] : cfg.cases)
        {
            cases.cases.push_back(stdlib::SwitchCase{.key = key_value(k, cfg.str_key), .branch = branch_fn(b, cfg.str_key)});
        }
        if (cfg.dflt != "-") { cases.default_branch = branch_fn(cfg.dflt, cfg.str_key); }
        cases.reload_on_ticked = cfg.reload;

        g_events.clear();
        g_events.resize(cycles.size() + 1);
        g_cycle     = cycles.size();
        g_next_inst = 0;
        g_starting  = 0;

        std::vector<std::string> lines;
        Obs                      obs;
        obs.ncycles = cycles.size();
        std::string error;
        std::vector<std::optional<Value>> recorded;
        {
            Wiring w;
            record_replay::set_config(w.global_state(),
                                      record_replay::RecordReplayConfig{.backend = std::string{record_replay::TESTING}});
            auto key = call_operator(w, "replay", {scalar_arg(Value{Str{"hgv::key"}})}, true, ts_key);
            std::vector<WiringArg> sargs{ts_arg(key.output.erased()), scalar_arg(Value{cases})};
            if (cfg.nin >= 1)
            {
                auto x = call_operator(w, "replay", {scalar_arg(Value{Str{"hgv::x"}})}, true, ts_int);
                sargs.push_back(ts_arg(x.output.erased()));
            }
            if (cfg.nin >= 2)
            {
                auto y = call_operator(w, "replay", {scalar_arg(Value{Str{"hgv::y"}})}, true, ts_int);
                sargs.push_back(ts_arg(y.output.erased()));
            }
            if (cfg.nin == 3)
            {
                auto z = call_operator(w, "replay", {scalar_arg(Value{Str{"hgv::z"}})}, true, ts_int);
                sargs.push_back(ts_arg(z.output.erased()));
            }
            auto sw = call_operator(w, "switch_", std::move(sargs), true);
            static_cast<void>(call_operator(w, "record", {ts_arg(sw.output.erased()), scalar_arg(Value{Str{"hgv::out"}})},
                                            false));
            GraphBuilder gb = std::move(w).finish();

            std::vector<std::optional<Value>> kd, xd, yd, zd;
            for (const Cycle &c : cycles)
            {
                kd.push_back(c.k ? std::optional<Value>{key_value(*c.k, cfg.str_key)} : std::nullopt);
                xd.push_back(c.x ? std::optional<Value>{Value{Int{*c.x}}} : std::nullopt);
                yd.push_back(c.y ? std::optional<Value>{Value{Int{*c.y}}} : std::nullopt);
                zd.push_back(c.z ? std::optional<Value>{Value{Int{*c.z}}} : std::nullopt);
            }
            testing::set_replay_deltas(gb.global_state(), "hgv::key", kd);
            if (cfg.nin >= 1) { testing::set_replay_deltas(gb.global_state(), "hgv::x", xd); }
            if (cfg.nin >= 2) { testing::set_replay_deltas(gb.global_state(), "hgv::y", yd); }
            if (cfg.nin == 3) { testing::set_replay_deltas(gb.global_state(), "hgv::z", zd); }

            GraphExecutorBuilder eb;
            eb.graph_builder(std::move(gb))
                .start_time(MIN_ST)
                .end_time(MIN_ST + TimeDelta{static_cast<std::int64_t>(cycles.size())});
            eb.add_lifecycle_observer(&obs);
            GraphExecutorValue executor = eb.make_executor();
            auto               view     = executor.view();
            try { view.run(); }
            catch (const std::exception &e) { error = e.what(); }
            g_cycle  = cycles.size();
            recorded = testing::get_recorded_deltas(view.graph().global_state(), "hgv::out");
        }
        // the executor (and with it both graph slots) is released here; destructions land in the tail

        std::optional<std::size_t> failed_at;
        if (!error.empty()) { failed_at = obs.begun; }   // the last cycle the root graph began to evaluate
        for (std::size_t i = 0; i < cycles.size(); ++i)
        {
            if (failed_at && i > *failed_at) { lines.push_back("dead"); continue; }
            if (failed_at && i == *failed_at)
            {
                const bool no_branch = error.find("no branch is registered for key") != std::string::npos;
                lines.push_back(std::string{no_branch ? "err:no-branch" : "err:exception"} + " ev=" + join(g_events[i]));
                continue;
            }
            const bool have = i < obs.seen.size() && obs.seen[i];
            const bool rec  = i < recorded.size() && recorded[i].has_value();
            if (!have)
            {
                lines.push_back(rec || !g_events[i].empty() ? "err:activity-without-evaluation" : "idle");
                continue;
            }
            std::ostringstream s;
            s << "rec=";
            if (rec) { s << recorded[i]->view().checked_as<Int>(); } else { s << "-"; }
            s << " out=";
            if (obs.out[i]) { s << *obs.out[i]; } else { s << "none"; }
            s << " ev=" << join(g_events[i]) << " ngc=" << obs.ngc[i];
            lines.push_back(s.str());
        }
        for (std::size_t i = cycles.size(); i < recorded.size(); ++i)
        {
            if (recorded[i].has_value()) { lines.push_back("err:activity-after-history"); return lines; }
        }
        lines.push_back("end ev=" + join(g_events[cycles.size()]));
        return lines;
    }
}  // namespace

int main()
{
    std::ios::sync_with_stdio(false);
    hgraph::stdlib::register_standard_operators();

    Cfg                      cfg;
    std::vector<Cycle>       cycles;
    bool                     cfg_bad = true;

    auto flush = [&](bool with_run_line) {
        if (cycles.empty() && !with_run_line) { return; }
        std::vector<std::string> lines;
        try
        {
            if (cfg_bad) { throw std::invalid_argument("cfg"); }
            lines = run_history(cfg, cycles);
        }
        catch (const OperatorResolutionError &) { lines.assign(cycles.size() + 1, "err:resolution"); }
        catch (const std::invalid_argument &) { lines.assign(cycles.size() + 1, "err:invalid-argument"); }
        catch (const std::exception &e) { lines.assign(cycles.size() + 1, std::string{"err:exception"}); }
        if (lines.size() != cycles.size() + 1) { lines.resize(cycles.size() + 1, lines.empty() ? "err:short" : lines.back()); }
        for (std::size_t i = 0; i < cycles.size(); ++i) { std::cout << lines[i] << "\n"; }
        if (with_run_line) { std::cout << lines.back() << "\n"; }
        cycles.clear();
    };

    std::string line;
    while (std::getline(std::cin, line))
    {
        auto w = split(line);
        if (w.empty()) { flush(false); std::cout << "\n"; continue; }
        const std::string &op = w[0];
        try
        {
            if (op == "case")
            {
                flush(false);
                cfg     = Cfg{};
                cfg_bad = true;
                std::cout << line << "\n";
            }
            else if (op == "cfg" && w.size() >= 5)
            {
                flush(false);
                Cfg  c;
                bool ok = true;
                if (w[1] == "int") { c.str_key = false; } else if (w[1] == "str") { c.str_key = true; } else { ok = false; }
                if (w[2] == "0") { c.reload = false; } else if (w[2] == "1") { c.reload = true; } else { ok = false; }
                if (w[4] == "0") { c.nin = 0; } else if (w[4] == "1") { c.nin = 1; } else if (w[4] == "2") { c.nin = 2; }
                else if (w[4] == "3") { c.nin = 3; } else { ok = false; }
                auto known = [&](const std::string &b) {
                    auto it = BRANCHES.find(b);
                    return it != BRANCHES.end() && it->second == c.nin;
                };
                c.dflt = w[3];
                if (c.dflt != "-" && !known(c.dflt)) { ok = false; }
                for (std::size_t i = 5; i < w.size() && ok; ++i)
                {
                    auto eq = w[i].find('=');
                    if (eq == std::string::npos || eq == 0) { ok = false; break; }
                    const std::string b = w[i].substr(eq + 1);
                    if (!known(b)) { ok = false; break; }
                    const std::int64_t k = to_i(w[i].substr(0, eq));
                    if (std::to_string(k) != w[i].substr(0, eq)) { ok = false; break; }
                    for (const auto &e : c.cases) { if (e.first == k) { ok = false; } }
                    c.cases.emplace_back(k, b);
                }
                if (c.cases.empty() && c.dflt == "-") { ok = false; }
                if (ok) { cfg = c; cfg_bad = false; std::cout << "ok\n"; }
                else { cfg_bad = true; std::cout << "bad-op\n"; }
            }
            else if (op == "c")
            {
                Cycle c;
                bool  ok = true;
                for (std::size_t i = 1; i < w.size() && ok; i += 2)
                {
                    if (i + 1 >= w.size()) { ok = false; break; }
                    const std::int64_t v = to_i(w[i + 1]);
                    if (std::to_string(v) != w[i + 1]) { ok = false; }
                    else if (w[i] == "k" && !c.k) { c.k = v; }
                    else if (w[i] == "x" && !c.x && cfg.nin >= 1) { c.x = v; }
                    else if (w[i] == "y" && !c.y && cfg.nin >= 2) { c.y = v; }
                    else if (w[i] == "z" && !c.z && cfg.nin == 3) { c.z = v; }
                    else { ok = false; }
                }
                if (!ok) { flush(false); std::cout << "bad-op\n"; }
                else { cycles.push_back(c); }
            }
            else if (op == "run") { flush(true); }
            else { flush(false); std::cout << "bad-op\n"; }
        }
        catch (const std::exception &) { flush(false); std::cout << "bad-op\n"; }
    }
    flush(false);
    return 0;
}
