// hgv_nodesched: drives include/hgraph/runtime/node_scheduler.h (compiled from the
// working tree) through the line protocol.  One output line per input line.
//   case <id>                -> "case <id>"   (fresh NodeSchedulerState)
//   view <now> <started>     -> "ok"          (construct the view the following ops use)
//   sched <when> <tag|->     -> "ok" | "err"
//   schedd <delta> <tag|->   -> "ok" | "err"
//   unsched <tag> | unsched1 | reset | advance -> "ok"
//   pop <tag> <default>      -> "<time>"
//   q                        -> "next=<t> is=<0|1> now=<0|1> a=<has>,<time>,<now> b=... c=..."
//   dump                     -> "events=(t,tag);... tags=tag:t;..."
#include "hgv_common.h"

#include <hgraph/runtime/node_scheduler.h>

#include <optional>

using namespace hgraph;
using namespace hgv;

int main()
{
    std::ios::sync_with_stdio(false);
    NodeSchedulerState state;
    DateTime           now     = MIN_ST;
    bool               started = true;
    std::string        line;
    auto tag_of = [](const std::string &s) -> std::optional<std::string> {
        if (s == "-") return std::nullopt;
        if (s == "empty") return std::string{};
        return s;
    };
    while (std::getline(std::cin, line))
    {
        auto w = split(line);
        if (w.empty()) { std::cout << "\n"; continue; }
        NodeScheduler sched{state, nullptr, 0, now, started};
        try
        {
            const std::string &op = w[0];
            if (op == "case") { state = NodeSchedulerState{}; now = MIN_ST; started = true; std::cout << line << "\n"; }
            else if (op == "view") { now = dt(to_i(w[1])); started = w[2] == "1"; std::cout << "ok\n"; }
            else if (op == "sched") { sched.schedule(dt(to_i(w[1])), tag_of(w[2])); std::cout << "ok\n"; }
            else if (op == "schedd") { sched.schedule(TimeDelta{to_i(w[1])}, tag_of(w[2])); std::cout << "ok\n"; }
            else if (op == "unsched") { sched.un_schedule(w[1]); std::cout << "ok\n"; }
            else if (op == "unsched1") { sched.un_schedule(); std::cout << "ok\n"; }
            else if (op == "reset") { sched.reset(); std::cout << "ok\n"; }
            else if (op == "advance") { sched.advance(); std::cout << "ok\n"; }
            else if (op == "pop") { std::cout << us(sched.pop_tag(w[1], dt(to_i(w[2])))) << "\n"; }
            else if (op == "q")
            {
                std::cout << "next=" << us(sched.next_scheduled_time()) << " is=" << sched.is_scheduled()
                          << " now=" << sched.is_scheduled_now();
                for (const char *t : {"a", "b", "c"})
                {
                    std::cout << " " << t << "=" << sched.has_tag(t) << "," << us(sched.tag_time(t, dt(0))) << ","
                              << sched.tag_is_scheduled_now(t);
                }
                std::cout << "\n";
            }
            else if (op == "dump")
            {
                std::cout << "events=";
                for (auto &e : state.events) std::cout << "(" << us(e.first) << "," << (e.second.empty() ? "-" : e.second) << ")";
                std::cout << " tags=";
                for (auto &t : state.tags) std::cout << t.first << ":" << us(t.second) << ";";
                std::cout << "\n";
            }
            else { std::cout << "bad-op\n"; }
        }
        catch (const std::exception &e) { std::cout << "err\n"; }
    }
    return 0;
}
