// Private helper of harness/drv_replay.cpp and harness/drv_recover.cpp (C20): a SOURCE that does not go through
// apply_delta.  The delta text of a tick (grammar: harness/replay_text.h) is parsed into a small tree and written to
// a TSOutputView through the RAW output API, position by position, the way a hand-written node does it:
//
//   TS / SIGNAL   out.begin_mutation(t).copy_value_from(v)
//   TSW           out.as_window().begin_mutation(t).push(v)
//   TSS           m = out.as_set().begin_mutation(t);  m.remove(e)...;  m.add(e)...;  m.touch()
//   TSD           m = out.as_dict().begin_mutation(t); m.erase(k)...;   child = m.at(k) -> recurse ...;  m.touch()
//   TSL           child = out.as_list().at(i) -> recurse           (a DYNAMIC list grows to i+1 children here)
//   TSB           child = out.as_bundle().at(i) -> recurse
//
// Nothing is gated by delta_has_effect (the model's `write`, Model/Delta.lean).  `touch` steps call
// `as_list().at(i)` on a top-level dynamic list WITHOUT writing the child (growth without a tick).
//
// `hgv_rawsrc` is an operator with a deferred output type (like `replay`): wired through the erased operator path
// with the expected output schema, it plays the script `g_raw_script` (cycle -> touches, writes).
#pragma once
#include "replay_text.h"

#include <hgraph/lib/testing/record_replay_buffer.h>
#include <hgraph/runtime/node_scheduler.h>
#include <hgraph/types/operator_dispatch.h>
#include <hgraph/types/static_node.h>
#include <hgraph/types/time_series/ts_output.h>

#include <map>
#include <optional>

namespace hgv::rt
{
    struct RawDelta
    {
        std::string                                    tok;           // TS / TSW / SIGNAL scalar token
        std::vector<std::string>                       plus, minus;   // TSS added / TSS, TSD removed
        std::vector<std::pair<std::string, RawDelta>>  kids;          // TSD key=, TSL index=, TSB field= (text order)
    };

    inline RawDelta parse_raw(const Sch &sch, Cursor &c)
    {
        RawDelta d;
        switch (sch.kind)
        {
            case Kind::TS:
            case Kind::TSW:
            case Kind::SIGNAL:
                d.tok = c.token();
                (void)scalar_value(sch.scalar, d.tok);
                return d;
            case Kind::TSS:
                c.need('{');
                if (!c.eat('}'))
                {
                    do {
                        const bool plus = c.eat('+');
                        if (!plus) c.need('-');
                        (plus ? d.plus : d.minus).push_back(c.token());
                    } while (c.eat(','));
                    c.need('}');
                }
                return d;
            case Kind::TSD:
                c.need('{');
                if (!c.eat('}'))
                {
                    do {
                        if (c.eat('-')) { d.minus.push_back(c.token()); }
                        else
                        {
                            std::string k = c.token();
                            c.need('=');
                            d.kids.emplace_back(std::move(k), parse_raw(*sch.kids[0].second, c));
                        }
                    } while (c.eat(','));
                    c.need('}');
                }
                return d;
            case Kind::TSL:
                c.need('[');
                if (!c.eat(']'))
                {
                    do {
                        std::string k = c.token();
                        c.need('=');
                        d.kids.emplace_back(std::move(k), parse_raw(*sch.kids[0].second, c));
                    } while (c.eat(','));
                    c.need(']');
                }
                return d;
            case Kind::TSB:
                c.need('(');
                if (!c.eat(')'))
                {
                    do {
                        std::string name = c.token();
                        std::size_t idx  = 0;
                        while (idx < sch.kids.size() && sch.kids[idx].first != name) ++idx;
                        if (idx == sch.kids.size()) throw ParseError("unknown field " + name);
                        c.need('=');
                        d.kids.emplace_back(std::to_string(idx), parse_raw(*sch.kids[idx].second, c));
                    } while (c.eat(','));
                    c.need(')');
                }
                return d;
        }
        throw ParseError("delta");
    }

    // the LAST entry for a key / index / field wins (as in the Map / Bundle builders of parse_delta)
    inline std::vector<std::pair<std::string, const RawDelta *>> last_wins(const RawDelta &d)
    {
        std::vector<std::pair<std::string, const RawDelta *>> out;
        for (const auto &[k, child] : d.kids)
        {
            bool found = false;
            for (auto &e : out)
            {
                if (e.first == k) { e.second = &child; found = true; }
            }
            if (!found) out.emplace_back(k, &child);
        }
        return out;
    }

    inline void raw_write(const Sch &sch, const TSOutputView &out, const RawDelta &d)
    {
        const DateTime t = out.evaluation_time();
        switch (sch.kind)
        {
            case Kind::TS:
            case Kind::SIGNAL:
            {
                const Value v        = scalar_value(sch.scalar, d.tok);
                auto        mutation = out.begin_mutation(t);
                static_cast<void>(mutation.copy_value_from(v.view()));
                return;
            }
            case Kind::TSW:
            {
                const Value v      = scalar_value(sch.scalar, d.tok);
                auto        window = out.as_window();
                window.begin_mutation(t).push(v.view());
                return;
            }
            case Kind::TSS:
            {
                auto set      = out.as_set();
                auto mutation = set.begin_mutation(t);
                for (const auto &e : d.minus) { const Value v = scalar_value(sch.scalar, e); (void)mutation.remove(v.view()); }
                for (const auto &e : d.plus) { const Value v = scalar_value(sch.scalar, e); (void)mutation.add(v.view()); }
                mutation.touch();
                return;
            }
            case Kind::TSD:
            {
                auto dict     = out.as_dict();
                auto mutation = dict.begin_mutation(t);
                for (const auto &k : d.minus) { const Value v = scalar_value(sch.scalar, k); (void)mutation.erase(v.view()); }
                for (const auto &[k, child] : last_wins(d))
                {
                    const Value v  = scalar_value(sch.scalar, k);
                    auto        ch = mutation.at(v.view());
                    raw_write(*sch.kids[0].second, TSOutputView{out.output(), ch, t}, *child);
                }
                mutation.touch();
                return;
            }
            case Kind::TSL:
            {
                auto list = out.as_list();
                for (const auto &[k, child] : last_wins(d))
                {
                    auto ch = list.at(static_cast<std::size_t>(std::stoul(k)));
                    raw_write(*sch.kids[0].second, ch, *child);
                }
                return;
            }
            case Kind::TSB:
            {
                auto bundle = out.as_bundle();
                for (const auto &[k, child] : last_wins(d))
                {
                    const std::size_t idx = static_cast<std::size_t>(std::stoul(k));
                    auto              ch  = bundle.at(idx);
                    raw_write(*sch.kids[idx].second, ch, *child);
                }
                return;
            }
        }
    }

    struct RawStep
    {
        std::size_t              cycle{0};
        std::vector<std::size_t> touches;   // as_list().at(i) without a write (top-level dynamic list only)
        std::optional<RawDelta>  write;
    };

    inline void raw_step(const Sch &sch, const TSOutputView &out, const RawStep &step)
    {
        if (!step.touches.empty())
        {
            auto list = out.as_list();
            for (std::size_t i : step.touches) { (void)list.at(i); }
        }
        if (step.write.has_value()) { raw_write(sch, out, *step.write); }
    }

    struct RawScript
    {
        const Sch           *sch{nullptr};
        std::vector<RawStep> steps;   // cycles strictly increasing
    };
    inline RawScript g_raw_script;

    // the script of a case: touches of a cycle before its write, cycles strictly increasing
    inline RawScript build_raw_script(const Sch &sch, const std::vector<std::pair<std::size_t, std::string>> &ticks,
                                      const std::vector<std::pair<std::size_t, std::size_t>> &touches)
    {
        std::map<std::size_t, RawStep> by_cycle;
        for (const auto &[cycle, index] : touches)
        {
            auto &st = by_cycle[cycle];
            st.cycle = cycle;
            st.touches.push_back(index);
        }
        for (const auto &[cycle, text] : ticks)
        {
            auto &st = by_cycle[cycle];
            st.cycle = cycle;
            Cursor c{text};
            st.write = parse_raw(sch, c);
            if (!c.eof()) throw ParseError("trailing input");
        }
        RawScript script;
        script.sch = &sch;
        for (auto &[cycle, st] : by_cycle) { script.steps.push_back(std::move(st)); }
        return script;
    }

    // `touch <cycle> <i>` / `tick <cycle> ..` ordering: a cycle is not earlier than any touch and later than any tick
    inline bool raw_order_ok(long long cyc, bool is_tick, const std::vector<std::pair<std::size_t, std::string>> &ticks,
                             const std::vector<std::pair<std::size_t, std::size_t>> &touches)
    {
        (void)is_tick;
        if (cyc < 0) return false;
        if (!ticks.empty() && static_cast<std::size_t>(cyc) <= ticks.back().first) return false;
        if (!touches.empty() && static_cast<std::size_t>(cyc) < touches.back().first) return false;
        return true;
    }

    struct hgv_rawsrc : Operator<"hgv_rawsrc", Scalar<"key", Str>, Out<TsVar<"O">>>
    {
    };

    struct rawsrc_impl
    {
        static constexpr auto name              = "hgv_rawsrc_impl";
        static constexpr bool schedule_on_start = true;

        static void eval(Scalar<"key", Str>, NodeScheduler sched, State<Int> cursor, DateTime now, Out<TsVar<"S">> out)
        {
            const auto       &steps = g_raw_script.steps;
            std::size_t       i     = static_cast<std::size_t>(cursor.get());
            const std::size_t cycle = testing::cycle_offset(now);
            while (i < steps.size() && steps[i].cycle < cycle) { ++i; }
            if (i < steps.size() && steps[i].cycle == cycle)
            {
                const TSOutputView &view = out;
                raw_step(*g_raw_script.sch, view, steps[i]);
                ++i;
            }
            cursor.set(static_cast<Int>(i));
            if (i < steps.size()) { sched.schedule(MIN_ST + MIN_TD * static_cast<std::int64_t>(steps[i].cycle)); }
        }
    };

    inline void register_rawsrc()
    {
        static bool done = false;
        if (!done)
        {
            register_overload<hgv_rawsrc, rawsrc_impl>();
            done = true;
        }
    }
}  // namespace hgv::rt
