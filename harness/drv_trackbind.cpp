// hgv_trackbind (C04, stream `track-bind`): drives TWO REAL standalone TSOutput objects of one schema
// (TS<Int>, TSS<Int> or TSD<Int,TS<Int>>, compiled from the working tree, linked from .build/libhgv.a)
// and 1-3 REAL TSInput objects that are bound / re-bound / unbound in ANY cycle with the plain bind
// (TSInputView::bind_output) or the SAMPLED bind (TSInputView::bind_output_sampled - what nested-graph
// boundaries and REF retargets use), with an explicit evaluation time on every operation, and dumps
// valid / modified / last_modified_time / value (+ per-tick delta views, + every TSD child) through the
// TSOutputView of both producers and through the TSInputView of every consumer.
//
// One output line per input line.
//   case <id>                    -> "case <id>"
//   schema <ts|tss|tsd> <k>      -> "ok"          fresh outputs o0, o1 and k (1..3) unbound inputs
//   bind    <i> <o> <t>          -> "ok"          input i (unbound): view(nullptr,t).bind_output(out[o].view(t))
//   bindS   <i> <o> <t>          -> "ok"          input i (unbound): view(nullptr,t).bind_output_sampled(out[o].view(t), t)
//   rebind  <i> <o> <t>          -> "ok"          the same calls on an input that IS bound (same or other output)
//   rebindS <i> <o> <t>          -> "ok"
//   unbind  <i> <t>              -> "ok"          input i (bound): view(nullptr,t).unbind_output()
//   w   <o> <t> <v>       (ts)   -> "ok"          root.begin_mutation(t).copy_value_from(v)
//   add <o> <t> <e>       (tss)  -> "1"|"0"       as_set().begin_mutation(t).add(e)      (its result)
//   rem <o> <t> <e>       (tss)  -> "1"|"0"       ...remove(e)
//   set <o> <t> <k> <v>   (tsd)  -> "ok"          as_dict().begin_mutation(t).set(k, v)
//   del <o> <t> <k>       (tsd)  -> "1"|"0"       ...erase(k)
//   dump <t>                     -> "o0: <view> | o1: <view> | i0>1: <view> | i1>-: <flags>"
//        <flags> = <valid><modified>/<lmt>
//        <view>  ts : <flags>/<value or ->
//                tss: <flags>/[values]/+[added]/-[removed]                         (sorted)
//                tsd: <flags>/[k=<flags>/<value or ->,...]/~[modified keys]/+[added keys]/-[removed keys]
//        i<n>><o> names the output the input is bound to ("-" = unbound: only the flags are read)
// Every <t> is a cycle time > 0 (MIN_DT is refused: "bad-op").
// Errors: "err:invalid-arg" | "err:logic" | "err:range" | "err:other".  Unknown / malformed: "bad-op".
#include "hgv_common.h"

#include <hgraph/types/metadata/type_registry.h>
#include <hgraph/types/primitive_types.h>
#include <hgraph/types/static_schema.h>
#include <hgraph/types/time_series/ts_input.h>
#include <hgraph/types/time_series/ts_output.h>
#include <hgraph/types/value/value.h>

#include <algorithm>
#include <memory>
#include <stdexcept>

using namespace hgraph;
using namespace hgv;

namespace
{
    struct BadOp {};
    enum class Kind { TS, TSS, TSD };

    std::int64_t nat(const std::string &s)
    {
        if (s.empty() || s.find_first_not_of("0123456789") != std::string::npos || s.size() > 15) { throw BadOp{}; }
        return std::stoll(s);
    }
    std::int64_t integer(const std::string &s)
    {
        const std::string body = (!s.empty() && s[0] == '-') ? s.substr(1) : s;
        if (body.empty() || body.find_first_not_of("0123456789") != std::string::npos || body.size() > 15) { throw BadOp{}; }
        return std::stoll(s);
    }

    // a cycle time: a natural other than MIN_DT (both drivers refuse time 0)
    DateTime cycle(const std::string &s)
    {
        const auto t = nat(s);
        if (t == 0) { throw BadOp{}; }
        return dt(t);
    }

    Int as_int(const ValueView &v) { return v.checked_as<Int>(); }

    std::string join(std::vector<std::pair<Int, std::string>> items)
    {
        std::sort(items.begin(), items.end(), [](const auto &l, const auto &r) { return l.first < r.first; });
        std::string out = "[";
        for (std::size_t i = 0; i < items.size(); ++i) { out += (i ? "," : "") + items[i].second; }
        return out + "]";
    }

    std::string keys_of(const Range<ValueView> &range)
    {
        std::vector<std::pair<Int, std::string>> items;
        for (const auto key : range) { items.emplace_back(as_int(key), std::to_string(as_int(key))); }
        return join(std::move(items));
    }

    template <typename View>
    std::string flags(const View &view)
    {
        return std::string{view.valid() ? "1" : "0"} + (view.modified() ? "1" : "0") + "/" +
               std::to_string(us(view.last_modified_time()));
    }

    template <typename View>
    std::string leaf(const View &view)
    {
        return flags(view) + "/" + (view.valid() ? std::to_string(as_int(view.value())) : std::string{"-"});
    }

    template <typename View>
    std::string dump_view(const View &view, Kind kind)
    {
        if (kind == Kind::TS) { return leaf(view); }
        if (kind == Kind::TSS)
        {
            auto set = view.as_set();
            return flags(view) + "/" + keys_of(set.values()) + "/+" + keys_of(set.added()) + "/-" + keys_of(set.removed());
        }
        auto dict = view.as_dict();
        std::vector<std::pair<Int, std::string>> items;
        for (const auto [key, child] : dict.items())
        {
            items.emplace_back(as_int(key), std::to_string(as_int(key)) + "=" + leaf(child));
        }
        return flags(view) + "/" + join(std::move(items)) + "/~" + keys_of(dict.modified_keys()) + "/+" +
               keys_of(dict.added_keys()) + "/-" + keys_of(dict.removed_keys());
    }

    struct World
    {
        Kind                                   kind{Kind::TS};
        const TSValueTypeMetaData             *meta{nullptr};
        std::vector<std::unique_ptr<TSOutput>> outputs;
        std::vector<std::unique_ptr<TSInput>>  inputs;
        std::vector<int>                       target;   // -1 = unbound

        ~World()
        {
            inputs.clear();
            outputs.clear();
        }
    };
}  // namespace

int main()
{
    std::ios::sync_with_stdio(false);
    auto       &registry = TypeRegistry::instance();
    const auto *int_meta = scalar_descriptor<Int>::value_meta();
    const auto *ts_int   = registry.ts(int_meta);
    const auto *tss_int  = registry.tss(int_meta);
    const auto *tsd_int  = registry.tsd(int_meta, ts_int);

    std::unique_ptr<World> world;
    std::string            line;
    while (std::getline(std::cin, line))
    {
        auto w = split(line);
        if (w.empty()) { std::cout << "\n"; continue; }
        const std::string &op = w[0];
        try
        {
            auto out_index = [&](const std::string &s) {
                const auto o = nat(s);
                if (!world || o >= static_cast<std::int64_t>(world->outputs.size())) { throw BadOp{}; }
                return static_cast<std::size_t>(o);
            };
            auto in_index = [&](const std::string &s) {
                const auto i = nat(s);
                if (!world || i >= static_cast<std::int64_t>(world->inputs.size())) { throw BadOp{}; }
                return static_cast<std::size_t>(i);
            };
            if (op == "case") { world.reset(); std::cout << line << "\n"; }
            else if (op == "schema" && w.size() == 3)
            {
                const auto k = nat(w[2]);
                if (k < 1 || k > 3) { throw BadOp{}; }
                auto next = std::make_unique<World>();
                if (w[1] == "ts") { next->kind = Kind::TS; next->meta = ts_int; }
                else if (w[1] == "tss") { next->kind = Kind::TSS; next->meta = tss_int; }
                else if (w[1] == "tsd") { next->kind = Kind::TSD; next->meta = tsd_int; }
                else { throw BadOp{}; }
                for (int o = 0; o < 2; ++o) { next->outputs.push_back(std::make_unique<TSOutput>(*next->meta)); }
                for (std::int64_t i = 0; i < k; ++i)
                {
                    next->inputs.push_back(std::make_unique<TSInput>(
                        TSInputBuilderFactory::checked_builder_for(*next->meta, TSEndpointSchema::peered(next->meta))));
                    next->target.push_back(-1);
                }
                world = std::move(next);
                std::cout << "ok\n";
            }
            else if ((op == "bind" || op == "bindS" || op == "rebind" || op == "rebindS") && w.size() == 4 && world)
            {
                const auto i = in_index(w[1]);
                const auto o = out_index(w[2]);
                const auto t = cycle(w[3]);
                const bool want_bound = op[0] == 'r';
                if ((world->target[i] >= 0) != want_bound) { throw BadOp{}; }
                auto view = world->inputs[i]->view(nullptr, t);
                if (op.back() == 'S') { view.bind_output_sampled(world->outputs[o]->view(t), t); }
                else { view.bind_output(world->outputs[o]->view(t)); }
                world->target[i] = static_cast<int>(o);
                std::cout << "ok\n";
            }
            else if (op == "unbind" && w.size() == 3 && world)
            {
                const auto i = in_index(w[1]);
                const auto t = cycle(w[2]);
                if (world->target[i] < 0) { throw BadOp{}; }
                world->inputs[i]->view(nullptr, t).unbind_output();
                world->target[i] = -1;
                std::cout << "ok\n";
            }
            else if (op == "w" && w.size() == 4 && world && world->kind == Kind::TS)
            {
                const auto o = out_index(w[1]);
                const auto t = cycle(w[2]);
                Value      value{Int{integer(w[3])}};
                auto       mutation = world->outputs[o]->view(t).begin_mutation(t);
                static_cast<void>(mutation.copy_value_from(value.view()));
                std::cout << "ok\n";
            }
            else if ((op == "add" || op == "rem") && w.size() == 4 && world && world->kind == Kind::TSS)
            {
                const auto o = out_index(w[1]);
                const auto t = cycle(w[2]);
                Value      key{Int{integer(w[3])}};
                auto       view     = world->outputs[o]->view(t);
                auto       set      = view.as_set();
                auto       mutation = set.begin_mutation(t);
                const bool changed  = op == "add" ? mutation.add(key.view()) : mutation.remove(key.view());
                std::cout << (changed ? "1" : "0") << "\n";
            }
            else if (op == "set" && w.size() == 5 && world && world->kind == Kind::TSD)
            {
                const auto o = out_index(w[1]);
                const auto t = cycle(w[2]);
                Value      key{Int{integer(w[3])}};
                Value      value{Int{integer(w[4])}};
                auto       view     = world->outputs[o]->view(t);
                auto       dict     = view.as_dict();
                auto       mutation = dict.begin_mutation(t);
                mutation.set(key.view(), value.view());
                std::cout << "ok\n";
            }
            else if (op == "del" && w.size() == 4 && world && world->kind == Kind::TSD)
            {
                const auto o = out_index(w[1]);
                const auto t = cycle(w[2]);
                Value      key{Int{integer(w[3])}};
                auto       view     = world->outputs[o]->view(t);
                auto       dict     = view.as_dict();
                auto       mutation = dict.begin_mutation(t);
                std::cout << (mutation.erase(key.view()) ? "1" : "0") << "\n";
            }
            else if (op == "dump" && w.size() == 2 && world)
            {
                const auto  t = cycle(w[1]);
                std::string out;
                for (std::size_t o = 0; o < world->outputs.size(); ++o)
                {
                    out += (o ? " | o" : "o") + std::to_string(o) + ": " + dump_view(world->outputs[o]->view(t), world->kind);
                }
                for (std::size_t i = 0; i < world->inputs.size(); ++i)
                {
                    auto view = world->inputs[i]->view(nullptr, t);
                    out += " | i" + std::to_string(i) + ">";
                    if (world->target[i] < 0) { out += "-: " + flags(view); }
                    else { out += std::to_string(world->target[i]) + ": " + dump_view(view, world->kind); }
                }
                std::cout << out << "\n";
            }
            else { std::cout << "bad-op\n"; }
        }
        catch (const BadOp &) { std::cout << "bad-op\n"; }
        catch (const std::invalid_argument &) { std::cout << "err:invalid-arg\n"; }
        catch (const std::out_of_range &) { std::cout << "err:range\n"; }
        catch (const std::length_error &) { std::cout << "err:range\n"; }
        catch (const std::logic_error &) { std::cout << "err:logic\n"; }
        catch (const std::exception &) { std::cout << "err:other\n"; }
    }
    world.reset();
    return 0;
}
