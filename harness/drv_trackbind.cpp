// hgv_trackbind (C04, stream `track-bind`): drives TWO REAL standalone TSOutput objects of one schema
// (TS<Int>, TSS<Int> or TSD<Int,TS<Int>>, compiled from the working tree, linked from .build/libhgv.a)
// and 1-3 REAL TSInput objects that are bound / re-bound / unbound in ANY cycle with the plain bind
// (TSInputView::bind_output) or the SAMPLED bind (TSInputView::bind_output_sampled - what nested-graph
// boundaries and REF retargets use), with an explicit evaluation time on every operation, and dumps
// valid / modified / last_modified_time / value (+ per-tick delta views, + every TSD child) through the
// TSOutputView of both producers and through the TSInputView of every consumer.
//
// One output line per input line.
//   case <id>                    -> "case <id>"
//   schema <ts|tss|tsd> <k>      -> "ok"          fresh outputs o0, o1 and k (1..3) unbound inputs
//   bind    <i> <o> <t>          -> "ok"          input i (unbound): view(nullptr,t).bind_output(out[o].view(t))
//   bindS   <i> <o> <t>          -> "ok"          input i (unbound): view(nullptr,t).bind_output_sampled(out[o].view(t), t)
//   rebind  <i> <o> <t>          -> "ok"          the same calls on an input that IS bound (same or other output)
//   rebindS <i> <o> <t>          -> "ok"
//   unbind  <i> <t>              -> "ok"          input i (bound): view(nullptr,t).unbind_output()
//   w   <o> <t> <v>       (ts)   -> "ok"          root.begin_mutation(t).copy_value_from(v)
//   add <o> <t> <e>       (tss)  -> "1"|"0"       as_set().begin_mutation(t).add(e)      (its result)
//   rem <o> <t> <e>       (tss)  -> "1"|"0"       ...remove(e)
//   set <o> <t> <k> <v>   (tsd)  -> "ok"          as_dict().begin_mutation(t).set(k, v)
//   del <o> <t> <k>       (tsd)  -> "1"|"0"       ...erase(k)
//   touch  <o> <t>        (tsd, tsdn) -> "ok"     as_dict().begin_mutation(t).touch()              (no membership change)
//   clear  <o> <t>        (tsd, tsdn) -> "ok"     as_dict().begin_mutation(t).clear()               (touch, then erase of every live key)
//   empty  <o> <t>        (tsd, tsdn) -> "ok"     apply_delta(out[o].view(t), <empty delta>)        (no membership change)
//   setall <o> <t> <m>    (tsd)  -> "1"|"0"       as_dict().begin_mutation(t).copy_value_from(map)  m = "-" (empty) | k:v,k:v
//   bindK  <i> <o> <t>    (tsd, tsdn) -> "ok"     KEY-SET input i (a TSS<Int> input, unbound): bind_output(out[o].as_dict().key_set())
//   nested dictionaries (schema tsdn = TSD<Int,TSD<Int,TS<Int>>>; outputs and key-set inputs only):
//   nset   <o> <t> <k1> <k2> <v> -> "ok"          outer.at(k1), then inner.begin_mutation(t).set(k2, v)
//   ntouch <o> <t> <k1>          -> "ok"          outer.at(k1), then inner.begin_mutation(t).touch()
//   nempty <o> <t> <k1>          -> "ok"          outer.at(k1), then apply_delta(inner view, <empty delta>)
//   ndel   <o> <t> <k1> <k2>     -> "1"|"0"|"-"   inner.begin_mutation(t).erase(k2)   ("-": k1 is not a key, nothing is done)
//   del    <o> <t> <k1>          -> "1"|"0"       outer erase
//   dump <t>                     -> "o0: <view> | o1: <view> | i0>1: <view> | i1>-: <flags> [| k0>1: <kview> | k1>-: <flags>]"
//        <flags> = <valid><modified>/<lmt>
//        <view>  ts : <flags>/<value or ->
//                tss: <flags>/[values]/+[added]/-[removed]                         (sorted)
//                tsd: <flags>/[k=<flags>/<value or ->,...]/~[modified keys]/+[added keys]/-[removed keys]
//                     a PRODUCER view continues with the key-set endpoint (TSDOutputView::key_set(), its own tracking
//                     record):  /K<flags>/+[added]/-[removed]
//                tsdn (producer): <flags>/[k1=<flags>/K<flags>/[k2=<flags>/<value>,...],...]/~[..]/+[..]/-[..]/K<flags>/+[..]/-[..]
//        <kview> = <flags>/[keys]/+[added]/-[removed]   a key-set input (TSS view)
//        i<n>><o> names the output the input is bound to ("-" = unbound: only the flags are read)
// Every <t> is a cycle time > 0 (MIN_DT is refused: "bad-op").
// Errors: "err:invalid-arg" | "err:logic" | "err:range" | "err:other".  Unknown / malformed: "bad-op".
#include "hgv_common.h"

#include <hgraph/types/metadata/type_registry.h>
#include <hgraph/types/metadata/value_plan_factory.h>
#include <hgraph/types/primitive_types.h>
#include <hgraph/types/static_schema.h>
#include <hgraph/types/time_series/ts_delta.h>
#include <hgraph/types/time_series/ts_input.h>
#include <hgraph/types/time_series/ts_output.h>
#include <hgraph/types/value/value.h>
#include <hgraph/types/value/value_builder.h>

#include <algorithm>
#include <memory>
#include <stdexcept>

using namespace hgraph;
using namespace hgv;

namespace
{
    struct BadOp {};
    enum class Kind { TS, TSS, TSD, TSDN };

    std::int64_t nat(const std::string &s)
    {
        if (s.empty() || s.find_first_not_of("0123456789") != std::string::npos || s.size() > 15) { throw BadOp{}; }
        return std::stoll(s);
    }
    std::int64_t integer(const std::string &s)
    {
        const std::string body = (!s.empty() && s[0] == '-') ? s.substr(1) : s;
        if (body.empty() || body.find_first_not_of("0123456789") != std::string::npos || body.size() > 15) { throw BadOp{}; }
        return std::stoll(s);
    }

    // a cycle time: a natural other than MIN_DT (both drivers refuse time 0)
    DateTime cycle(const std::string &s)
    {
        const auto t = nat(s);
        if (t == 0) { throw BadOp{}; }
        return dt(t);
    }

    Int as_int(const ValueView &v) { return v.checked_as<Int>(); }

    std::string join(std::vector<std::pair<Int, std::string>> items)
    {
        std::sort(items.begin(), items.end(), [](const auto &l, const auto &r) { return l.first < r.first; });
        std::string out = "[";
        for (std::size_t i = 0; i < items.size(); ++i) { out += (i ? "," : "") + items[i].second; }
        return out + "]";
    }

    std::string keys_of(const Range<ValueView> &range)
    {
        std::vector<std::pair<Int, std::string>> items;
        for (const auto key : range) { items.emplace_back(as_int(key), std::to_string(as_int(key))); }
        return join(std::move(items));
    }

    template <typename View>
    std::string flags(const View &view)
    {
        return std::string{view.valid() ? "1" : "0"} + (view.modified() ? "1" : "0") + "/" +
               std::to_string(us(view.last_modified_time()));
    }

    template <typename View>
    std::string leaf(const View &view)
    {
        return flags(view) + "/" + (view.valid() ? std::to_string(as_int(view.value())) : std::string{"-"});
    }

    template <typename View>
    std::string set_view(const View &view)
    {
        auto set = view.as_set();
        return flags(view) + "/" + keys_of(set.values()) + "/+" + keys_of(set.added()) + "/-" + keys_of(set.removed());
    }

    // the key-set endpoint of a dictionary output: own flags, own delta views (its members are the dict's keys)
    std::string key_set_of(const TSOutputView &view)
    {
        auto keys = view.as_dict().key_set();
        auto set  = keys.as_set();
        return "/K" + flags(keys) + "/+" + keys_of(set.added()) + "/-" + keys_of(set.removed());
    }

    template <typename View>
    std::string dict_body(const View &view, bool nested);

    inline std::string kid(const TSOutputView &child, bool nested)
    {
        if (!nested) { return leaf(child); }
        // an inner dictionary: flags, its key-set flags, its items
        auto keys = child.as_dict().key_set();
        std::vector<std::pair<Int, std::string>> items;
        for (const auto [key, grandchild] : child.as_dict().items())
        {
            items.emplace_back(as_int(key), std::to_string(as_int(key)) + "=" + leaf(grandchild));
        }
        return flags(child) + "/K" + flags(keys) + "/" + join(std::move(items));
    }
    inline std::string kid(const TSInputView &child, bool) { return leaf(child); }

    template <typename View>
    std::string dict_body(const View &view, bool nested)
    {
        auto dict = view.as_dict();
        std::vector<std::pair<Int, std::string>> items;
        for (const auto [key, child] : dict.items())
        {
            items.emplace_back(as_int(key), std::to_string(as_int(key)) + "=" + kid(child, nested));
        }
        return flags(view) + "/" + join(std::move(items)) + "/~" + keys_of(dict.modified_keys()) + "/+" +
               keys_of(dict.added_keys()) + "/-" + keys_of(dict.removed_keys());
    }

    std::string dump_view(const TSOutputView &view, Kind kind)
    {
        if (kind == Kind::TS) { return leaf(view); }
        if (kind == Kind::TSS) { return set_view(view); }
        return dict_body(view, kind == Kind::TSDN) + key_set_of(view);
    }

    std::string dump_view(const TSInputView &view, Kind kind)
    {
        if (kind == Kind::TS) { return leaf(view); }
        if (kind == Kind::TSS) { return set_view(view); }
        return dict_body(view, false);
    }

    struct World
    {
        Kind                                   kind{Kind::TS};
        const TSValueTypeMetaData             *meta{nullptr};
        std::vector<std::unique_ptr<TSOutput>> outputs;
        std::vector<std::unique_ptr<TSInput>>  inputs;
        std::vector<int>                       target;   // -1 = unbound
        std::vector<std::unique_ptr<TSInput>>  kinputs;  // TSS<Int> inputs for the key sets (tsd / tsdn)
        std::vector<int>                       ktarget;

        ~World()
        {
            kinputs.clear();
            inputs.clear();
            outputs.clear();
        }
    };
}  // namespace

int main()
{
    std::ios::sync_with_stdio(false);
    auto       &registry = TypeRegistry::instance();
    const auto *int_meta = scalar_descriptor<Int>::value_meta();
    const auto *ts_int   = registry.ts(int_meta);
    const auto *tss_int  = registry.tss(int_meta);
    const auto *tsd_int  = registry.tsd(int_meta, ts_int);
    const auto *tsd_tsd  = registry.tsd(int_meta, tsd_int);
    const auto  int_binding = ValuePlanFactory::instance().type_for(int_meta);

    std::unique_ptr<World> world;
    std::string            line;
    while (std::getline(std::cin, line))
    {
        auto w = split(line);
        if (w.empty()) { std::cout << "\n"; continue; }
        const std::string &op = w[0];
        try
        {
            auto out_index = [&](const std::string &s) {
                const auto o = nat(s);
                if (!world || o >= static_cast<std::int64_t>(world->outputs.size())) { throw BadOp{}; }
                return static_cast<std::size_t>(o);
            };
            auto in_index = [&](const std::string &s) {
                const auto i = nat(s);
                if (!world || i >= static_cast<std::int64_t>(world->inputs.size())) { throw BadOp{}; }
                return static_cast<std::size_t>(i);
            };
            if (op == "case") { world.reset(); std::cout << line << "\n"; }
            else if (op == "schema" && w.size() == 3)
            {
                const auto k = nat(w[2]);
                if (k < 1 || k > 3) { throw BadOp{}; }
                auto next = std::make_unique<World>();
                if (w[1] == "ts") { next->kind = Kind::TS; next->meta = ts_int; }
                else if (w[1] == "tss") { next->kind = Kind::TSS; next->meta = tss_int; }
                else if (w[1] == "tsd") { next->kind = Kind::TSD; next->meta = tsd_int; }
                else if (w[1] == "tsdn") { next->kind = Kind::TSDN; next->meta = tsd_tsd; }
                else { throw BadOp{}; }
                for (int o = 0; o < 2; ++o) { next->outputs.push_back(std::make_unique<TSOutput>(*next->meta)); }
                for (std::int64_t i = 0; i < k; ++i)
                {
                    next->inputs.push_back(std::make_unique<TSInput>(
                        TSInputBuilderFactory::checked_builder_for(*next->meta, TSEndpointSchema::peered(next->meta))));
                    next->target.push_back(-1);
                    if (next->kind == Kind::TSD || next->kind == Kind::TSDN)
                    {
                        next->kinputs.push_back(std::make_unique<TSInput>(
                            TSInputBuilderFactory::checked_builder_for(*tss_int, TSEndpointSchema::peered(tss_int))));
                        next->ktarget.push_back(-1);
                    }
                }
                world = std::move(next);
                std::cout << "ok\n";
            }
            else if ((op == "bind" || op == "bindS" || op == "rebind" || op == "rebindS") && w.size() == 4 && world &&
                     world->kind != Kind::TSDN)
            {
                const auto i = in_index(w[1]);
                const auto o = out_index(w[2]);
                const auto t = cycle(w[3]);
                const bool want_bound = op[0] == 'r';
                if ((world->target[i] >= 0) != want_bound) { throw BadOp{}; }
                auto view = world->inputs[i]->view(nullptr, t);
                if (op.back() == 'S') { view.bind_output_sampled(world->outputs[o]->view(t), t); }
                else { view.bind_output(world->outputs[o]->view(t)); }
                world->target[i] = static_cast<int>(o);
                std::cout << "ok\n";
            }
            else if (op == "bindK" && w.size() == 4 && world && !world->kinputs.empty())
            {
                const auto i = in_index(w[1]);
                const auto o = out_index(w[2]);
                const auto t = cycle(w[3]);
                if (world->ktarget[i] >= 0) { throw BadOp{}; }
                auto out_view = world->outputs[o]->view(t);
                world->kinputs[i]->view(nullptr, t).bind_output(out_view.as_dict().key_set());
                world->ktarget[i] = static_cast<int>(o);
                std::cout << "ok\n";
            }
            else if (op == "unbind" && w.size() == 3 && world && world->kind != Kind::TSDN)
            {
                const auto i = in_index(w[1]);
                const auto t = cycle(w[2]);
                if (world->target[i] < 0) { throw BadOp{}; }
                world->inputs[i]->view(nullptr, t).unbind_output();
                world->target[i] = -1;
                std::cout << "ok\n";
            }
            else if (op == "w" && w.size() == 4 && world && world->kind == Kind::TS)
            {
                const auto o = out_index(w[1]);
                const auto t = cycle(w[2]);
                Value      value{Int{integer(w[3])}};
                auto       mutation = world->outputs[o]->view(t).begin_mutation(t);
                static_cast<void>(mutation.copy_value_from(value.view()));
                std::cout << "ok\n";
            }
            else if ((op == "add" || op == "rem") && w.size() == 4 && world && world->kind == Kind::TSS)
            {
                const auto o = out_index(w[1]);
                const auto t = cycle(w[2]);
                Value      key{Int{integer(w[3])}};
                auto       view     = world->outputs[o]->view(t);
                auto       set      = view.as_set();
                auto       mutation = set.begin_mutation(t);
                const bool changed  = op == "add" ? mutation.add(key.view()) : mutation.remove(key.view());
                std::cout << (changed ? "1" : "0") << "\n";
            }
            else if (op == "set" && w.size() == 5 && world && world->kind == Kind::TSD)
            {
                const auto o = out_index(w[1]);
                const auto t = cycle(w[2]);
                Value      key{Int{integer(w[3])}};
                Value      value{Int{integer(w[4])}};
                auto       view     = world->outputs[o]->view(t);
                auto       dict     = view.as_dict();
                auto       mutation = dict.begin_mutation(t);
                mutation.set(key.view(), value.view());
                std::cout << "ok\n";
            }
            else if (op == "del" && w.size() == 4 && world && (world->kind == Kind::TSD || world->kind == Kind::TSDN))
            {
                const auto o = out_index(w[1]);
                const auto t = cycle(w[2]);
                Value      key{Int{integer(w[3])}};
                auto       view     = world->outputs[o]->view(t);
                auto       dict     = view.as_dict();
                auto       mutation = dict.begin_mutation(t);
                std::cout << (mutation.erase(key.view()) ? "1" : "0") << "\n";
            }
            else if ((op == "touch" || op == "clear") && w.size() == 3 && world &&
                     (world->kind == Kind::TSD || world->kind == Kind::TSDN))
            {
                const auto o = out_index(w[1]);
                const auto t = cycle(w[2]);
                auto       view     = world->outputs[o]->view(t);
                auto       dict     = view.as_dict();
                auto       mutation = dict.begin_mutation(t);
                if (op == "touch") { mutation.touch(); } else { mutation.clear(); }
                std::cout << "ok\n";
            }
            else if (op == "empty" && w.size() == 3 && world && (world->kind == Kind::TSD || world->kind == Kind::TSDN))
            {
                const auto  o     = out_index(w[1]);
                const auto  t     = cycle(w[2]);
                auto        data  = world->outputs[o]->data_view();
                const auto  type  = data.storage_type();
                const Value empty = type.ops()->empty_delta_impl(type);
                apply_delta(world->outputs[o]->view(t), empty.view());
                std::cout << "ok\n";
            }
            else if (op == "setall" && w.size() == 4 && world && world->kind == Kind::TSD)
            {
                const auto o = out_index(w[1]);
                const auto t = cycle(w[2]);
                MapBuilder builder{int_binding, int_binding};
                if (w[3] != "-")
                {
                    std::size_t start = 0;
                    for (;;)
                    {
                        const auto comma = w[3].find(',', start);
                        const auto item  = w[3].substr(start, comma == std::string::npos ? std::string::npos : comma - start);
                        const auto colon = item.find(':');
                        if (colon == std::string::npos) { throw BadOp{}; }
                        const Int key   = integer(item.substr(0, colon));
                        const Int value = integer(item.substr(colon + 1));
                        if (builder.contains(&key)) { throw BadOp{}; }
                        builder.set_item(key, value);
                        if (comma == std::string::npos) { break; }
                        start = comma + 1;
                    }
                }
                Value map      = builder.build();
                auto  view     = world->outputs[o]->view(t);
                auto  dict     = view.as_dict();
                auto  mutation = dict.begin_mutation(t);
                std::cout << (mutation.copy_value_from(map.view()) ? "1" : "0") << "\n";
            }
            else if ((op == "ntouch" || op == "nempty") && w.size() == 4 && world && world->kind == Kind::TSDN)
            {
                const auto o = out_index(w[1]);
                const auto t = cycle(w[2]);
                Value      k1{Int{integer(w[3])}};
                auto       view     = world->outputs[o]->view(t);
                auto       dict     = view.as_dict();
                auto       mutation = dict.begin_mutation(t);
                auto       inner    = mutation.at(k1.view());
                if (op == "ntouch") { inner.as_dict().begin_mutation(t).touch(); }
                else
                {
                    const auto  type  = inner.storage_type();
                    const Value empty = type.ops()->empty_delta_impl(type);
                    apply_delta(dict.at(k1.view()), empty.view());
                }
                std::cout << "ok\n";
            }
            else if (op == "nset" && w.size() == 6 && world && world->kind == Kind::TSDN)
            {
                const auto o = out_index(w[1]);
                const auto t = cycle(w[2]);
                Value      k1{Int{integer(w[3])}};
                Value      k2{Int{integer(w[4])}};
                Value      v{Int{integer(w[5])}};
                auto       view     = world->outputs[o]->view(t);
                auto       dict     = view.as_dict();
                auto       mutation = dict.begin_mutation(t);
                auto       inner    = mutation.at(k1.view());
                inner.as_dict().begin_mutation(t).set(k2.view(), v.view());
                std::cout << "ok\n";
            }
            else if (op == "ndel" && w.size() == 5 && world && world->kind == Kind::TSDN)
            {
                const auto o = out_index(w[1]);
                const auto t = cycle(w[2]);
                Value      k1{Int{integer(w[3])}};
                Value      k2{Int{integer(w[4])}};
                auto       view = world->outputs[o]->view(t);
                auto       dict = view.as_dict();
                if (!dict.contains(k1.view())) { std::cout << "-\n"; }
                else
                {
                    auto mutation = dict.begin_mutation(t);
                    auto inner    = mutation.at(k1.view());
                    std::cout << (inner.as_dict().begin_mutation(t).erase(k2.view()) ? "1" : "0") << "\n";
                }
            }
            else if (op == "dump" && w.size() == 2 && world)
            {
                const auto  t = cycle(w[1]);
                std::string out;
                for (std::size_t o = 0; o < world->outputs.size(); ++o)
                {
                    out += (o ? " | o" : "o") + std::to_string(o) + ": " + dump_view(world->outputs[o]->view(t), world->kind);
                }
                for (std::size_t i = 0; i < world->inputs.size(); ++i)
                {
                    auto view = world->inputs[i]->view(nullptr, t);
                    out += " | i" + std::to_string(i) + ">";
                    if (world->target[i] < 0) { out += "-: " + flags(view); }
                    else { out += std::to_string(world->target[i]) + ": " + dump_view(view, world->kind); }
                }
                for (std::size_t i = 0; i < world->kinputs.size(); ++i)
                {
                    auto view = world->kinputs[i]->view(nullptr, t);
                    out += " | k" + std::to_string(i) + ">";
                    if (world->ktarget[i] < 0) { out += "-: " + flags(view); }
                    else { out += std::to_string(world->ktarget[i]) + ": " + set_view(view); }
                }
                std::cout << out << "\n";
            }
            else { std::cout << "bad-op\n"; }
        }
        catch (const BadOp &) { std::cout << "bad-op\n"; }
        catch (const std::invalid_argument &) { std::cout << "err:invalid-arg\n"; }
        catch (const std::out_of_range &) { std::cout << "err:range\n"; }
        catch (const std::length_error &) { std::cout << "err:range\n"; }
        catch (const std::logic_error &) { std::cout << "err:logic\n"; }
        catch (const std::exception &) { std::cout << "err:other\n"; }
    }
    world.reset();
    return 0;
}
