// hgv_track: drives REAL standalone TSOutput objects of structured schemas (TS, TSB, fixed TSL and
// nestings, compiled from the working tree, linked from .build/libhgv.a) and 1-2 REAL TSInput
// objects bound to the output with bind_output, with an explicit evaluation time on every
// operation, and dumps valid / modified / last_modified_time (/ value of leaves) of EVERY position
// through the TSOutputView and through every TSInputView (C04).
//
// One output line per input line.
//   case <id>                 -> "case <id>"
//   schema <S> <k>            -> "ok n=<positions>"   fresh output of schema S with k (1..2) unbound inputs
//        S ::= TS<Int> | TSB{<name>:S,...} | TSL<S,<n>>       (no blanks)
//   bind <i> <t>              -> "ok"                 input i: view(nullptr,t).bind_output(output.view(t))
//   w <path> <t> <v>          -> "ok<notes>"          leaf.begin_mutation(t).copy_value_from(v)
//   ws <path> <t> <spec>      -> "ok<notes>"          WHOLE-VALUE write of a container position:
//   wm <path> <t> <spec>                              position.begin_mutation(t).copy_value_from(<Value>) (ws) /
//                                                     .move_value_from(std::move(<Value>)) (wm), <Value> built with
//                                                     BundleBuilder / ListBuilder from <spec>
//        <spec> ::= <int> (present leaf) | _ (unset child) | (<spec>,...) (present container, one entry per child;
//                   no blanks), e.g. (5,_,(7,_)); the all-unset value of a two-field bundle is (_,_).  The spec must
//                   have the shape of the position and be a (...) at the top, else "bad-op".  Only the list value handed
//                   to the write itself may carry unset elements (compact list); a fixed-size list NESTED in the value is
//                   a native fixed list, which has no per-element validity: "_" among its elements is "bad-op".
//   inv <path> <t>            -> "1<notes>"|"0<notes>" position.begin_mutation(t).invalidate()  (its result)
//        <notes> = " <path>*<count>" for every position (pre-order) whose observers were notified by the
//        operation: a counting Notifiable is subscribed at EVERY position of the output
//   dump <t>                  -> "o: <pos>... | i0: <pos>... | i1: unbound"
//        <pos> = <path>=<valid><modified>/<lmt>/<value or ->     positions in pre-order
//   val <t>                   -> "o: <cpos>... | i0: <cpos>... | i1: unbound"     the VALUE surface of every container
//        <cpos> = <path>=<pattern>   for every CONTAINER position in pre-order; <pattern> renders position.value()
//        like a <spec>: "_" for a field without a value (ValueView::has_value() false), the integer of a leaf, "(...)"
//        for a bundle / list.  (A bundle value marks a field as set when the child is first stamped and never unsets
//        it; a native fixed-size list value is dense: never written Int elements read 0.)
//   <path> = "." (root) or child indices joined by "." ("1.0")
// Errors: "err:invalid-arg" | "err:logic" | "err:range" | "err:other", followed by the <notes> of the positions notified
// before the error (only a whole-value write can fail half-way: "fixed TSData child reported a duplicate modification"
// = err:logic, when a nested container that a direct write already stamped in this cycle gets a newly written child).
// Unknown / malformed: "bad-op".
#include "hgv_common.h"

#include <hgraph/types/metadata/type_registry.h>
#include <hgraph/types/notifiable.h>
#include <hgraph/types/primitive_types.h>
#include <hgraph/types/static_schema.h>
#include <hgraph/types/time_series/ts_input.h>
#include <hgraph/types/time_series/ts_output.h>
#include <hgraph/types/value/value.h>
#include <hgraph/types/value/specialized_views.h>
#include <hgraph/types/value/value_builder.h>
#include <hgraph/types/metadata/value_plan_factory.h>

#include <memory>
#include <optional>
#include <stdexcept>

using namespace hgraph;
using namespace hgv;

namespace
{
    struct BadOp {};

    std::int64_t nat(const std::string &s)
    {
        if (s.empty() || s.find_first_not_of("0123456789") != std::string::npos || s.size() > 15) { throw BadOp{}; }
        return std::stoll(s);
    }
    std::int64_t integer(const std::string &s)
    {
        const std::string body = (!s.empty() && s[0] == '-') ? s.substr(1) : s;
        if (body.empty() || body.find_first_not_of("0123456789") != std::string::npos || body.size() > 15) { throw BadOp{}; }
        return std::stoll(s);
    }

    // ---- schema text -> shape tree + registry metadata
    struct Shape
    {
        bool                       leaf{true};
        bool                       list{false};
        std::vector<Shape>         kids;
        const TSValueTypeMetaData *meta{nullptr};
    };

    struct Parser
    {
        const std::string &s;
        std::size_t        i{0};
        std::size_t        count{0};

        bool eat(const std::string &lit)
        {
            if (s.compare(i, lit.size(), lit) == 0) { i += lit.size(); return true; }
            return false;
        }

        Shape parse(std::size_t depth)
        {
            if (depth > 4 || ++count > 64) { throw BadOp{}; }
            auto &registry = TypeRegistry::instance();
            Shape out;
            if (eat("TS<Int>"))
            {
                out.meta = registry.ts(scalar_descriptor<Int>::value_meta());
                return out;
            }
            if (eat("TSB{"))
            {
                out.leaf = false;
                std::vector<std::pair<std::string, const TSValueTypeMetaData *>> fields;
                for (;;)
                {
                    std::string name;
                    while (i < s.size() && std::isalnum(static_cast<unsigned char>(s[i]))) { name += s[i++]; }
                    if (name.empty() || !eat(":")) { throw BadOp{}; }
                    for (const auto &f : fields) { if (f.first == name) { throw BadOp{}; } }
                    out.kids.push_back(parse(depth + 1));
                    fields.emplace_back(name, out.kids.back().meta);
                    if (eat(",")) { continue; }
                    if (eat("}")) { break; }
                    throw BadOp{};
                }
                out.meta = registry.un_named_tsb(fields);
                return out;
            }
            if (eat("TSL<"))
            {
                out.leaf = false;
                out.list = true;
                const std::size_t before = count;
                Shape element = parse(depth + 1);
                const std::size_t element_count = count - before;
                if (!eat(",")) { throw BadOp{}; }
                std::string digits;
                while (i < s.size() && std::isdigit(static_cast<unsigned char>(s[i]))) { digits += s[i++]; }
                if (digits.empty() || digits.size() > 2 || !eat(">")) { throw BadOp{}; }
                const auto n = static_cast<std::size_t>(std::stoll(digits));
                if (n == 0 || n > 8) { throw BadOp{}; }
                count += element_count * (n - 1);
                if (count > 64) { throw BadOp{}; }
                out.meta = registry.tsl(element.meta, n);
                for (std::size_t k = 0; k < n; ++k) { out.kids.push_back(element); }
                return out;
            }
            throw BadOp{};
        }
    };

    std::vector<std::size_t> parse_path(const std::string &text)
    {
        std::vector<std::size_t> path;
        if (text == ".") { return path; }
        std::size_t start = 0;
        for (;;)
        {
            const auto dot = text.find('.', start);
            const auto part = text.substr(start, dot == std::string::npos ? std::string::npos : dot - start);
            path.push_back(static_cast<std::size_t>(nat(part)));
            if (dot == std::string::npos) { break; }
            start = dot + 1;
        }
        return path;
    }

    const Shape &shape_at(const Shape &root, const std::vector<std::size_t> &path)
    {
        const Shape *cur = &root;
        for (const auto index : path)
        {
            if (cur->leaf || index >= cur->kids.size()) { throw BadOp{}; }
            cur = &cur->kids[index];
        }
        return *cur;
    }

    // ---- value spec -> (possibly sparse) Value of the position's shape
    struct SpecNode
    {
        bool                  present{false};
        Int                   leaf{0};
        std::vector<SpecNode> kids;
    };

    struct SpecParser
    {
        const std::string &s;
        std::size_t        i{0};

        /** the present value of `shape` starting at s[i]; the caller has already excluded "_".  The native value of a
            fixed-size list has no per-element validity: only the list value handed to the write itself (a compact list
            from ListBuilder) can carry unset elements, a list NESTED in the value must be dense (else bad-op). */
        SpecNode parse(const Shape &shape, bool top)
        {
            SpecNode out;
            out.present = true;
            if (shape.leaf)
            {
                std::string digits;
                if (i < s.size() && s[i] == '-') { digits += s[i++]; }
                while (i < s.size() && std::isdigit(static_cast<unsigned char>(s[i]))) { digits += s[i++]; }
                out.leaf = Int{integer(digits)};
                return out;
            }
            if (i >= s.size() || s[i] != '(') { throw BadOp{}; }
            ++i;
            for (std::size_t k = 0; k < shape.kids.size(); ++k)
            {
                if (k > 0)
                {
                    if (i >= s.size() || s[i] != ',') { throw BadOp{}; }
                    ++i;
                }
                if (i < s.size() && s[i] == '_')
                {
                    ++i;
                    if (shape.list && !top) { throw BadOp{}; }
                    out.kids.emplace_back();
                }
                else { out.kids.push_back(parse(shape.kids[k], false)); }
            }
            if (i >= s.size() || s[i] != ')') { throw BadOp{}; }
            ++i;
            return out;
        }
    };

    /** writes the present children of `node` into the (mutable) value view of a container of shape `shape`:
        MutableIndexedValueView::at(k) marks a bundle field as set; untouched bundle fields stay unset */
    void fill_value(ValueView target, const Shape &shape, const SpecNode &node)
    {
        if (shape.leaf)
        {
            target.checked_mutable_as<Int>() = node.leaf;
            return;
        }
        if (shape.list)
        {
            auto list = target.as_list().begin_mutation();
            for (std::size_t k = 0; k < node.kids.size(); ++k)
            {
                if (node.kids[k].present) { fill_value(list.at(k), shape.kids[k], node.kids[k]); }
            }
            return;
        }
        auto bundle = target.as_bundle().begin_mutation();
        for (std::size_t k = 0; k < node.kids.size(); ++k)
        {
            if (node.kids[k].present) { fill_value(bundle.at(k), shape.kids[k], node.kids[k]); }
        }
    }

    Value build_value(const Shape &shape, const SpecNode &node, bool top)
    {
        if (shape.leaf) { return Value{node.leaf}; }
        if (shape.list && top)
        {
            ListBuilder builder{ValuePlanFactory::instance().type_for(shape.kids[0].meta->value_schema), *shape.meta->value_schema};
            for (std::size_t k = 0; k < node.kids.size(); ++k)
            {
                if (node.kids[k].present) { builder.push_back(build_value(shape.kids[k], node.kids[k], false)); }
                else { builder.push_back_unset(); }
            }
            return builder.build();
        }
        Value value{ValuePlanFactory::instance().type_for(shape.meta->value_schema)};
        fill_value(value.view().begin_mutation(), shape, node);
        return value;
    }

    TSOutputView out_at(TSOutputView view, const std::vector<std::size_t> &path, std::size_t k = 0)
    {
        if (k == path.size()) { return view; }
        return out_at(view.indexed_child_at(path[k]), path, k + 1);
    }

    template <typename View>
    void dump_view(const View &view, const Shape &shape, const std::string &path, std::string &out)
    {
        const bool valid = view.valid();
        out += " " + (path.empty() ? std::string{"."} : path) + "=" + (valid ? "1" : "0") + (view.modified() ? "1" : "0") + "/" +
               std::to_string(us(view.last_modified_time())) + "/";
        if (shape.leaf && valid) { out += std::to_string(view.value().template checked_as<Int>()); }
        else { out += "-"; }
        for (std::size_t k = 0; k < shape.kids.size(); ++k)
        {
            dump_view(view.indexed_child_at(k), shape.kids[k], path.empty() ? std::to_string(k) : path + "." + std::to_string(k), out);
        }
    }

    std::string pattern_of(const ValueView &value, const Shape &shape)
    {
        if (!value.has_value()) { return "_"; }
        if (shape.leaf) { return std::to_string(value.checked_as<Int>()); }
        std::string out = "(";
        const auto  indexed = value.as_indexed_view();
        for (std::size_t k = 0; k < shape.kids.size(); ++k)
        {
            if (k > 0) { out += ","; }
            out += k < indexed.size() ? pattern_of(indexed.at(k), shape.kids[k]) : std::string{"?"};
        }
        return out + ")";
    }

    template <typename View>
    void value_view(const View &view, const Shape &shape, const std::string &path, std::string &out)
    {
        if (shape.leaf) { return; }
        out += " " + (path.empty() ? std::string{"."} : path) + "=" + pattern_of(view.value(), shape);
        for (std::size_t k = 0; k < shape.kids.size(); ++k)
        {
            value_view(view.indexed_child_at(k), shape.kids[k], path.empty() ? std::to_string(k) : path + "." + std::to_string(k), out);
        }
    }

    struct Counter final : Notifiable
    {
        int  count{0};
        void notify(DateTime) override { ++count; }
    };

    struct World
    {
        Shape                                 shape;
        std::unique_ptr<TSOutput>             output;
        std::vector<std::unique_ptr<TSInput>> inputs;
        std::vector<bool>                     bound;
        // one counting observer per position, pre-order
        std::vector<std::unique_ptr<Counter>>   counters;
        std::vector<std::vector<std::size_t>>   paths;
        std::vector<std::string>                names;

        void subscribe_all(const Shape &at, std::vector<std::size_t> &path, const std::string &name)
        {
            counters.push_back(std::make_unique<Counter>());
            paths.push_back(path);
            names.push_back(name.empty() ? std::string{"."} : name);
            out_at(output->view(dt(1)), path).subscribe(counters.back().get());
            for (std::size_t k = 0; k < at.kids.size(); ++k)
            {
                path.push_back(k);
                subscribe_all(at.kids[k], path, name.empty() ? std::to_string(k) : name + "." + std::to_string(k));
                path.pop_back();
            }
        }

        std::string take_notes()
        {
            std::string out;
            for (std::size_t i = 0; i < counters.size(); ++i)
            {
                if (counters[i]->count > 0) { out += " " + names[i] + "*" + std::to_string(counters[i]->count); }
                counters[i]->count = 0;
            }
            return out;
        }

        ~World()
        {
            inputs.clear();
            if (output)
            {
                for (std::size_t i = 0; i < counters.size(); ++i)
                {
                    try { out_at(output->view(dt(1)), paths[i]).unsubscribe(counters[i].get()); } catch (...) {}
                }
            }
            output.reset();
        }
    };

    std::string notes_of(const std::unique_ptr<World> &world) { return world ? world->take_notes() : std::string{}; }
}  // namespace

int main()
{
    std::ios::sync_with_stdio(false);
    std::unique_ptr<World> world;
    std::string            line;
    while (std::getline(std::cin, line))
    {
        auto w = split(line);
        if (w.empty()) { std::cout << "\n"; continue; }
        const std::string &op = w[0];
        try
        {
            if (op == "case") { world.reset(); std::cout << line << "\n"; }
            else if (op == "schema" && w.size() == 3)
            {
                const auto k = nat(w[2]);
                if (k < 1 || k > 2) { throw BadOp{}; }
                Parser parser{w[1]};
                Shape  shape = parser.parse(0);
                if (parser.i != w[1].size()) { throw BadOp{}; }
                auto next    = std::make_unique<World>();
                next->shape  = std::move(shape);
                next->output = std::make_unique<TSOutput>(*next->shape.meta);
                for (std::int64_t i = 0; i < k; ++i)
                {
                    next->inputs.push_back(std::make_unique<TSInput>(TSInputBuilderFactory::checked_builder_for(
                        *next->shape.meta, TSEndpointSchema::peered(next->shape.meta))));
                    next->bound.push_back(false);
                }
                {
                    std::vector<std::size_t> path;
                    next->subscribe_all(next->shape, path, "");
                }
                world = std::move(next);
                std::cout << "ok n=" << parser.count << "\n";
            }
            else if (op == "bind" && w.size() == 3 && world)
            {
                const auto i = static_cast<std::size_t>(nat(w[1]));
                const auto t = dt(nat(w[2]));
                if (i >= world->inputs.size() || world->bound[i]) { throw BadOp{}; }
                world->inputs[i]->view(nullptr, t).bind_output(world->output->view(t));
                world->bound[i] = true;
                std::cout << "ok\n";
            }
            else if (op == "w" && w.size() == 4 && world)
            {
                const auto path = parse_path(w[1]);
                const auto t    = dt(nat(w[2]));
                Value      value{Int{integer(w[3])}};
                if (!shape_at(world->shape, path).leaf) { throw BadOp{}; }
                auto position = out_at(world->output->view(t), path);
                auto mutation = position.begin_mutation(t);
                static_cast<void>(mutation.copy_value_from(value.view()));
                std::cout << "ok" << world->take_notes() << "\n";
            }
            else if ((op == "ws" || op == "wm") && w.size() == 4 && world)
            {
                const auto   path  = parse_path(w[1]);
                const auto   t     = dt(nat(w[2]));
                const Shape &shape = shape_at(world->shape, path);
                if (shape.leaf) { throw BadOp{}; }
                SpecParser     spec{w[3]};
                const SpecNode node = spec.parse(shape, true);
                if (spec.i != w[3].size()) { throw BadOp{}; }
                Value value = build_value(shape, node, true);
                auto position = out_at(world->output->view(t), path);
                auto mutation = position.begin_mutation(t);
                if (op == "ws") { static_cast<void>(mutation.copy_value_from(value.view())); }
                else { static_cast<void>(mutation.move_value_from(std::move(value))); }
                std::cout << "ok" << world->take_notes() << "\n";
            }
            else if (op == "inv" && w.size() == 3 && world)
            {
                const auto path = parse_path(w[1]);
                const auto t    = dt(nat(w[2]));
                static_cast<void>(shape_at(world->shape, path));
                auto position = out_at(world->output->view(t), path);
                auto mutation = position.begin_mutation(t);
                const bool invalidated = mutation.invalidate();
                std::cout << (invalidated ? "1" : "0") << world->take_notes() << "\n";
            }
            else if (op == "dump" && w.size() == 2 && world)
            {
                const auto  t   = dt(nat(w[1]));
                std::string out = "o:";
                dump_view(world->output->view(t), world->shape, "", out);
                for (std::size_t i = 0; i < world->inputs.size(); ++i)
                {
                    out += " | i" + std::to_string(i) + ":";
                    if (!world->bound[i]) { out += " unbound"; continue; }
                    dump_view(world->inputs[i]->view(nullptr, t), world->shape, "", out);
                }
                std::cout << out << "\n";
            }
            else if (op == "val" && w.size() == 2 && world)
            {
                const auto  t   = dt(nat(w[1]));
                std::string out = "o:";
                value_view(world->output->view(t), world->shape, "", out);
                for (std::size_t i = 0; i < world->inputs.size(); ++i)
                {
                    out += " | i" + std::to_string(i) + ":";
                    if (!world->bound[i]) { out += " unbound"; continue; }
                    value_view(world->inputs[i]->view(nullptr, t), world->shape, "", out);
                }
                std::cout << out << "\n";
            }
            else { std::cout << "bad-op\n"; }
        }
        // an operation that fails half-way (a whole-value write) has already notified the observers of the children it
        // wrote: those notes are listed after the error class (empty for every other error)
        catch (const BadOp &) { std::cout << "bad-op\n"; }
        catch (const std::invalid_argument &) { std::cout << "err:invalid-arg" << notes_of(world) << "\n"; }
        catch (const std::out_of_range &) { std::cout << "err:range" << notes_of(world) << "\n"; }
        catch (const std::length_error &) { std::cout << "err:range" << notes_of(world) << "\n"; }
        catch (const std::logic_error &) { std::cout << "err:logic" << notes_of(world) << "\n"; }
        catch (const std::exception &) { std::cout << "err:other" << notes_of(world) << "\n"; }
    }
    world.reset();
    return 0;
}
