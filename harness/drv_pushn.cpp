// hgv_pushn: several REAL push sources in ONE root graph (push_source_node.cpp), sharing the
// real-time executor's single push_update_pending flag (executor.cpp), driven through the push
// phase of graph.cpp evaluate_impl (C16, multi-source part).  Same conventions as hgv_push
// (drv_push.cpp): no source hooks; a single controller thread issues the steps in order; every
// send runs on its own producer thread and is joined before the next step unless it blocks inside
// send_blocking (bounded queue at capacity), in which case it stays parked until a later step
// (a cycle that pops from ITS source, or the graph stop) releases it.
//
// Lines (one output line per input line):
//   case <n>
//   cfgn <cap0> <pol0> [<cap1> <pol1> [<cap2> <pol2>]]      policy q|b|c|d; sources = push prefix 0..k-1
//        d = CONFLATING policy with a COLLECTION output TSD<Int,TS<Int>> (ConflatingPolicyStorage with a
//        dict accumulator): the payload of a send to such a source is a collection DELTA instead of an
//        int:  <k>=<v> set | -<k> remove (lenient: the key may be absent) | e the empty delta, or a
//        comma list of set/remove items (removals are applied first).  Its cycle entry is the value
//        the sink saw, "{k:v,..}" sorted by key; accepted lists its deltas joined by ';'.
//   sched <step> ...   S graph start | t<s>.<i>:<v> try_send of producer i to source s |
//                      b<s>.<i>:<v> send_blocking | c one evaluation cycle |
//                      L the loop by hand: cycles while the executor flag is raised (<= 40), then sleep |
//                      r request_stop | X graph stop
//   -> per step "<step>[=<result>] [+b<s>.<i>:<v>=<r> ...] p<pending_0>,..,<pending_k-1> f<flag>"
//      joined by " | "; a cycle prints "c<time>:<d_0>/../<d_k-1>" (d = "-", a value, or a burst
//      tuple "[..]"), the loop "L<n>[<cycle>;<cycle>...]" (completions inside it without the blank:
//      "c1001:1/-+b0.2:5=1"); then
//      "end accepted=[..]/[..] delivered=[t:v ..]/[..]"   (per source)
//   stressn <messages> <mode 0 blocking|1 try+retry|2 mixed> <cap0> <cap1> [<cap2>]
//      the REAL executor loop on its own thread, one real producer thread per source (monitor-only)
//   tryonly <producers> <sends> <policy q|b> <poller 0|1>
//      the REAL executor loop; ONE source that can never be full (queue: unbounded; burst: capacity
//      1000000); every producer thread calls plain try_send <sends> times WITHOUT retry and counts
//      accepted / refused; optionally a thread polling inspection_metrics().pending_items all the
//      time (nobody else reads the metrics); no stop is requested before every producer is done.
//      -> "tryonly policy=.. producers=.. poller=.. sends=a/b accepted=a/b refused=a/b delivered=n
//          stop_before_done=0 timeout=0"   (monitor-only)
#include "hgv_common.h"

#include <hgraph/lib/testing/runtime_support.h>
#include <hgraph/runtime/push_source_node.h>
#include <hgraph/runtime/runtime.h>
#include <hgraph/types/static_node.h>
#include <hgraph/types/static_schema.h>
#include <hgraph/types/type_resolution.h>
#include <hgraph/types/value/value.h>

#include <algorithm>
#include <atomic>
#include <chrono>
#include <functional>
#include <future>
#include <map>
#include <memory>
#include <mutex>
#include <optional>
#include <thread>

using namespace hgraph;
using namespace hgv;

namespace
{
    struct SourceCfg
    {
        std::size_t cap{0};
        char        policy{'q'};
    };

    struct Outstanding
    {
        std::size_t      source;
        int              producer;
        std::string      value;      // the payload token
        std::future<int> result;     // 1 accepted, 0 refused, -1 threw
        std::thread      thread;
    };

    struct Run
    {
        std::vector<SourceCfg>                  cfg;
        bool                                    started{false}, stopped{false}, rstop{false};
        std::int64_t                            time{1000};
        std::vector<PushSourceSender>           senders;
        std::vector<std::vector<std::string>>   cycle_vals;   // per source: what its sink saw in the current cycle
        std::vector<std::vector<std::string>>   delivered;    // per source: "t:v"
        std::vector<std::vector<std::string>>   accepted;     // per source (ints, or delta tokens for a 'd' source)
        std::vector<Outstanding>                blocked;      // sorted by source (stable)
    };

    std::string res_str(int r) { return r == 1 ? "1" : (r == 0 ? "0" : "E"); }

    NodeBuilder int_sink(const TSValueTypeMetaData &input_schema, const TSValueTypeMetaData &input_ts,
                         std::vector<std::string> &into)
    {
        NodeTypeMetaData schema;
        schema.display_name = "hgv_pushn_sink";
        schema.input_schema = &input_schema;
        schema.node_kind    = NodeKind::Sink;
        NodeCallbacks callbacks;
        callbacks.evaluate = [&into](const NodeView &view, DateTime evaluation_time) {
            auto root   = view.input(evaluation_time);
            auto bundle = root.as_bundle();
            auto in     = bundle[0];
            into.push_back(std::to_string(in.value().checked_as<Int>()));
        };
        return NodeBuilder::native(std::move(schema), std::move(callbacks),
                                   hgraph::testing::single_input_endpoint(input_schema, input_ts));
    }

    NodeBuilder tuple_sink(const TSValueTypeMetaData &input_schema, const TSValueTypeMetaData &input_ts,
                           std::vector<std::string> &into)
    {
        NodeTypeMetaData schema;
        schema.display_name = "hgv_pushn_tuple_sink";
        schema.input_schema = &input_schema;
        schema.node_kind    = NodeKind::Sink;
        NodeCallbacks callbacks;
        callbacks.evaluate = [&into](const NodeView &view, DateTime evaluation_time) {
            auto root   = view.input(evaluation_time);
            auto bundle = root.as_bundle();
            auto tuple  = bundle[0].value().as_list();
            std::string s = "[";
            for (std::size_t i = 0; i < tuple.size(); ++i) { s += (i ? "," : "") + std::to_string(tuple[i].checked_as<Int>()); }
            into.push_back(s + "]");
        };
        return NodeBuilder::native(std::move(schema), std::move(callbacks),
                                   hgraph::testing::single_input_endpoint(input_schema, input_ts));
    }

    // sink of a TSD<Int,TS<Int>> source: the full current value of its input, sorted by key
    NodeBuilder dict_sink(const TSValueTypeMetaData &input_schema, const TSValueTypeMetaData &input_ts,
                          std::vector<std::string> &into)
    {
        NodeTypeMetaData schema;
        schema.display_name = "hgv_pushn_dict_sink";
        schema.input_schema = &input_schema;
        schema.node_kind    = NodeKind::Sink;
        NodeCallbacks callbacks;
        callbacks.evaluate = [&into](const NodeView &view, DateTime evaluation_time) {
            auto        root   = view.input(evaluation_time);
            auto        bundle = root.as_bundle();
            const auto  input  = bundle[0];
            const Value copy{input.value()};
            const auto  map = copy.view().as_map();
            std::map<std::int64_t, std::int64_t> snap;
            for (const auto &[key, value] : map) { snap[key.template checked_as<Int>()] = value.template checked_as<Int>(); }
            std::string s = "{";
            bool first = true;
            for (const auto &[k, v] : snap) { s += (first ? "" : ",") + std::to_string(k) + ":" + std::to_string(v); first = false; }
            into.push_back(s + "}");
        };
        return NodeBuilder::native(std::move(schema), std::move(callbacks),
                                   hgraph::testing::single_input_endpoint(input_schema, input_ts));
    }

    bool digits(const std::string &s) { return !s.empty() && s.find_first_not_of("0123456789") == std::string::npos; }

    // "<k>=<v>" | "-<k>" | "e" | comma list of set/remove items
    bool parse_delta(const std::string &tok, std::map<Int, Int> &sets, std::vector<Int> &removes)
    {
        if (tok == "e") { return true; }
        std::size_t at = 0;
        while (at <= tok.size())
        {
            const auto comma = tok.find(',', at);
            const std::string item = tok.substr(at, comma == std::string::npos ? std::string::npos : comma - at);
            if (item.size() > 1 && item[0] == '-' && digits(item.substr(1)) && item.size() < 8) { removes.push_back(Int{to_i(item.substr(1))}); }
            else
            {
                const auto eq = item.find('=');
                if (eq == std::string::npos || !digits(item.substr(0, eq)) || !digits(item.substr(eq + 1)) || item.size() > 16) { return false; }
                sets.insert_or_assign(Int{to_i(item.substr(0, eq))}, Int{to_i(item.substr(eq + 1))});
            }
            if (comma == std::string::npos) { break; }
            at = comma + 1;
        }
        return true;
    }

    // canonical text of a delta (as the model driver prints it): removals ascending, then sets by key, "e" when empty
    std::string canon_payload(char policy, const std::string &tok)
    {
        if (policy != 'd') { return tok; }
        std::map<Int, Int> sets;
        std::vector<Int>   removes;
        (void)parse_delta(tok, sets, removes);
        std::sort(removes.begin(), removes.end());
        removes.erase(std::unique(removes.begin(), removes.end()), removes.end());
        std::string s;
        for (const auto &r : removes) { s += (s.empty() ? "" : ",") + ("-" + std::to_string(r)); }
        for (const auto &[k, v] : sets) { s += (s.empty() ? "" : ",") + (std::to_string(k) + "=" + std::to_string(v)); }
        return s.empty() ? "e" : s;
    }

    Value make_payload(char policy, const std::string &tok)
    {
        if (policy != 'd') { return Value{Int{to_i(tok)}}; }
        std::map<Int, Int> sets;
        std::vector<Int>   removes;
        (void)parse_delta(tok, sets, removes);
        return static_node_detail::build_dict_delta<Int, TS<Int>>(sets, removes);
    }

    std::string run_schedule(const std::vector<SourceCfg> &cfg, const std::vector<std::string> &steps)
    {
        const std::size_t k = cfg.size();
        Run run;
        run.cfg = cfg;
        run.senders.resize(k);
        run.cycle_vals.resize(k);
        run.delivered.resize(k);
        run.accepted.resize(k);
        std::vector<std::string> out;

        const auto *ts_int   = ts_type<TS<Int>>();
        const auto *ts_tuple = ts_type<TS<HomogeneousTuple<Int>>>();
        const auto *ts_dict  = ts_type<TSD<Int, TS<Int>>>();
        auto out_type = [&](std::size_t s) -> const TSValueTypeMetaData * {
            return cfg[s].policy == 'b' ? ts_tuple : (cfg[s].policy == 'd' ? ts_dict : ts_int);
        };

        GraphBuilder gb;
        for (std::size_t s = 0; s < k; ++s)
        {
            const TSValueTypeMetaData *out_ts = out_type(s);
            PushSourcePolicy pol = cfg[s].policy == 'b'   ? make_push_source_burst_policy(*ts_tuple, cfg[s].cap)
                                   : cfg[s].policy == 'c' ? make_push_source_conflating_policy(*ts_int)
                                   : cfg[s].policy == 'd' ? make_push_source_conflating_policy(*ts_dict)
                                                          : make_push_source_queue_policy(*ts_int, cfg[s].cap);
            gb.add_node(make_push_source_node(*out_ts, pol, [&run, s](PushSourceSender sender) { run.senders[s] = std::move(sender); }));
        }
        for (std::size_t s = 0; s < k; ++s)
        {
            const TSValueTypeMetaData *out_ts = out_type(s);
            const auto *input_schema = hgraph::testing::single_input_schema(*out_ts);
            gb.add_node(cfg[s].policy == 'b'   ? tuple_sink(*input_schema, *out_ts, run.cycle_vals[s])
                        : cfg[s].policy == 'd' ? dict_sink(*input_schema, *out_ts, run.cycle_vals[s])
                                               : int_sink(*input_schema, *out_ts, run.cycle_vals[s]));
            gb.add_edge(GraphEdge{.source_node = make_graph_edge_source(s), .source_path = {}, .target_node = k + s, .target_path = {0}});
        }

        GraphExecutorBuilder eb;
        eb.graph_builder(std::move(gb)).mode(GraphExecutorMode::RealTime).start_time(dt(1000)).end_time(dt(100000000));
        GraphExecutorValue executor = eb.make_executor();
        GraphExecutorView  view     = executor.view();
        GraphView          graph    = view.graph();

        auto pending = [&](std::size_t s) -> std::size_t {
            if (!run.started || run.stopped) { return 0; }
            auto m = graph.node_at(s).inspection_metrics().pending_items;
            return m.has_value() ? *m : 0;
        };
        auto flag = [&]() { return view.push_queue_engine().is_push_update_pending(); };
        auto full_now = [&](std::size_t s) { return run.cfg[s].policy != 'c' && run.cfg[s].policy != 'd' && run.cfg[s].cap != 0 && pending(s) >= run.cfg[s].cap; };
        auto blocked_on = [&](std::size_t s) {
            std::size_t n = 0;
            for (const auto &o : run.blocked) { n += o.source == s ? 1 : 0; }
            return n;
        };
        auto is_ready = [](Outstanding &o) { return o.result.wait_for(std::chrono::seconds{0}) == std::future_status::ready; };

        // Completions of parked senders.  expect[s] = how many senders parked on source s the last
        // step must have released (a cycle that popped from s frees room and notifies; the graph stop
        // wakes every waiter): those are awaited (a sender that does not come back within 2 s is
        // reported as "+stuck"); any other sender that has already returned is collected too.
        // Completions are printed in the order of the parked list (by source, then parking order).
        auto settle = [&](std::string &line, std::vector<std::size_t> expect) {
            if (run.blocked.empty()) { return; }
            bool any = false;
            for (auto e : expect) { any = any || e > 0; }
            const auto deadline = std::chrono::steady_clock::now() + (any ? std::chrono::seconds{2} : std::chrono::milliseconds{0});
            std::vector<std::size_t> ready(k, 0);
            for (;;)
            {
                std::fill(ready.begin(), ready.end(), 0);
                for (auto &o : run.blocked) { if (is_ready(o)) { ++ready[o.source]; } }
                bool satisfied = true;
                for (std::size_t s = 0; s < k; ++s) { satisfied = satisfied && ready[s] >= expect[s]; }
                if (satisfied || std::chrono::steady_clock::now() >= deadline) { break; }
                std::this_thread::sleep_for(std::chrono::microseconds{100});
            }
            for (std::size_t i = 0; i < run.blocked.size();)
            {
                if (!is_ready(run.blocked[i])) { ++i; continue; }
                Outstanding o = std::move(run.blocked[i]);
                run.blocked.erase(run.blocked.begin() + static_cast<std::ptrdiff_t>(i));
                const int r = o.result.get();
                o.thread.join();
                if (r == 1) { run.accepted[o.source].push_back(canon_payload(run.cfg[o.source].policy, o.value)); }
                line += " +b" + std::to_string(o.source) + "." + std::to_string(o.producer) + ":" + o.value + "=" + res_str(r);
            }
            for (std::size_t s = 0; s < k; ++s) { if (ready[s] < expect[s]) { line += " +stuck"; } }
        };
        const std::vector<std::size_t> none(k, 0);

        auto can_cycle = [&] { return run.started && !run.stopped && !run.rstop; };

        // one evaluation cycle; returns its text and fills `expect` with the releases it owes
        auto cycle = [&](std::vector<std::size_t> &expect) {
            run.time += 1;
            for (auto &v : run.cycle_vals) { v.clear(); }
            graph.evaluate(dt(run.time));
            std::string line = "c" + std::to_string(run.time) + ":";
            for (std::size_t s = 0; s < k; ++s)
            {
                const std::vector<std::string> vals = run.cycle_vals[s];
                line += s ? "/" : "";
                if (vals.empty()) { line += "-"; }
                for (std::size_t i = 0; i < vals.size(); ++i)
                {
                    line += (i ? "," : "") + vals[i];
                    run.delivered[s].push_back(std::to_string(run.time) + ":" + vals[i]);
                }
                // a pop made room: queue policy one slot, burst the whole capacity
                expect[s] = vals.empty() ? 0 : std::min(blocked_on(s), run.cfg[s].policy == 'b' ? run.cfg[s].cap : std::size_t{1});
            }
            return line;
        };

        auto status = [&] {
            std::string p = " p";
            for (std::size_t s = 0; s < k; ++s) { p += (s ? "," : "") + std::to_string(pending(s)); }
            return p + " f" + (flag() ? "1" : "0");
        };

        for (const std::string &st : steps)
        {
            std::vector<std::size_t> expect(k, 0);
            std::string line = st;
            if (st == "S")
            {
                if (run.started) { line += "=-"; }
                else { graph.start(dt(run.time)); run.started = true; }
            }
            else if (st == "c")
            {
                if (!can_cycle()) { line += ":-"; }
                else { line = cycle(expect); }
            }
            else if (st == "L")
            {
                if (!can_cycle()) { line += ":-"; }
                else
                {
                    std::vector<std::string> cycles;
                    while (cycles.size() < 40 && flag() && can_cycle())
                    {
                        std::vector<std::size_t> e(k, 0);
                        std::string c = cycle(e);
                        settle(c, e);
                        c.erase(std::remove(c.begin(), c.end(), ' '), c.end());     // the L token holds no blanks
                        cycles.push_back(c);
                    }
                    line = "L" + std::to_string(cycles.size()) + "[";
                    for (std::size_t i = 0; i < cycles.size(); ++i) { line += (i ? ";" : "") + cycles[i]; }
                    line += "]";
                }
            }
            else if (st == "r") { view.request_stop(); run.rstop = true; }
            else if (st == "X")
            {
                if (!run.started || run.stopped) { line += "=-"; }
                else
                {
                    graph.stop(dt(run.time));
                    run.stopped = true;
                    for (std::size_t s = 0; s < k; ++s) { expect[s] = blocked_on(s); }
                }
            }
            else
            {
                // t<s>.<i>:<v> / b<s>.<i>:<v>   (validated by main)
                const auto   dot      = st.find('.');
                const auto   c        = st.find(':');
                const auto   source   = static_cast<std::size_t>(to_i(st.substr(1, dot - 1)));
                const int    producer = static_cast<int>(to_i(st.substr(dot + 1, c - dot - 1)));
                const std::string value = st.substr(c + 1);
                const bool   blocking = st[0] == 'b';
                bool busy = false;
                for (const auto &o : run.blocked) { busy = busy || (o.source == source && o.producer == producer); }
                if (busy) { line += "=busy"; }
                else
                {
                    // does the real state predict that this call parks in capacity_available.wait?
                    const bool expect_block = blocking && can_cycle() && full_now(source);
                    std::promise<int> promise;
                    Outstanding o{source, producer, value, promise.get_future(), {}};
                    PushSourceSender sender = run.senders[source];
                    auto running = std::make_shared<std::atomic<bool>>(false);
                    const char policy = run.cfg[source].policy;
                    o.thread = std::thread([sender, value, policy, blocking, running, p = std::move(promise)]() mutable {
                        running->store(true, std::memory_order_release);
                        try
                        {
                            Value payload = make_payload(policy, value);
                            p.set_value((blocking ? sender.send_blocking(std::move(payload)) : sender.try_send(std::move(payload))) ? 1 : 0);
                        }
                        catch (...) { p.set_value(-1); }
                    });
                    // the 30 ms that tell "parked" from "returned" start once the thread is really running
                    while (!running->load(std::memory_order_acquire)) { std::this_thread::yield(); }
                    const auto wait = expect_block ? std::chrono::milliseconds{30} : std::chrono::milliseconds{10000};
                    if (o.result.wait_for(wait) == std::future_status::ready)
                    {
                        const int r = o.result.get();
                        o.thread.join();
                        if (r == 1) { run.accepted[source].push_back(canon_payload(policy, value)); }
                        line += "=" + res_str(r);
                    }
                    else
                    {
                        line += "=B";
                        auto pos = std::find_if(run.blocked.begin(), run.blocked.end(), [&](const Outstanding &x) { return x.source > source; });
                        run.blocked.insert(pos, std::move(o));
                    }
                }
            }
            settle(line, expect);
            line += status();
            out.push_back(line);
        }
        // release whatever is still parked so the threads can be joined
        std::vector<std::size_t> expect(k, 0);
        if (run.started && !run.stopped)
        {
            graph.stop(dt(run.time));
            run.stopped = true;
        }
        for (std::size_t s = 0; s < k; ++s) { expect[s] = blocked_on(s); }
        std::string tail;
        settle(tail, expect);
        for (auto &o : run.blocked) { if (o.thread.joinable()) { o.thread.detach(); } }
        for (auto &s : run.senders) { s = PushSourceSender{}; }

        std::string result;
        for (std::size_t i = 0; i < out.size(); ++i) { result += (i ? " | " : "") + out[i]; }
        result += " | end" + tail + " accepted=";
        for (std::size_t s = 0; s < k; ++s)
        {
            result += s ? "/[" : "[";
            for (std::size_t i = 0; i < run.accepted[s].size(); ++i) { result += (i ? (run.cfg[s].policy == 'd' ? ";" : ",") : "") + run.accepted[s][i]; }
            result += "]";
        }
        result += " delivered=";
        for (std::size_t s = 0; s < k; ++s)
        {
            result += s ? "/[" : "[";
            for (std::size_t i = 0; i < run.delivered[s].size(); ++i) { result += (i ? " " : "") + run.delivered[s][i]; }
            result += "]";
        }
        return result;
    }

    // ------------------------------------------------------------------ real threads (monitor-only stream)
    // The REAL real-time executor runs on its own thread (production clock, mutexes and condition
    // variables), one real producer thread per source hammers that source's sender.  Queue policy
    // on every source.  The interleaving is whatever the OS picks; the output holds only the
    // verdict-level facts the monitor needs, per source.
    std::string run_stress(int messages, int mode, const std::vector<std::size_t> &caps)
    {
        const std::size_t k = caps.size();
        const auto *ts_int       = ts_type<TS<Int>>();
        const auto *input_schema = hgraph::testing::single_input_schema(*ts_int);
        std::mutex                                                       mu;
        std::vector<std::vector<std::pair<std::int64_t, std::int64_t>>>  delivered(k);   // per source (evaluation time, value)
        std::vector<PushSourceSender>                                    senders(k);
        std::atomic<std::size_t>                                         have_senders{0};

        GraphBuilder gb;
        for (std::size_t s = 0; s < k; ++s)
        {
            gb.add_node(make_push_source_node(*ts_int, make_push_source_queue_policy(*ts_int, caps[s]), [&, s](PushSourceSender sender) {
                senders[s] = std::move(sender);
                have_senders.fetch_add(1, std::memory_order_release);
            }));
        }
        for (std::size_t s = 0; s < k; ++s)
        {
            NodeTypeMetaData schema;
            schema.display_name = "hgv_pushn_stress_sink";
            schema.input_schema = input_schema;
            schema.node_kind    = NodeKind::Sink;
            NodeCallbacks callbacks;
            callbacks.evaluate = [&, s](const NodeView &view, DateTime evaluation_time) {
                auto root   = view.input(evaluation_time);
                auto bundle = root.as_bundle();
                auto in     = bundle[0];
                std::lock_guard lock{mu};
                delivered[s].emplace_back(us(evaluation_time), in.value().checked_as<Int>());
            };
            gb.add_node(NodeBuilder::native(std::move(schema), std::move(callbacks),
                                            hgraph::testing::single_input_endpoint(*input_schema, *ts_int)));
            gb.add_edge(GraphEdge{.source_node = make_graph_edge_source(s), .source_path = {}, .target_node = k + s, .target_path = {0}});
        }

        const DateTime start = hgraph::testing::wall_now();
        GraphExecutorBuilder eb;
        eb.graph_builder(std::move(gb)).mode(GraphExecutorMode::RealTime).start_time(start).end_time(start + TimeDelta{300'000'000});
        GraphExecutorValue executor = eb.make_executor();
        GraphExecutorView  view     = executor.view();
        std::string        run_error;
        std::thread        runner([&] {
            try { view.run(); }
            catch (const std::exception &e) { run_error = e.what(); }
        });
        const auto t0 = std::chrono::steady_clock::now();
        while (have_senders.load(std::memory_order_acquire) < k && std::chrono::steady_clock::now() - t0 < std::chrono::seconds{60})
        {
            std::this_thread::sleep_for(std::chrono::microseconds{100});
        }
        std::atomic<std::int64_t>               refused{0}, failed{0};
        std::atomic<bool>                       give_up{false};
        std::vector<std::atomic<std::int64_t>>  sent(k);
        std::vector<std::size_t>                max_pending(k, 0);
        std::vector<std::thread>                threads;
        if (have_senders.load() == k)
        {
            for (std::size_t s = 0; s < k; ++s)
            {
                threads.emplace_back([&, s] {
                    PushSourceSender mine = senders[s];
                    for (int n = 0; n < messages; ++n)
                    {
                        const std::int64_t value = n;
                        const bool blocking = mode == 0 || (mode == 2 && (static_cast<int>(s) + n) % 2 == 0);
                        if (blocking)
                        {
                            if (!mine.send_blocking(Int{value})) { if (!give_up.load()) { ++failed; } return; }
                        }
                        else
                        {
                            bool ok = false;
                            while (!(ok = mine.try_send(Int{value})))
                            {
                                ++refused;
                                if (give_up.load()) { break; }
                                std::this_thread::yield();
                            }
                            if (!ok) { return; }
                        }
                        ++sent[s];
                    }
                });
            }
        }
        bool timeout = false;
        const auto t1 = std::chrono::steady_clock::now();
        for (;;)
        {
            for (std::size_t s = 0; s < k; ++s)
            {
                auto m = view.graph().node_at(s).inspection_metrics().pending_items;
                if (m.has_value()) { max_pending[s] = std::max(max_pending[s], *m); }
            }
            bool done = true;
            {
                std::lock_guard lock{mu};
                for (std::size_t s = 0; s < k; ++s) { done = done && delivered[s].size() >= static_cast<std::size_t>(messages); }
            }
            if (done || failed.load() > 0) { break; }
            if (std::chrono::steady_clock::now() - t1 > std::chrono::seconds{6}) { timeout = true; break; }
            std::this_thread::sleep_for(std::chrono::microseconds{50});
        }
        give_up.store(true);
        if (timeout) { view.request_stop(); }      // releases parked senders through the graph stop
        for (auto &t : threads) { t.join(); }
        view.request_stop();
        runner.join();

        // verdict-level facts
        std::lock_guard lock{mu};
        std::size_t dup = 0, order_bad = 0, time_bad = 0;
        std::string sent_s, del_s, pend_s, caps_s;
        for (std::size_t s = 0; s < k; ++s)
        {
            std::int64_t last = -1;
            std::map<std::int64_t, int> seen;
            for (std::size_t i = 0; i < delivered[s].size(); ++i)
            {
                const auto [t, v] = delivered[s][i];
                if (seen[v]++ > 0) { ++dup; }
                if (v != last + 1) { ++order_bad; }
                last = v;
                if (i > 0 && t <= delivered[s][i - 1].first) { ++time_bad; }
            }
            sent_s += (s ? "/" : "") + std::to_string(sent[s].load());
            del_s += (s ? "/" : "") + std::to_string(delivered[s].size());
            pend_s += (s ? "/" : "") + std::to_string(max_pending[s]);
            caps_s += (s ? "/" : "") + std::to_string(caps[s]);
        }
        return "stressn sent=" + sent_s + " delivered=" + del_s + " failed=" + std::to_string(failed.load()) +
               " dup=" + std::to_string(dup) + " order_bad=" + std::to_string(order_bad) + " time_bad=" + std::to_string(time_bad) +
               " maxpend=" + pend_s + " caps=" + caps_s + " messages=" + std::to_string(messages) +
               " refused=" + std::string(refused.load() > 0 ? "some" : "none") + " timeout=" + (timeout ? "1" : "0") +
               (run_error.empty() ? "" : " run_error=" + run_error);
    }

    std::string run_tryonly(int producers, int sends, char policy, bool poller)
    {
        const auto *ts_int   = ts_type<TS<Int>>();
        const auto *ts_tuple = ts_type<TS<HomogeneousTuple<Int>>>();
        const TSValueTypeMetaData *out_ts = policy == 'b' ? ts_tuple : ts_int;
        const auto *input_schema = hgraph::testing::single_input_schema(*out_ts);
        std::atomic<std::int64_t> delivered{0};
        std::atomic<bool>         have_sender{false};
        PushSourceSender          sender;

        NodeTypeMetaData schema;
        schema.display_name = "hgv_pushn_tryonly_sink";
        schema.input_schema = input_schema;
        schema.node_kind    = NodeKind::Sink;
        NodeCallbacks callbacks;
        callbacks.evaluate = [&delivered, policy](const NodeView &view, DateTime evaluation_time) {
            auto root   = view.input(evaluation_time);
            auto bundle = root.as_bundle();
            if (policy == 'b') { delivered += static_cast<std::int64_t>(bundle[0].value().as_list().size()); }
            else { (void)bundle[0].value().checked_as<Int>(); ++delivered; }
        };
        GraphBuilder gb;
        PushSourcePolicy pol = policy == 'b' ? make_push_source_burst_policy(*ts_tuple, 1000000)
                                             : make_push_source_queue_policy(*ts_int, 0);
        gb.add_node(make_push_source_node(*out_ts, pol, [&](PushSourceSender s) {
            sender = std::move(s);
            have_sender.store(true, std::memory_order_release);
        }));
        gb.add_node(NodeBuilder::native(std::move(schema), std::move(callbacks),
                                        hgraph::testing::single_input_endpoint(*input_schema, *out_ts)));
        gb.add_edge(GraphEdge{.source_node = make_graph_edge_source(0), .source_path = {}, .target_node = 1, .target_path = {0}});

        const DateTime start = hgraph::testing::wall_now();
        GraphExecutorBuilder eb;
        eb.graph_builder(std::move(gb)).mode(GraphExecutorMode::RealTime).start_time(start).end_time(start + TimeDelta{300'000'000});
        GraphExecutorValue executor = eb.make_executor();
        GraphExecutorView  view     = executor.view();
        std::string        run_error;
        std::thread        runner([&] {
            try { view.run(); }
            catch (const std::exception &e) { run_error = e.what(); }
        });
        const auto t0 = std::chrono::steady_clock::now();
        while (!have_sender.load(std::memory_order_acquire) && std::chrono::steady_clock::now() - t0 < std::chrono::seconds{60})
        {
            std::this_thread::sleep_for(std::chrono::microseconds{100});
        }
        std::vector<std::int64_t> accepted(static_cast<std::size_t>(producers), 0), refused(static_cast<std::size_t>(producers), 0);
        std::atomic<int>          go{0};
        std::atomic<bool>         producers_done{false}, stop_before_done{false};
        std::vector<std::thread>  threads;
        std::thread               poll;
        if (have_sender.load())
        {
            for (int p = 0; p < producers; ++p)
            {
                threads.emplace_back([&, p] {
                    PushSourceSender mine = sender;
                    ++go;
                    while (go.load() < producers) { std::this_thread::yield(); }     // start together
                    for (int n = 0; n < sends; ++n)
                    {
                        if (mine.try_send(Int{static_cast<std::int64_t>(p) * 1'000'000 + n})) { ++accepted[static_cast<std::size_t>(p)]; }
                        else { ++refused[static_cast<std::size_t>(p)]; }
                    }
                });
            }
            if (poller)
            {
                poll = std::thread([&] {
                    std::size_t sink = 0;
                    while (!producers_done.load(std::memory_order_acquire))
                    {
                        sink += view.graph().node_at(0).inspection_metrics().pending_items.value_or(0);
                    }
                    (void)sink;
                });
            }
        }
        for (auto &th : threads) { th.join(); }
        stop_before_done = view.stop_requested();
        producers_done.store(true, std::memory_order_release);
        if (poll.joinable()) { poll.join(); }
        std::int64_t total_accepted = 0;
        for (auto a : accepted) { total_accepted += a; }
        bool timeout = false;
        const auto t1 = std::chrono::steady_clock::now();
        while (delivered.load() < total_accepted)
        {
            if (std::chrono::steady_clock::now() - t1 > std::chrono::seconds{20}) { timeout = true; break; }
            std::this_thread::sleep_for(std::chrono::microseconds{200});
        }
        view.request_stop();
        runner.join();
        auto join = [](const std::vector<std::int64_t> &v) {
            std::string s;
            for (std::size_t i = 0; i < v.size(); ++i) { s += (i ? "/" : "") + std::to_string(v[i]); }
            return s;
        };
        std::vector<std::int64_t> sent(static_cast<std::size_t>(producers), have_sender.load() ? sends : 0);
        return std::string("tryonly policy=") + policy + " producers=" + std::to_string(producers) + " poller=" + (poller ? "1" : "0") +
               " sends=" + join(sent) + " accepted=" + join(accepted) + " refused=" + join(refused) +
               " delivered=" + std::to_string(delivered.load()) + " stop_before_done=" + (stop_before_done.load() ? "1" : "0") +
               " timeout=" + (timeout ? "1" : "0") + (run_error.empty() ? "" : " run_error=" + run_error);
    }

    bool valid_step(const std::string &s, const std::vector<SourceCfg> &cfg)
    {
        const std::size_t k = cfg.size();
        if (s == "S" || s == "c" || s == "L" || s == "r" || s == "X") { return true; }
        if (s.empty() || (s[0] != 't' && s[0] != 'b')) { return false; }
        const auto dot = s.find('.');
        const auto c   = s.find(':');
        if (dot == std::string::npos || c == std::string::npos || dot > c) { return false; }
        const std::string src = s.substr(1, dot - 1), prod = s.substr(dot + 1, c - dot - 1), val = s.substr(c + 1);
        if (!digits(src) || !digits(prod) || src.size() > 6) { return false; }
        if (static_cast<std::size_t>(to_i(src)) >= k) { return false; }
        if (cfg[static_cast<std::size_t>(to_i(src))].policy == 'd')
        {
            std::map<Int, Int> sets;
            std::vector<Int>   removes;
            return !val.empty() && parse_delta(val, sets, removes);
        }
        return digits(val);
    }
}  // namespace

int main()
{
    std::ios::sync_with_stdio(false);
    std::string line;
    std::vector<SourceCfg> cfg{SourceCfg{}};
    while (std::getline(std::cin, line))
    {
        auto w = split(line);
        try
        {
            if (w.empty()) { std::cout << "\n"; continue; }
            if (w[0] == "case" && w.size() == 2) { cfg = {SourceCfg{}}; std::cout << line << "\n"; }
            else if (w[0] == "cfgn")
            {
                std::vector<SourceCfg> c;
                bool ok = (w.size() == 3 || w.size() == 5 || w.size() == 7);
                for (std::size_t i = 1; ok && i + 1 < w.size(); i += 2)
                {
                    ok = digits(w[i]) && (w[i + 1] == "q" || w[i + 1] == "b" || w[i + 1] == "c" || w[i + 1] == "d");
                    if (ok) { c.push_back(SourceCfg{static_cast<std::size_t>(to_i(w[i])), w[i + 1][0]}); }
                }
                if (!ok) { std::cout << "bad-op\n"; continue; }
                cfg = c;
                std::cout << "ok\n";
            }
            else if (w[0] == "stressn" && (w.size() == 5 || w.size() == 6))
            {
                std::vector<std::size_t> caps;
                for (std::size_t i = 3; i < w.size(); ++i) { caps.push_back(static_cast<std::size_t>(to_i(w[i]))); }
                std::cout << run_stress(static_cast<int>(to_i(w[1])), static_cast<int>(to_i(w[2])), caps) << "\n";
            }
            else if (w[0] == "tryonly" && w.size() == 5 && digits(w[1]) && digits(w[2]) && (w[3] == "q" || w[3] == "b") &&
                     (w[4] == "0" || w[4] == "1") && to_i(w[1]) >= 1 && to_i(w[1]) <= 8 && to_i(w[2]) <= 1000000)
            {
                std::cout << run_tryonly(static_cast<int>(to_i(w[1])), static_cast<int>(to_i(w[2])), w[3][0], w[4] == "1") << "\n";
            }
            else if (w[0] == "sched")
            {
                std::vector<std::string> steps(w.begin() + 1, w.end());
                bool ok = true;
                for (const auto &s : steps) { ok = ok && valid_step(s, cfg); }
                if (!ok) { std::cout << "bad-op\n"; continue; }
                std::cout << run_schedule(cfg, steps) << "\n";
            }
            else { std::cout << "bad-op\n"; }
        }
        catch (const std::exception &e) { std::cout << "err:" << e.what() << "\n"; }
    }
    return 0;
}
