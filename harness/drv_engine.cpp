// hgv_engine: the generic graph interpreter.  Builds a graph from a textual program over a
// fixed vocabulary of harness nodes (all ports TS<Int>), runs it in simulation with a
// LifecycleObserver, and prints a canonical trace.  See DESIGN.md 3.4.
//
// Program lines (one output line per input line):
//   case <n>
//   cfg <start> <end> [cleanup=0|1]
//   ticks <id> <t>:<v> ...                scripted emissions of source <id>
//   script <id> <ops> ; <ops> ; ...       per-evaluation scheduler ops of script node <id>
//        ops: s<d>[:tag]  schedule(delta d)   S<t>[:tag] schedule(abs t)   u:tag un_schedule(tag)
//             U un_schedule()   p:tag pop_tag   r reset   o<v> emit value v   -  nothing
//        (evaluation 0 is the start hook)
//   faults <id> <phase><k> ...            thrower <id> throws on the k-th call of phase (s,e,x)
//   sub <sid> <arity>                     begin sub-graph definition (nodes until endsub)
//   endsub <out-label|->
//   node <lbl> <kind> <args...>           kinds: src id | const v | add a b | acc a | pass a |
//        gate a b <pa><pb><va><vb> | script id [a] | sink a | thrower id a | probe a |
//        nested sid a.. | tryx sid a.. | errts a | tryout a | tryerr a | fbsrc fid [init] | fbbind fid a
//   run                                   -> the trace
#include "hgv_common.h"

#include <hgraph/lib/std/std_operators.h>
#include <hgraph/lib/std/operators/control.h>
#include <hgraph/lib/testing/runtime_support.h>
#include <hgraph/runtime/runtime.h>
#include <hgraph/runtime/node_error.h>
#include <hgraph/types/graph_wiring.h>
#include <hgraph/types/static_node.h>
#include <hgraph/types/subgraph_wiring.h>

#include <array>
#include <cstdlib>
#include <span>
#include <typeindex>
#include <map>
#include <memory>
#include <optional>
#include <set>
#include <stdexcept>
#include <thread>

using namespace hgraph;
using namespace hgv;

namespace
{
    // ------------------------------------------------------------------ per-case tables
    struct ScriptOp { char op; std::int64_t n; std::string tag; };
    struct NodeLine { std::int64_t lbl; std::string kind; std::vector<std::string> args; };
    struct SubSpec { int arity{0}; std::vector<NodeLine> nodes; std::string out; };

    std::map<std::int64_t, std::vector<std::pair<std::int64_t, std::int64_t>>> g_ticks;
    std::map<std::int64_t, std::vector<std::vector<ScriptOp>>>                g_scripts;
    std::map<std::int64_t, std::set<std::string>>                             g_faults;
    thread_local std::map<std::int64_t, std::map<char, int>>                  g_fault_calls;   // per run
    std::map<std::int64_t, SubSpec>                                           g_subs;
    thread_local std::vector<std::string>                                    g_log;           // per run
    std::int64_t g_start = 1, g_end = 100;
    bool         g_cleanup = true;

    void logf(std::string s) { g_log.push_back(std::move(s)); }

    const std::vector<std::vector<ScriptOp>> &scripts_of(std::int64_t id)
    {
        static const std::vector<std::vector<ScriptOp>> none;
        auto it = g_scripts.find(id);
        return it == g_scripts.end() ? none : it->second;
    }

    // read-only lookups (the tables are shared by concurrently running graphs: never insert)
    const std::vector<std::pair<std::int64_t, std::int64_t>> &ticks_of(std::int64_t id)
    {
        static const std::vector<std::pair<std::int64_t, std::int64_t>> none;
        auto it = g_ticks.find(id);
        return it == g_ticks.end() ? none : it->second;
    }

    std::string path_of(const GraphView &g);
    std::int64_t k2lbl(int k);
    std::string lbl_of(const NodeView &n)
    {
        std::string base = "?";
        if (n.has_scalars())
        {
            try
            {
                auto b = n.scalars().as_bundle();
                auto f = b.at("lbl");
                if (f.valid()) { base = std::to_string(f.checked_as<Int>()); }
            }
            catch (...) {}
        }
        if (base == "?")
        {
            const std::string l{n.label()};
            if (l.rfind("dyn_sub_", 0) == 0) { base = std::to_string(k2lbl(std::stoi(l.substr(8)))); }
            else if (l.rfind("ng_", 0) == 0) { base = l.substr(3); }
            else { base = "#" + l + ":" + std::to_string(n.node_index()); }
        }
        return path_of(n.graph()) + base;
    }
    std::string path_of(const GraphView &g)
    {
        if (!g.valid() || g.is_root()) { return ""; }
        try { return lbl_of(g.as_nested().parent_node()) + "/"; }
        catch (...) { return "?/"; }
    }

    // ------------------------------------------------------------------ harness nodes
    struct HConst
    {
        static constexpr auto name = "h_const";
        static constexpr bool schedule_on_start = true;
        static void eval(Scalar<"lbl", Int> lbl, Scalar<"v", Int> v, Out<TS<Int>> out) { out.set(v.value()); }
    };

    struct HSrc
    {
        static constexpr auto name = "h_src";
        static void start(Scalar<"lbl", Int> lbl, Scalar<"id", Int> id, NodeScheduler sched, State<Int> k)
        {
            k.set(Int{0});
            const auto &t = ticks_of(id.value());
            if (!t.empty()) { sched.schedule(dt(t[0].first)); }
        }
        static void eval(Scalar<"lbl", Int> lbl, Scalar<"id", Int> id, NodeScheduler sched, State<Int> k, Out<TS<Int>> out)
        {
            const auto &t = ticks_of(id.value());
            auto  i = static_cast<std::size_t>(k.get());
            const std::int64_t now = us(sched.now());
            while (i < t.size() && t[i].first <= now)
            {
                if (t[i].first == now) { out.set(Int{t[i].second}); }
                ++i;
            }
            k.set(static_cast<Int>(i));
            if (i < t.size()) { sched.schedule(dt(t[i].first)); }
        }
    };

    template <typename A>
    std::string in_desc(const A &a)
    {
        std::string s = a.valid() ? "1" : "0";
        s += a.modified() ? "1" : "0";
        s += ",";
        s += a.valid() ? std::to_string(a.value()) : std::string("-");
        return s;
    }

    struct HAdd
    {
        static constexpr auto name = "h_add";
        static void eval(NodeView node, DateTime now, Scalar<"lbl", Int> lbl, In<"a", TS<Int>> a, In<"b", TS<Int>> b, Out<TS<Int>> out)
        {
            logf("E " + lbl_of(node) + " " + std::to_string(us(now)) + " a=" + in_desc(a) + " b=" + in_desc(b));
            out.set(a.value() + b.value());
        }
    };

    struct HAcc
    {
        static constexpr auto name = "h_acc";
        static void start(State<Int> total) { total.set(Int{0}); }
        static void eval(NodeView node, DateTime now, Scalar<"lbl", Int> lbl, In<"a", TS<Int>> a, State<Int> total, Out<TS<Int>> out)
        {
            logf("E " + lbl_of(node) + " " + std::to_string(us(now)) + " a=" + in_desc(a));
            total.set(total.get() + a.value());
            out.set(total.get());
        }
    };

    struct HPass
    {
        static constexpr auto name = "h_pass";
        static void eval(NodeView node, DateTime now, Scalar<"lbl", Int> lbl, In<"a", TS<Int>> a, Out<TS<Int>> out)
        {
            logf("E " + lbl_of(node) + " " + std::to_string(us(now)) + " a=" + in_desc(a));
            out.set(a.value());
        }
    };

    // gate: logs every run of its user code with valid/modified/value of both inputs
    template <InputValidity VA, InputValidity VB>
    struct HGate
    {
        static constexpr auto name = "h_gate";
        static void eval(NodeView node, DateTime now, Scalar<"lbl", Int> lbl, In<"a", TS<Int>, VA> a,
                         In<"b", TS<Int>, VB> b, Out<TS<Int>> out)
        {
            logf("E " + lbl_of(node) + " " + std::to_string(us(now)) + " a=" + in_desc(a) + " b=" + in_desc(b));
            Int v = 0;
            if (a.valid()) { v += a.value(); }
            if (b.valid()) { v += b.value(); }
            out.set(v);
        }
    };

    // gate3: three inputs; besides the per-input validity policy the SIGNATURE may declare one input passive
    // (InputActivity::Passive) - wiring-time passive(...) markers on the other inputs come on top of that
    template <InputValidity VA, InputValidity VB, InputValidity VC, InputActivity AA, InputActivity AB, InputActivity AC>
    struct HGate3
    {
        static constexpr auto name = "h_gate3";
        static void eval(NodeView node, DateTime now, Scalar<"lbl", Int> lbl, In<"a", TS<Int>, VA, AA> a,
                         In<"b", TS<Int>, VB, AB> b, In<"c", TS<Int>, VC, AC> c, Out<TS<Int>> out)
        {
            logf("E " + lbl_of(node) + " " + std::to_string(us(now)) + " a=" + in_desc(a) + " b=" + in_desc(b) +
                 " c=" + in_desc(c));
            Int v = 0;
            if (a.valid()) { v += a.value(); }
            if (b.valid()) { v += b.value(); }
            if (c.valid()) { v += c.value(); }
            out.set(v);
        }
    };

    // ngate: the same node as `gate`, built as a NATIVE node (NodeBuilder::native): its readiness is decided by
    // the generic gate of node.cpp (`ready_to_evaluate` over NodeTypeMetaData::valid_inputs), not by the
    // static front-end's own wrapper.  valid_inputs lists the slots marked V (explicitly EMPTY for "UU").
    template <int Flags>
    struct NGateDef {};

    std::string view_desc(const TSInputView &in)
    {
        std::string s = in.valid() ? "1" : "0";
        s += in.modified() ? "1" : "0";
        s += ",";
        s += in.valid() ? std::to_string(static_cast<long long>(in.value().checked_as<Int>())) : std::string("-");
        return s;
    }

    NodeBuilder native_gate(bool ua, bool ub)
    {
        auto       &registry = TypeRegistry::instance();
        const auto *int_meta = registry.register_scalar<Int>("int");
        const auto *ts_int   = registry.ts(int_meta);
        const auto *input_schema = registry.un_named_tsb({{"a", ts_int}, {"b", ts_int}});

        NodeTypeMetaData schema;
        schema.display_name  = "n_gate";
        schema.input_schema  = input_schema;
        schema.output_schema = ts_int;
        schema.node_kind     = NodeKind::Compute;
        std::vector<std::size_t> valid;
        if (!ua) { valid.push_back(0); }
        if (!ub) { valid.push_back(1); }
        schema.valid_inputs = std::move(valid);

        NodeCallbacks callbacks;
        callbacks.evaluate = [](const NodeView &view, DateTime now) {
            auto root   = view.input(now);
            auto bundle = root.as_bundle();
            auto a = bundle[0];
            auto b = bundle[1];
            logf("E " + lbl_of(view) + " " + std::to_string(us(now)) + " a=" + view_desc(a) + " b=" + view_desc(b));
            Int v = 0;
            if (a.valid()) { v += a.value().checked_as<Int>(); }
            if (b.valid()) { v += b.value().checked_as<Int>(); }
            testing::set_output_value(view, now, Int{v});
        };
        return NodeBuilder::native(std::move(schema), std::move(callbacks),
                                   TSEndpointSchema::non_peered(input_schema, {TSEndpointSchema::peered(ts_int),
                                                                               TSEndpointSchema::peered(ts_int)}));
    }

    Value lbl_scalars(Int value)
    {
        auto       &registry    = TypeRegistry::instance();
        const auto *int_meta    = registry.register_scalar<Int>("int");
        const auto *bundle_meta = registry.un_named_bundle({{std::string{"lbl"}, int_meta}});
        const auto  binding     = ValuePlanFactory::instance().type_for(bundle_meta);
        Value       scalars{binding};
        {
            auto mutation = scalars.as_bundle().begin_mutation();
            mutation["lbl"].checked_mutable_as<Int>() = value;
        }
        return scalars;
    }

    struct HSink
    {
        static constexpr auto name = "h_sink";
        static void eval(NodeView node, DateTime now, Scalar<"lbl", Int> lbl, In<"a", TS<Int>> a)
        {
            logf("T " + lbl_of(node) + " " + std::to_string(us(now)) + " " + std::to_string(a.value()));
        }
    };

    // `k<label>`: wake ANOTHER node of the same graph for the current time (graph.schedule_node from inside an
    // evaluation) - a node ahead of the scan runs in this cycle, a node the scan has passed does not run again
    void kick_node(const NodeView &self, std::int64_t label, DateTime now)
    {
        GraphView g = self.graph();
        const std::string want = path_of(g) + std::to_string(static_cast<long long>(label));
        for (std::size_t i = 0; i < g.node_count(); ++i)
        {
            if (lbl_of(g.node_at(i)) == want)
            {
                self.graph_value()->schedule_node(i, now);
                return;
            }
        }
    }

    void run_script_ops(const std::vector<ScriptOp> &ops, const NodeScheduler &sched, std::optional<Int> &emit,
                        const NodeView *self = nullptr)
    {
        for (const auto &o : ops)
        {
            std::optional<std::string> tag = o.tag.empty() ? std::nullopt : std::optional<std::string>{o.tag};
            switch (o.op)
            {
                case 'k': if (self != nullptr) { kick_node(*self, o.n, sched.now()); } break;
                case 's': sched.schedule(TimeDelta{o.n}, tag); break;
                case 'S': sched.schedule(dt(o.n), tag); break;
                case 'u': sched.un_schedule(o.tag); break;
                case 'U': sched.un_schedule(); break;
                case 'p': (void)sched.pop_tag(o.tag); break;
                case 'r': sched.reset(); break;
                case 'o': emit = Int{o.n}; break;
                case 'x': throw std::runtime_error("boom-eval-script");   // after the preceding ops took effect
                default: break;
            }
        }
    }

    std::string sched_q(const NodeScheduler &s)
    {
        return "q=" + std::to_string(us(s.next_scheduled_time())) + "," + (s.is_scheduled() ? "1" : "0") + "," +
               (s.is_scheduled_now() ? "1" : "0");
    }

    // script node (no input): evaluation k executes script[k]; k = 0 is the start hook
    struct HScript
    {
        static constexpr auto name = "h_script";
        static void start_common(const NodeView &node, Int id, const NodeScheduler &sched, State<Int> &k)
        {
            const auto &sc = scripts_of(id);
            std::optional<Int> emit;
            if (!sc.empty()) { run_script_ops(sc[0], sched, emit); }
            k.set(Int{1});
            logf("B " + lbl_of(node) + " " + std::to_string(us(sched.now())) + " " + sched_q(sched));
        }
        static void start(NodeView node, Scalar<"lbl", Int> lbl, Scalar<"id", Int> id, NodeScheduler sched, State<Int> k)
        {
            start_common(node, id.value(), sched, k);
        }
        static void eval(NodeView node, Scalar<"lbl", Int> lbl, Scalar<"id", Int> id, NodeScheduler sched, State<Int> k,
                         Out<TS<Int>> out)
        {
            const auto &sc = scripts_of(id.value());
            const auto i = static_cast<std::size_t>(k.get());
            const std::string before = sched_q(sched);
            std::optional<Int> emit;
            k.set(static_cast<Int>(i + 1));     // the script step is consumed even if it throws
            try
            {
                if (i < sc.size()) { run_script_ops(sc[i], sched, emit, &node); }
            }
            catch (...)
            {
                logf("E " + lbl_of(node) + " " + std::to_string(us(sched.now())) + " k=" + std::to_string(i) + " " + before + " THROW");
                throw;
            }
            if (emit.has_value()) { out.set(*emit); }
            logf("E " + lbl_of(node) + " " + std::to_string(us(sched.now())) + " k=" + std::to_string(i) + " " + before +
                 " " + sched_q(sched));
        }
    };

    // script node that ALSO declares schedule_on_start: the framework books the start cycle for it after its own
    // start hook ran (node.cpp start_impl) - a start hook that books a later time must not lose the start cycle
    struct HScriptS
    {
        static constexpr auto name              = "h_script_s";
        static constexpr bool schedule_on_start = true;
        static void start(NodeView node, Scalar<"lbl", Int> lbl, Scalar<"id", Int> id, NodeScheduler sched, State<Int> k)
        {
            HScript::start_common(node, id.value(), sched, k);
        }
        static void eval(NodeView node, Scalar<"lbl", Int> lbl, Scalar<"id", Int> id, NodeScheduler sched, State<Int> k,
                         Out<TS<Int>> out)
        {
            HScript::eval(std::move(node), std::move(lbl), std::move(id), std::move(sched), std::move(k), std::move(out));
        }
    };

    // script node with one (active) input
    struct HScriptIn
    {
        static constexpr auto name = "h_script_in";
        static void start(NodeView node, Scalar<"lbl", Int> lbl, Scalar<"id", Int> id, NodeScheduler sched, State<Int> k)
        {
            HScript::start_common(node, id.value(), sched, k);
        }
        static void eval(NodeView node, Scalar<"lbl", Int> lbl, Scalar<"id", Int> id, In<"a", TS<Int>, InputValidity::Unchecked> a,
                         NodeScheduler sched, State<Int> k, Out<TS<Int>> out)
        {
            const auto &sc = scripts_of(id.value());
            const auto i = static_cast<std::size_t>(k.get());
            const std::string before = sched_q(sched);
            std::optional<Int> emit;
            k.set(static_cast<Int>(i + 1));     // the script step is consumed even if it throws
            try
            {
                if (i < sc.size()) { run_script_ops(sc[i], sched, emit, &node); }
            }
            catch (...)
            {
                logf("E " + lbl_of(node) + " " + std::to_string(us(sched.now())) + " k=" + std::to_string(i) + " " + before + " THROW");
                throw;
            }
            if (emit.has_value()) { out.set(*emit); }
            logf("E " + lbl_of(node) + " " + std::to_string(us(sched.now())) + " k=" + std::to_string(i) + " " + before +
                 " " + sched_q(sched) + " a=" + in_desc(a));
        }
    };

    // nscript: a scripted scheduler node built as a NATIVE node with two inputs that are both REQUIRED valid
    // (valid_inputs {0,1}); the second is usually wired passive.  Readiness is decided by node.cpp's generic gate,
    // and the scheduler bookkeeping after the gate (consume the fired event / re-arm the pending one) must happen
    // whether or not user code ran.
    thread_local std::map<std::string, int> g_nk;

    NodeBuilder native_script(Int id)
    {
        auto       &registry = TypeRegistry::instance();
        const auto *int_meta = registry.register_scalar<Int>("int");
        const auto *ts_int   = registry.ts(int_meta);
        const auto *input_schema = registry.un_named_tsb({{"a", ts_int}, {"b", ts_int}});

        NodeTypeMetaData schema;
        schema.display_name   = "n_script";
        schema.input_schema   = input_schema;
        schema.output_schema  = ts_int;
        schema.node_kind      = NodeKind::Compute;
        schema.uses_scheduler = true;
        schema.valid_inputs   = std::vector<std::size_t>{0, 1};

        NodeCallbacks callbacks;
        callbacks.start = [id](const NodeView &view, DateTime now) {
            NodeScheduler sched{view.scheduler_state(), view.graph_value(), view.node_index(), now, false};
            const auto &sc = scripts_of(id);
            std::optional<Int> emit;
            if (!sc.empty()) { run_script_ops(sc[0], sched, emit); }
            g_nk[lbl_of(view)] = 1;
            logf("B " + lbl_of(view) + " " + std::to_string(us(now)) + " " + sched_q(sched));
        };
        callbacks.evaluate = [id](const NodeView &view, DateTime now) {
            NodeScheduler sched{view.scheduler_state(), view.graph_value(), view.node_index(), now};
            auto root   = view.input(now);
            auto bundle = root.as_bundle();
            auto a = bundle[0];
            auto b = bundle[1];
            const auto &sc = scripts_of(id);
            const std::string me = lbl_of(view);
            const auto i = static_cast<std::size_t>(g_nk[me]);
            const std::string before = sched_q(sched);
            std::optional<Int> emit;
            g_nk[me] = static_cast<int>(i + 1);
            try
            {
                if (i < sc.size()) { run_script_ops(sc[i], sched, emit, &view); }
            }
            catch (...)
            {
                logf("E " + me + " " + std::to_string(us(now)) + " k=" + std::to_string(i) + " " + before + " THROW");
                throw;
            }
            if (emit.has_value()) { testing::set_output_value(view, now, Int{*emit}); }
            logf("E " + me + " " + std::to_string(us(now)) + " k=" + std::to_string(i) + " " + before + " " + sched_q(sched) +
                 " a=" + view_desc(a) + " b=" + view_desc(b));
        };
        return NodeBuilder::native(std::move(schema), std::move(callbacks),
                                   TSEndpointSchema::non_peered(input_schema, {TSEndpointSchema::peered(ts_int),
                                                                               TSEndpointSchema::peered(ts_int)}));
    }

    bool fault_due(std::int64_t id, char phase)
    {
        int &n = g_fault_calls[id][phase];
        ++n;
        auto it = g_faults.find(id);
        return it != g_faults.end() && it->second.count(std::string(1, phase) + std::to_string(n)) > 0;
    }

    // thrower: passes its input through (+1000), throws at scripted (phase, occurrence) points
    struct HThrower
    {
        static constexpr auto name = "h_thrower";
        static void start(NodeView node, DateTime now, Scalar<"lbl", Int> lbl, Scalar<"id", Int> id)
        {
            logf("s " + lbl_of(node) + " " + std::to_string(us(now)));
            if (fault_due(id.value(), 's')) { throw std::runtime_error("boom-start-" + std::to_string(lbl.value())); }
        }
        static void eval(NodeView node, DateTime now, Scalar<"lbl", Int> lbl, Scalar<"id", Int> id, In<"a", TS<Int>> a,
                         Out<TS<Int>> out)
        {
            logf("E " + lbl_of(node) + " " + std::to_string(us(now)) + " a=" + in_desc(a));
            if (fault_due(id.value(), 'e')) { throw std::runtime_error("boom-eval-" + std::to_string(lbl.value())); }
            out.set(a.value() + 1000);
        }
        static void stop(NodeView node, DateTime now, Scalar<"lbl", Int> lbl, Scalar<"id", Int> id)
        {
            logf("x " + lbl_of(node) + " " + std::to_string(us(now)));
            if (fault_due(id.value(), 'x')) { throw std::runtime_error("boom-stop-" + std::to_string(lbl.value())); }
        }
    };

    // probe: wakes itself every smallest step and logs its PASSIVE input's flags
    struct HProbe
    {
        static constexpr auto name = "h_probe";
        static void start(NodeScheduler sched) { sched.schedule(sched.now()); }
        static void eval(NodeView node, Scalar<"lbl", Int> lbl, In<"a", TS<Int>, InputValidity::Unchecked, InputActivity::Passive> a,
                         NodeScheduler sched)
        {
            logf("P " + lbl_of(node) + " " + std::to_string(us(sched.now())) + " a=" + in_desc(a) + " lmt=" +
                 std::to_string(us(a.last_modified_time())));
            if (us(sched.now()) + 1 < g_end) { sched.schedule(MIN_TD); }
        }
    };

    using TryIntResult = UnNamedTSB<Field<"exception", TS<NodeError>>, Field<"out", TS<Int>>>;

    struct HTryOut
    {
        static constexpr auto name = "h_try_out";
        static void eval(Scalar<"lbl", Int> lbl, In<"r", TryIntResult, InputValidity::Unchecked> r, Out<TS<Int>> out)
        {
            auto f = r.template field<"out">();
            if (f.valid() && f.modified()) { out.set(f.value()); }
        }
    };

    struct HTryErr
    {
        static constexpr auto name = "h_try_err";
        static void eval(NodeView node, DateTime now, Scalar<"lbl", Int> lbl, In<"r", TryIntResult, InputValidity::Unchecked> r,
                         Out<TS<Int>> out)
        {
            auto f = r.template field<"exception">();
            if (f.valid() && f.modified())
            {
                const auto msg = f.base().value().as_bundle().at("error_msg").checked_as<Str>();
                logf("X " + lbl_of(node) + " " + std::to_string(us(now)) + " " + std::string(msg));
                out.set(Int{1});
            }
        }
    };

    struct HErrMsg
    {
        static constexpr auto name = "h_err_msg";
        static void eval(NodeView node, DateTime now, Scalar<"lbl", Int> lbl, In<"e", TS<NodeError>> e, Out<TS<Int>> out)
        {
            const auto msg = e.base().value().as_bundle().at("error_msg").checked_as<Str>();
            logf("X " + lbl_of(node) + " " + std::to_string(us(now)) + " " + std::string(msg));
            out.set(Int{1});
        }
    };

    // errtsv: like errts with explicit capture options; additionally logs whether the activation back trace
    // carries captured input values (v=1) - the part of a NodeError that depends on ErrorCaptureOptions
    struct HErrMsgV
    {
        static constexpr auto name = "h_err_msg_v";
        static void eval(NodeView node, DateTime now, Scalar<"lbl", Int> lbl, In<"e", TS<NodeError>> e, Out<TS<Int>> out)
        {
            const auto b   = e.base().value().as_bundle();
            const auto msg = b.at("error_msg").checked_as<Str>();
            const std::string bt{b.at("activation_back_trace").checked_as<Str>()};
            logf("X " + lbl_of(node) + " " + std::to_string(us(now)) + " " + std::string(msg) + " v=" +
                 (bt.find("value=") != std::string::npos ? "1" : "0") + (std::getenv("HGV_BT") ? " bt=<" + bt + ">" : ""));
            out.set(Int{1});
        }
    };

    // ------------------------------------------------------------------ interpreter
    using P = Port<TS<Int>>;
    struct Env
    {
        std::map<std::string, P>                      ports;      // label -> output port
        std::map<std::string, Port<void>>             tries;      // label -> try_except result
        std::map<std::int64_t, std::shared_ptr<void>> fbs;        // feedback handles
    };

    P interp_nodes(Wiring &w, const std::vector<NodeLine> &nodes, Env &env, const std::string &out);

    // Sub-graph call sites: DynSub<Arity, K>.  K only gives each call site of a program its own
    // display name ("dyn_sub_K"), which is how the observer maps a nested node back to its label
    // (nested nodes carry no runtime scalars).
    constexpr int MAX_K = 6;
    constexpr const char *DYN_NAMES[MAX_K] = {"dyn_sub_0", "dyn_sub_1", "dyn_sub_2", "dyn_sub_3", "dyn_sub_4", "dyn_sub_5"};
    thread_local std::map<int, std::int64_t> g_k2lbl;
    thread_local int                         g_next_k = 0;

    P interp_sub(Wiring &w, Int spec, std::vector<P> args)
    {
        Env env;
        for (std::size_t i = 0; i < args.size(); ++i) { env.ports.emplace("$" + std::to_string(i), args[i]); }
        const SubSpec &s = g_subs.at(spec);
        return interp_nodes(w, s.nodes, env, s.out);
    }

    template <int Arity, int K> struct DynSub;
    template <int K>
    struct DynSub<0, K>
    {
        static constexpr const char *name = DYN_NAMES[K];
        static P compose(Wiring &w, Scalar<"lbl", Int> lbl, Scalar<"spec", Int> spec) { return interp_sub(w, spec.value(), {}); }
    };
    template <int K>
    struct DynSub<1, K>
    {
        static constexpr const char *name = DYN_NAMES[K];
        static P compose(Wiring &w, P a, Scalar<"lbl", Int> lbl, Scalar<"spec", Int> spec) { return interp_sub(w, spec.value(), {a}); }
    };
    template <int K>
    struct DynSub<2, K>
    {
        static constexpr const char *name = DYN_NAMES[K];
        static P compose(Wiring &w, P a, P b, Scalar<"lbl", Int> lbl, Scalar<"spec", Int> spec)
        {
            return interp_sub(w, spec.value(), {a, b});
        }
    };

    template <int K>
    void wire_sub_k(Wiring &w, Env &env, const std::string &key, bool tr, int arity, Int lbl, Int sid, std::vector<P> a)
    {
        if (arity == 0)
        {
            if (tr) { env.tries.emplace(key, try_except_<DynSub<0, K>>(w, lbl, sid)); }
            else { env.ports.emplace(key, nested_<DynSub<0, K>>(w, lbl, sid)); }
        }
        else if (arity == 1)
        {
            if (tr) { env.tries.emplace(key, try_except_<DynSub<1, K>>(w, a.at(0), lbl, sid)); }
            else { env.ports.emplace(key, nested_<DynSub<1, K>>(w, a.at(0), lbl, sid)); }
        }
        else
        {
            if (tr) { env.tries.emplace(key, try_except_<DynSub<2, K>>(w, a.at(0), a.at(1), lbl, sid)); }
            else { env.ports.emplace(key, nested_<DynSub<2, K>>(w, a.at(0), a.at(1), lbl, sid)); }
        }
    }

    std::int64_t k2lbl(int k) { return g_k2lbl.count(k) ? g_k2lbl[k] : -1; }

    void wire_sub(Wiring &w, Env &env, const std::string &key, bool tr, int arity, Int lbl, Int sid, std::vector<P> a)
    {
        const int k = g_next_k++;
        if (k >= MAX_K) { throw std::invalid_argument("too many sub-graph call sites"); }
        g_k2lbl[k] = lbl;
        switch (k)
        {
            case 0: wire_sub_k<0>(w, env, key, tr, arity, lbl, sid, std::move(a)); break;
            case 1: wire_sub_k<1>(w, env, key, tr, arity, lbl, sid, std::move(a)); break;
            case 2: wire_sub_k<2>(w, env, key, tr, arity, lbl, sid, std::move(a)); break;
            case 3: wire_sub_k<3>(w, env, key, tr, arity, lbl, sid, std::move(a)); break;
            case 4: wire_sub_k<4>(w, env, key, tr, arity, lbl, sid, std::move(a)); break;
            default: wire_sub_k<5>(w, env, key, tr, arity, lbl, sid, std::move(a)); break;
        }
    }

    using FB = decltype(stdlib::feedback<TS<Int>>(std::declval<Wiring &>()));

    P port_arg(Env &env, const std::string &a)
    {
        bool passive_ = false;
        std::string key = a;
        if (!key.empty() && key[0] == '~') { passive_ = true; key = key.substr(1); }
        auto it = env.ports.find(key);
        if (it == env.ports.end()) { throw std::invalid_argument("unknown port " + a); }
        return passive_ ? passive(it->second) : it->second;
    }

    void interp_node(Wiring &w, const NodeLine &n, Env &env)
    {
        const Int lbl = n.lbl;
        const std::string key = std::to_string(n.lbl);
        auto arg = [&](std::size_t i) { return port_arg(env, n.args.at(i)); };
        auto num = [&](std::size_t i) { return Int{to_i(n.args.at(i))}; };
        if (n.kind == "const") { env.ports.emplace(key, wire<HConst>(w, lbl, num(0))); }
        else if (n.kind == "src") { env.ports.emplace(key, wire<HSrc>(w, lbl, num(0))); }
        else if (n.kind == "add") { env.ports.emplace(key, wire<HAdd>(w, lbl, arg(0), arg(1))); }
        else if (n.kind == "addk") { env.ports.emplace(key, wire<HAdd>(w, num(0), arg(1), arg(2))); }   // label scalar given: may be shared
        else if (n.kind == "sinkk") { wire<HSink>(w, num(0), arg(1)); }
        else if (n.kind == "acc") { env.ports.emplace(key, wire<HAcc>(w, lbl, arg(0))); }
        else if (n.kind == "pass") { env.ports.emplace(key, wire<HPass>(w, lbl, arg(0))); }
        else if (n.kind == "gate")
        {
            const std::string &f = n.args.at(2);   // e.g. "VU": validity of a, b (passivity via ~ on the port)
            const bool ua = f.at(0) == 'U', ub = f.at(1) == 'U';
            constexpr auto V = InputValidity::Valid;
            constexpr auto U = InputValidity::Unchecked;
            if (!ua && !ub) { env.ports.emplace(key, wire<HGate<V, V>>(w, lbl, arg(0), arg(1))); }
            else if (!ua && ub) { env.ports.emplace(key, wire<HGate<V, U>>(w, lbl, arg(0), arg(1))); }
            else if (ua && !ub) { env.ports.emplace(key, wire<HGate<U, V>>(w, lbl, arg(0), arg(1))); }
            else { env.ports.emplace(key, wire<HGate<U, U>>(w, lbl, arg(0), arg(1))); }
        }
        else if (n.kind == "gate3")
        {
            // flags: 3 validity chars (VVV | UUU | VUV) + 3 activity chars (AAA | PAA | APA | AAP)
            const std::string &f = n.args.at(3);
            constexpr auto V = InputValidity::Valid;
            constexpr auto U = InputValidity::Unchecked;
            constexpr auto A = InputActivity::Active;
            constexpr auto P = InputActivity::Passive;
            const std::string val = f.substr(0, 3), act = f.substr(3, 3);
            auto with_act = [&]<InputValidity VA, InputValidity VB, InputValidity VC>() {
                if (act == "AAA") { env.ports.emplace(key, wire<HGate3<VA, VB, VC, A, A, A>>(w, lbl, arg(0), arg(1), arg(2))); }
                else if (act == "PAA") { env.ports.emplace(key, wire<HGate3<VA, VB, VC, P, A, A>>(w, lbl, arg(0), arg(1), arg(2))); }
                else if (act == "APA") { env.ports.emplace(key, wire<HGate3<VA, VB, VC, A, P, A>>(w, lbl, arg(0), arg(1), arg(2))); }
                else if (act == "AAP") { env.ports.emplace(key, wire<HGate3<VA, VB, VC, A, A, P>>(w, lbl, arg(0), arg(1), arg(2))); }
                else { throw std::invalid_argument("gate3 activity flags"); }
            };
            if (val == "VVV") { with_act.template operator()<V, V, V>(); }
            else if (val == "UUU") { with_act.template operator()<U, U, U>(); }
            else if (val == "VUV") { with_act.template operator()<V, U, V>(); }
            else { throw std::invalid_argument("gate3 validity flags"); }
        }
        else if (n.kind == "ngate")
        {
            const std::string &f = n.args.at(2);
            const bool ua = f.at(0) == 'U', ub = f.at(1) == 'U';
            std::array<WiringPortRef, 2> ins{arg(0).erased(), arg(1).erased()};
            const std::type_index def = ua ? (ub ? std::type_index(typeid(NGateDef<3>)) : std::type_index(typeid(NGateDef<2>)))
                                           : (ub ? std::type_index(typeid(NGateDef<1>)) : std::type_index(typeid(NGateDef<0>)));
            NodeBuilder nb = native_gate(ua, ub);
            nb.label("ng_" + std::to_string(static_cast<long long>(lbl)));
            WiringPortRef out = w.add_node(def, std::move(nb), std::span<const WiringPortRef>{ins.data(), ins.size()},
                                           lbl_scalars(lbl));
            env.ports.emplace(key, P{w, std::move(out)});
        }
        else if (n.kind == "nscript")
        {
            std::array<WiringPortRef, 2> ins{arg(1).erased(), arg(2).erased()};
            NodeBuilder nb = native_script(num(0));
            nb.label("ng_" + std::to_string(static_cast<long long>(lbl)));
            WiringPortRef out = w.add_node(std::type_index(typeid(NGateDef<9>)), std::move(nb),
                                           std::span<const WiringPortRef>{ins.data(), ins.size()}, lbl_scalars(lbl * 1000 + num(0)));
            env.ports.emplace(key, P{w, std::move(out)});
        }
        else if (n.kind == "script")
        {
            if (n.args.size() >= 2) { env.ports.emplace(key, wire<HScriptIn>(w, lbl, num(0), arg(1))); }
            else { env.ports.emplace(key, wire<HScript>(w, lbl, num(0))); }
        }
        else if (n.kind == "sscript") { env.ports.emplace(key, wire<HScriptS>(w, lbl, num(0))); }
        else if (n.kind == "sink") { wire<HSink>(w, lbl, arg(0)); }
        else if (n.kind == "thrower") { env.ports.emplace(key, wire<HThrower>(w, lbl, num(0), arg(1))); }
        else if (n.kind == "probe") { wire<HProbe>(w, lbl, arg(0)); }
        else if (n.kind == "nested" || n.kind == "tryx")
        {
            const Int sid = num(0);
            const SubSpec &sp = g_subs.at(sid);
            std::vector<P> a;
            for (int i = 0; i < sp.arity; ++i) { a.push_back(arg(1 + i)); }
            wire_sub(w, env, key, n.kind == "tryx", sp.arity, lbl, sid, std::move(a));
        }
        else if (n.kind == "inline")
        {
            // the same sub-graph definition wired inline into the current wiring
            const SubSpec &s = g_subs.at(num(0));
            Env sub;
            for (int i = 0; i < s.arity; ++i) { sub.ports.emplace("$" + std::to_string(i), arg(1 + i)); }
            // inlined nodes get labels offset by 1000*lbl so traces stay distinguishable
            std::vector<NodeLine> shifted = s.nodes;
            for (auto &sn : shifted) { sn.lbl += 1000 * n.lbl; }
            auto rename = [&](std::string a) {
                bool p = !a.empty() && a[0] == '~';
                std::string k = p ? a.substr(1) : a;
                if (!k.empty() && k[0] != '$') { k = std::to_string(to_i(k) + 1000 * n.lbl); }
                return (p ? "~" : "") + k;
            };
            for (auto &sn : shifted)
            {
                if (sn.kind == "add" || sn.kind == "gate" || sn.kind == "ngate") { sn.args[0] = rename(sn.args[0]); sn.args[1] = rename(sn.args[1]); }
                else if (sn.kind == "gate3") { for (std::size_t i = 0; i < 3; ++i) { sn.args[i] = rename(sn.args[i]); } }
                else if (sn.kind == "acc" || sn.kind == "pass" || sn.kind == "sink" || sn.kind == "probe") { sn.args[0] = rename(sn.args[0]); }
                else if ((sn.kind == "script" && sn.args.size() >= 2) || sn.kind == "thrower") { sn.args[1] = rename(sn.args[1]); }
            }
            std::string out = s.out == "-" ? "-" : rename(s.out);
            P o = interp_nodes(w, shifted, sub, out);
            env.ports.emplace(key, o);
        }
        else if (n.kind == "tryout") { env.ports.emplace(key, wire<HTryOut>(w, lbl, env.tries.at(n.args.at(0)).as<TryIntResult>())); }
        else if (n.kind == "tryerr") { env.ports.emplace(key, wire<HTryErr>(w, lbl, env.tries.at(n.args.at(0)).as<TryIntResult>())); }
        else if (n.kind == "errts")
        {
            auto err = exception_time_series(arg(0));
            env.ports.emplace(key, wire<HErrMsg>(w, lbl, err));
        }
        else if (n.kind == "errtsv")
        {
            auto err = exception_time_series(arg(0), ErrorCaptureOptions{.trace_back_depth = static_cast<std::size_t>(to_i(n.args.at(1))),
                                                                         .capture_values   = to_i(n.args.at(2)) != 0});
            env.ports.emplace(key, wire<HErrMsgV>(w, lbl, err));
        }
        else if (n.kind == "fbsrc")
        {
            std::shared_ptr<FB> fb = n.args.size() >= 2 ? std::make_shared<FB>(stdlib::feedback<TS<Int>>(w, num(1)))
                                                         : std::make_shared<FB>(stdlib::feedback<TS<Int>>(w));
            env.fbs[to_i(n.args.at(0))] = fb;
            env.ports.emplace(key, (*fb)());
        }
        else if (n.kind == "fbbind")
        {
            auto fb = std::static_pointer_cast<FB>(env.fbs.at(to_i(n.args.at(0))));
            (*fb)(arg(1));
        }
        else { throw std::invalid_argument("unknown node kind " + n.kind); }
    }

    P interp_nodes(Wiring &w, const std::vector<NodeLine> &nodes, Env &env, const std::string &out)
    {
        for (const auto &n : nodes) { interp_node(w, n, env); }
        if (out == "-" || out.empty()) { return P{}; }
        return port_arg(env, out);
    }

    // ------------------------------------------------------------------ observer
    struct Obs : LifecycleObserver
    {
        static std::string gt(const GraphView &g) { return path_of(g) + "@" + std::to_string(us(g.evaluation_time())); }
        void on_before_start_graph(const GraphView &g) override { logf("gs+ " + gt(g)); }
        void on_after_start_graph(const GraphView &g) override { logf("gs= " + gt(g)); }
        void on_start_graph_failed(const GraphView &g) override { logf("gs! " + gt(g)); }
        void on_before_start_node(const NodeView &n) override { logf("ns+ " + lbl_of(n)); }
        void on_after_start_node(const NodeView &n) override { logf("ns= " + lbl_of(n)); }
        void on_start_node_failed(const NodeView &n) override { logf("ns! " + lbl_of(n)); }
        void on_before_graph_evaluation(const GraphView &g) override { logf("ge+ " + gt(g)); }
        void on_after_graph_evaluation(const GraphView &g) override { logf("ge= " + gt(g) + " next=" + ts(g.next_scheduled_time())); }
        void on_before_node_evaluation(const NodeView &n) override { logf("ne+ " + lbl_of(n)); }
        void on_after_node_evaluation(const NodeView &n) override { logf("ne= " + lbl_of(n)); }
        void on_before_stop_node(const NodeView &n) override { logf("nx+ " + lbl_of(n)); }
        void on_after_stop_node(const NodeView &n) override { logf("nx= " + lbl_of(n)); }
        void on_stop_node_failed(const NodeView &n) override { logf("nx! " + lbl_of(n)); }
        void on_before_stop_graph(const GraphView &g) override { logf("gx+ " + gt(g)); }
        void on_after_stop_graph(const GraphView &g) override { logf("gx= " + gt(g)); }
        void on_stop_graph_failed(const GraphView &g) override { logf("gx! " + gt(g)); }
    };

    std::string classify(const std::string &what)
    {
        for (const char *k : {"boom-start-", "boom-eval-", "boom-stop-"})
        {
            auto p = what.find(k);
            if (p != std::string::npos)
            {
                std::string r = what.substr(p);
                auto e = r.find_first_not_of("abcdefghijklmnopqrstuvwxyz-0123456789");
                return "node-failed(" + r.substr(0, e) + ")";
            }
        }
        if (what.find("ycle") != std::string::npos) { return "cycle"; }
        return "other:" + what.substr(0, 80);
    }

    std::vector<NodeLine> g_root;
    std::string           g_last;

    std::string join_log()
    {
        std::string result;
        for (std::size_t i = 0; i < g_log.size(); ++i) { result += (i ? " | " : "") + g_log[i]; }
        return result;
    }

    // one run of an executor made from `eb`; the log of this run is appended to g_log
    void run_once(GraphExecutorBuilder &eb)
    {
        GraphExecutorValue executor = eb.make_executor();
        try
        {
            executor.view().run();
            logf("run-ok");
        }
        catch (const std::exception &e) { logf("run-err " + classify(e.what())); }
        logf("release");
    }

    // `reuse` > 0: the SAME executor builder makes `reuse` further executors, run one after the
    // other; every run must produce the first run's trace (C07: builders are reusable recipes)
    std::string run_case(int reuse = 0)
    {
        g_log.clear();
        g_fault_calls.clear();
        g_k2lbl.clear();
        g_next_k = 0;
        std::string result;
        try
        {
            Wiring w{WiringKind::TopLevel, WiringOptions{}};
            Env    env;
            interp_nodes(w, g_root, env, "-");
            GraphBuilder gb = std::move(w).finish();
            logf("built nodes=" + std::to_string(gb.nodes().size()));
            Obs obs;
            GraphExecutorBuilder eb;
            eb.graph_builder(std::move(gb)).mode(GraphExecutorMode::Simulation).start_time(dt(g_start)).end_time(dt(g_end));
            eb.add_lifecycle_observer(&obs);
            eb.cleanup_on_error(g_cleanup);
            run_once(eb);
            logf("released");
            if (reuse > 0)
            {
                const std::vector<std::string> first = g_log;
                for (int k = 0; k < reuse; ++k)
                {
                    g_log.clear();
                    g_fault_calls.clear();
                    logf(first.front());
                    run_once(eb);
                    logf("released");
                    if (g_log != first) { return "reuse-diff@" + std::to_string(k + 1) + ": " + join_log(); }
                }
                return "reuse-same";
            }
        }
        catch (const std::exception &e)
        {
            // canonical: the model cannot reproduce wiring error texts
            const std::string c = classify(e.what());
            std::cerr << "build-err " << c << "\n";
            g_log.clear();
            logf(c == "cycle" ? "build-err cycle" : "build-err other");
        }
        return join_log();
    }

    // n executors of the same program, wired one after the other on this thread, then RUN
    // concurrently, one thread each; all traces must equal a plain sequential run
    std::string run_parallel(int n)
    {
        const std::string expect = run_case();
        if (expect.find("build-err") != std::string::npos) { return "par-same"; }
        struct Job
        {
            std::unique_ptr<Obs>                  obs;
            std::unique_ptr<GraphExecutorBuilder> eb;
            std::optional<GraphExecutorValue>     executor;
            std::string                           head;
            std::string                           out;
        };
        std::vector<Job> jobs(static_cast<std::size_t>(n));
        // wiring AND executor construction happen one after the other on this thread; only run()
        // (and the release of each executor) is concurrent.  HGV_PAR_MAKE=1 moves make_executor into
        // the threads as well (diagnostic: concurrent construction races in the registries).
        const bool par_make = std::getenv("HGV_PAR_MAKE") != nullptr;
        for (auto &j : jobs)
        {
            g_k2lbl.clear();
            g_next_k = 0;
            Wiring w{WiringKind::TopLevel, WiringOptions{}};
            Env    env;
            interp_nodes(w, g_root, env, "-");
            GraphBuilder gb = std::move(w).finish();
            j.head = "built nodes=" + std::to_string(gb.nodes().size());
            j.obs  = std::make_unique<Obs>();
            j.eb   = std::make_unique<GraphExecutorBuilder>();
            j.eb->graph_builder(std::move(gb)).mode(GraphExecutorMode::Simulation).start_time(dt(g_start)).end_time(dt(g_end));
            j.eb->add_lifecycle_observer(j.obs.get());
            j.eb->cleanup_on_error(g_cleanup);
            if (!par_make) { j.executor.emplace(j.eb->make_executor()); }
        }
        const auto k2lbl_snapshot = g_k2lbl;
        std::vector<std::thread> ts;
        for (auto &j : jobs)
        {
            ts.emplace_back([&j, &k2lbl_snapshot, par_make] {
                g_log.clear();
                g_fault_calls.clear();
                g_k2lbl = k2lbl_snapshot;
                logf(j.head);
                if (par_make) { j.executor.emplace(j.eb->make_executor()); }
                try
                {
                    j.executor->view().run();
                    logf("run-ok");
                }
                catch (const std::exception &e) { logf("run-err " + classify(e.what())); }
                logf("release");
                j.executor.reset();
                logf("released");
                j.out = join_log();
            });
        }
        for (auto &t : ts) { t.join(); }
        for (std::size_t i = 0; i < jobs.size(); ++i)
        {
            if (jobs[i].out != expect) { return "par-diff@" + std::to_string(i) + ": " + jobs[i].out; }
        }
        return "par-same";
    }

    std::vector<ScriptOp> parse_ops(const std::vector<std::string> &w, std::size_t &i)
    {
        std::vector<ScriptOp> ops;
        for (; i < w.size() && w[i] != ";"; ++i)
        {
            const std::string &t = w[i];
            if (t == "-") { continue; }
            ScriptOp o{t[0], 0, ""};
            std::string rest = t.substr(1);
            auto c = rest.find(':');
            std::string numpart = c == std::string::npos ? rest : rest.substr(0, c);
            if (c != std::string::npos) { o.tag = rest.substr(c + 1); }
            if (!numpart.empty()) { o.n = to_i(numpart); }
            ops.push_back(o);
        }
        return ops;
    }
}  // namespace

int main()
{
    std::ios::sync_with_stdio(false);
    stdlib::register_standard_operators();
    std::string line;
    SubSpec    *cur_sub = nullptr;
    while (std::getline(std::cin, line))
    {
        auto w = split(line);
        try
        {
            if (w.empty()) { std::cout << "\n"; continue; }
            const std::string &op = w[0];
            if (op == "case")
            {
                g_ticks.clear(); g_scripts.clear(); g_faults.clear(); g_subs.clear(); g_root.clear();
                g_start = 1; g_end = 100; g_cleanup = true; cur_sub = nullptr;
                std::cout << line << "\n";
            }
            else if (op == "reset")
            {
                g_ticks.clear(); g_scripts.clear(); g_faults.clear(); g_subs.clear(); g_root.clear();
                g_start = 1; g_end = 100; g_cleanup = true; cur_sub = nullptr;
                std::cout << "ok\n";
            }
            else if (op == "cfg")
            {
                g_start = to_i(w.at(1)); g_end = to_i(w.at(2));
                if (w.size() > 3) { g_cleanup = w[3] != "cleanup=0"; }
                std::cout << "ok\n";
            }
            else if (op == "ticks")
            {
                auto &t = g_ticks[to_i(w.at(1))];
                for (std::size_t i = 2; i < w.size(); ++i)
                {
                    auto c = w[i].find(':');
                    t.emplace_back(to_i(w[i].substr(0, c)), to_i(w[i].substr(c + 1)));
                }
                std::cout << "ok\n";
            }
            else if (op == "script")
            {
                auto &sc = g_scripts[to_i(w.at(1))];
                std::size_t i = 2;
                while (i <= w.size())
                {
                    sc.push_back(parse_ops(w, i));
                    if (i >= w.size()) { break; }
                    ++i;  // skip ';'
                }
                std::cout << "ok\n";
            }
            else if (op == "faults")
            {
                auto &f = g_faults[to_i(w.at(1))];
                for (std::size_t i = 2; i < w.size(); ++i) { f.insert(w[i]); }
                std::cout << "ok\n";
            }
            else if (op == "sub")
            {
                cur_sub = &g_subs[to_i(w.at(1))];
                cur_sub->arity = static_cast<int>(to_i(w.at(2)));
                std::cout << "ok\n";
            }
            else if (op == "endsub")
            {
                if (cur_sub == nullptr) { std::cout << "bad-op\n"; continue; }
                cur_sub->out = w.at(1);
                cur_sub = nullptr;
                std::cout << "ok\n";
            }
            else if (op == "node")
            {
                NodeLine n{to_i(w.at(1)), w.at(2), {w.begin() + 3, w.end()}};
                (cur_sub != nullptr ? cur_sub->nodes : g_root).push_back(std::move(n));
                std::cout << "ok\n";
            }
            else if (op == "run") { g_last = run_case(); std::cout << g_last << "\n"; }
            else if (op == "rerun") { std::cout << run_case(static_cast<int>(to_i(w.at(1)))) << "\n"; }
            else if (op == "runpar") { std::cout << run_parallel(static_cast<int>(to_i(w.at(1)))) << "\n"; }
            else if (op[0] == '#') { std::cout << "#\n"; }
            else { std::cout << "bad-op\n"; }
        }
        catch (const std::exception &e) { std::cout << "bad-op\n"; }
    }
    return 0;
}
