// hgv_reduce: runs a REAL graph
//     replay(collection) [, replay(zero)] -> reduce(<combiner>, collection [, zero]) -> record
// compiled from the working tree, in simulation, for a textual key/element history, and prints what
// was observed per engine cycle.  Everything is wired through the erased (name-resolved) operator
// path, so the collection shape is a run-time choice.  One output line per input line.
//
//   case <id>                       -> "case <id>"          (flushes a pending history first)
//   cfg <kind> <comb> <zero>        -> "ok" | "bad-op"
//        kind: tsd | dtsl | tsl<N>  (TSD<Int,TS<Int>>, dynamic TSL<TS<Int>>, fixed TSL<TS<Int>,N>)
//              with a suffix the ELEMENT (= result) schema is a keyed one, published by the reduce node through the
//              keyed publication path (reduce_publication_ops_for / finish_reduce_publication):
//              tsd:s | dtsl:s | tsl<N>:s   elements TSS<Int>            (result TSS<Int>)
//              tsd:d | dtsl:d              elements TSD<Int,TS<Int>>    (result TSD<Int,TS<Int>>)
//        comb: add | graph | node | max   (operator add_, sub-graph lhs+rhs, node lhs+rhs+100, operator max_)   [TS<Int>]
//              union | ugraph             (operator bit_or = set union / dict merge, sub-graph lhs | rhs)        [:s, :d]
//        zero: none | ts | <int>    (ts: a live zero of the element schema replayed from the `z` ops; <int>: the scalar
//                                    arity, wired by the overload as const(zero); for :s kinds the scalar is a set
//                                    constant written e (empty) or e<csv>, e.g. e7,9)
//   Element values of the keyed kinds are written as ONE token: :s  "1,2,3" or "-" (empty set);
//   :d  "1:10,2:20" or "-" (empty dictionary).  `set <k> <value>` gives the element's NEW value; the driver replays
//   the exact difference to the previous value of that element as the element's delta.
//   c [set <k> <v> | del <k> | tick | z <v>]*     one engine cycle (MIN_ST + i); answered when the run happens:
//        "idle"                                     the root graph was not evaluated in that cycle
//        "rec=<v|-> out=<v|none> mod=<0|1> n=<leaves|-> comb=<combiners|-> ngc=<nested_graph_count|-> ev=<evals>"
//        keyed kinds: rec = the recorded DELTA of the cycle, canonical: {added=[..];removed=[..]} (TSS) /
//        {removed=[..];modified=[k:v,..]} (TSD), out = the full value [..] (sorted), both without blanks
//        ev: for comb=node the sorted multiset "[l:r,l:r,...]" of the operand pairs of every evaluation of the node
//        combiner in that engine cycle (the combiner logs them; nothing in /repo is changed), "-" otherwise
//   run                             -> "end out=<v|none> n=.. comb=.. ngc=.."   (state after the last cycle)
// A history is run when `run`, the next `case` or EOF is read.  Errors -> "err:<class>".
#include "hgv_common.h"

#include <hgraph/lib/std/std_nodes.h>
#include <hgraph/lib/std/std_operators.h>
#include <hgraph/lib/std/operators/impl/record_replay_memory_impl.h>
#include <hgraph/lib/testing/record_replay.h>
#include <hgraph/runtime/lifecycle_observer.h>
#include <hgraph/runtime/reduce_node.h>
#include <hgraph/runtime/runtime.h>
#include <hgraph/types/graph_wiring.h>
#include <hgraph/types/metadata/type_registry.h>
#include <hgraph/types/operator_dispatch.h>
#include <hgraph/types/static_node.h>
#include <hgraph/types/subgraph_wiring.h>
#include <hgraph/types/wired_fn.h>

#include <map>
#include <optional>
#include <span>

using namespace hgraph;
using namespace hgv;

namespace
{
    // ---- combiners (all associative and commutative on Int) ----------------------------------
    struct HgvSumGraph
    {
        static constexpr auto name = "hgv_sum_graph";
        static Port<TS<Int>>  compose(Wiring &, Port<TS<Int>> lhs, Port<TS<Int>> rhs)
        {
            using namespace hgraph::stdlib::syntax;
            return (lhs + rhs).as<TS<Int>>();
        }
    };

    // Every evaluation of the node combiner is logged as (lhs, rhs): the per-cycle multiset of combiner
    // evaluations is observable without touching /repo (drained by the lifecycle observer after each
    // root-graph evaluation).
    std::vector<std::pair<std::int64_t, std::int64_t>> &eval_log()
    {
        static std::vector<std::pair<std::int64_t, std::int64_t>> log;
        return log;
    }

    // +100 per application: the number of combiner applications is observable in the result.
    struct HgvOffsetSum
    {
        static constexpr auto name = "hgv_offset_sum";
        static void eval(In<"lhs", TS<Int>> lhs, In<"rhs", TS<Int>> rhs, Out<TS<Int>> out)
        {
            eval_log().emplace_back(static_cast<std::int64_t>(lhs.value()), static_cast<std::int64_t>(rhs.value()));
            out.set(lhs.value() + rhs.value() + Int{100});
        }
    };

    // set union / dictionary merge as a SUB-GRAPH combiner (the operator itself is comb `union`)
    struct HgvUnionSetGraph
    {
        static constexpr auto    name = "hgv_union_set_graph";
        static Port<TSS<Int>> compose(Wiring &, Port<TSS<Int>> lhs, Port<TSS<Int>> rhs)
        {
            using namespace hgraph::stdlib::syntax;
            return (lhs | rhs).as<TSS<Int>>();
        }
    };
    struct HgvUnionDictGraph
    {
        static constexpr auto            name = "hgv_union_dict_graph";
        static Port<TSD<Int, TS<Int>>> compose(Wiring &, Port<TSD<Int, TS<Int>>> lhs, Port<TSD<Int, TS<Int>>> rhs)
        {
            using namespace hgraph::stdlib::syntax;
            return (lhs | rhs).as<TSD<Int, TS<Int>>>();
        }
    };

    // canonical text of a value: integers, sets "[a,b]" sorted, maps "[k:v,..]" sorted by key, bundles
    // "{field=..;field=..}" in schema order; no blanks
    std::string canon(const ValueView &v)
    {
        const auto *schema = v.schema();
        if (schema == nullptr) { return "?"; }
        switch (schema->value_kind())
        {
            case ValueTypeKind::Atomic: return std::to_string(static_cast<std::int64_t>(v.checked_as<Int>()));
            case ValueTypeKind::Set:
            {
                std::vector<std::int64_t> xs;
                for (const auto e : v.as_set().values()) { xs.push_back(static_cast<std::int64_t>(e.checked_as<Int>())); }
                std::sort(xs.begin(), xs.end());
                std::string r = "[";
                for (std::size_t i = 0; i < xs.size(); ++i) { r += (i ? "," : "") + std::to_string(xs[i]); }
                return r + "]";
            }
            case ValueTypeKind::Map:
            {
                std::vector<std::pair<std::int64_t, std::string>> xs;
                for (auto &&[k, e] : v.as_map().entries())
                {
                    xs.emplace_back(static_cast<std::int64_t>(k.checked_as<Int>()), canon(e));
                }
                std::sort(xs.begin(), xs.end());
                std::string r = "[";
                for (std::size_t i = 0; i < xs.size(); ++i)
                {
                    r += (i ? "," : "") + std::to_string(xs[i].first) + ":" + xs[i].second;
                }
                return r + "]";
            }
            case ValueTypeKind::Bundle:
            {
                auto        b = v.as_bundle();
                std::string r = "{";
                for (std::size_t i = 0; i < schema->field_count; ++i)
                {
                    r += (i ? ";" : "") + std::string{schema->fields[i].name ? schema->fields[i].name : "?"} + "=" +
                         canon(b.at(i));
                }
                return r + "}";
            }
            default: return "?";
        }
    }

    WiringArg ts_arg(WiringPortRef port)
    {
        WiringArg arg;
        arg.kind = WiringArg::Kind::TimeSeries;
        arg.port = std::move(port);
        return arg;
    }

    WiringArg scalar_arg(Value value)
    {
        WiringArg arg;
        arg.kind         = WiringArg::Kind::Scalar;
        arg.scalar_value = std::move(value);
        arg.scalar_meta  = arg.scalar_value.schema();
        return arg;
    }

    OperatorWireResult call_operator(Wiring &w, std::string_view name, std::vector<WiringArg> args,
                                     std::optional<bool> output_required = std::nullopt,
                                     const TSValueTypeMetaData *expected_output = nullptr)
    {
        ResolvedOperatorCall resolved = OperatorRegistry::instance().resolve(
            name, std::span<const WiringArg>{args.data(), args.size()}, output_required, expected_output, {},
            w.operator_state(), &w);
        return resolved.impl->wire(w, resolved.map, resolved.args, resolved.kwargs);
    }

    struct Cfg
    {
        std::string kind{"tsd"};
        char        elem{'i'};  // element schema: 'i' TS<Int>, 's' TSS<Int>, 'd' TSD<Int,TS<Int>>
        std::size_t size{0};  // fixed TSL size
        std::string comb{"add"};
        bool        zero{false};       // a zero is supplied
        bool        zero_ts{false};    // ... as a live time series (else the scalar `zero_value`)
        std::int64_t zero_value{0};
        std::vector<std::int64_t> zero_set;  // scalar zero of a :s kind
    };

    using Items = std::map<std::int64_t, std::int64_t>;  // a set (values ignored) or a dictionary

    // "1,2,3" / "1:10,2:20" / "-"
    Items parse_items(const std::string &tok, bool dict)
    {
        Items out;
        if (tok == "-") { return out; }
        std::size_t pos = 0;
        while (pos <= tok.size())
        {
            const std::size_t comma = std::min(tok.find(',', pos), tok.size());
            const std::string part  = tok.substr(pos, comma - pos);
            if (part.empty()) { throw std::invalid_argument("items"); }
            const std::size_t colon = part.find(':');
            if (dict != (colon != std::string::npos)) { throw std::invalid_argument("items"); }
            std::size_t used = 0;
            if (dict)
            {
                const std::int64_t k = std::stoll(part.substr(0, colon), &used);
                if (used != colon) { throw std::invalid_argument("items"); }
                const std::string vs = part.substr(colon + 1);
                const std::int64_t v = std::stoll(vs, &used);
                if (used != vs.size()) { throw std::invalid_argument("items"); }
                out[k] = v;
            }
            else
            {
                const std::int64_t k = std::stoll(part, &used);
                if (used != part.size()) { throw std::invalid_argument("items"); }
                out[k] = 0;
            }
            pos = comma + 1;
        }
        return out;
    }

    // the element's delta from its previous to its new value (exact difference)
    Value items_delta(char elem, const Items &before, const Items &after)
    {
        if (elem == 's')
        {
            std::vector<Int> added, removed;
            for (const auto &[k, v] : after) { if (!before.count(k)) { added.push_back(Int{k}); } }
            for (const auto &[k, v] : before) { if (!after.count(k)) { removed.push_back(Int{k}); } }
            return set_delta<Int>(std::move(added), std::move(removed));
        }
        std::map<Int, Int> modified;
        std::vector<Int>   removed;
        for (const auto &[k, v] : after)
        {
            auto it = before.find(k);
            if (it == before.end() || it->second != v) { modified[Int{k}] = Int{v}; }
        }
        for (const auto &[k, v] : before) { if (!after.count(k)) { removed.push_back(Int{k}); } }
        return static_node_detail::build_dict_delta<Int, TS<Int>>(modified, removed);
    }

    struct Op
    {
        char         what;  // 's' set, 'd' del, 't' tick, 'z' zero
        std::int64_t k{0}, v{0};
        Items        items{};  // keyed kinds: the new value of the element / of the zero
    };

    struct CycleObs
    {
        bool        seen{false};
        bool        found{false};
        bool        valid{false};
        bool        modified{false};
        std::int64_t value{0};
        std::string value_text;  // canonical text of the value (all kinds)
        bool        tree{false};
        std::size_t n{0}, comb{0}, ngc{0};
        std::vector<std::pair<std::int64_t, std::int64_t>> evals;  // node-combiner evaluations of this cycle
    };

    CycleObs observe(const GraphView &graph, DateTime at)
    {
        CycleObs o;
        o.seen = true;
        for (std::size_t index = 0; index < graph.node_count(); ++index)
        {
            auto node = graph.node_at(index);
            const bool is_tree = node.is<ReduceNodeView>();
            if (!is_tree && node.label().rfind("reduce", 0) != 0) { continue; }
            o.found = true;
            auto out = node.output(at);
            o.valid  = out.valid();
            o.modified = out.modified();
            if (o.valid)
            {
                o.value_text = canon(out.value());
                if (out.value().schema() != nullptr && out.value().schema()->value_kind() == ValueTypeKind::Atomic)
                {
                    o.value = out.value().checked_as<Int>();
                }
            }
            if (is_tree)
            {
                auto rv = node.as<ReduceNodeView>();
                o.tree = true;
                o.n    = rv.leaf_count();
                o.comb = rv.combiner_count();
                o.ngc  = node.storage_metrics().nested_graph_count;
            }
            break;
        }
        return o;
    }

    struct Obs final : LifecycleObserver
    {
        std::vector<CycleObs> cycles;
        void on_after_graph_evaluation(const GraphView &graph) override
        {
            if (!graph.is_root()) { return; }
            const auto i = testing::cycle_offset(graph.evaluation_time());
            if (i >= cycles.size()) { cycles.resize(i + 1); }
            cycles[i] = observe(graph, graph.evaluation_time());
            cycles[i].evals = std::move(eval_log());
            eval_log().clear();
            std::sort(cycles[i].evals.begin(), cycles[i].evals.end());
        }
    };

    std::string fmt_tail(const CycleObs &o)
    {
        std::ostringstream s;
        s << " out=";
        if (o.valid) { s << o.value_text; } else { s << "none"; }
        return s.str();
    }

    std::string fmt_tree(const CycleObs &o)
    {
        std::ostringstream s;
        if (o.tree) { s << " n=" << o.n << " comb=" << o.comb << " ngc=" << o.ngc; }
        else { s << " n=- comb=- ngc=-"; }
        return s.str();
    }

    // " ev=[l:r,l:r,...]" (sorted) for the logging node combiner, " ev=-" for the others
    std::string fmt_evals(const Cfg &cfg, const CycleObs &o)
    {
        if (cfg.comb != "node") { return " ev=-"; }
        std::ostringstream s;
        s << " ev=[";
        for (std::size_t i = 0; i < o.evals.size(); ++i)
        {
            if (i != 0) { s << ","; }
            s << o.evals[i].first << ":" << o.evals[i].second;
        }
        s << "]";
        return s.str();
    }

    // Runs the history; returns one line per cycle plus the final line.
    std::vector<std::string> run_history(const Cfg &cfg, const std::vector<std::vector<Op>> &cycles)
    {
        auto &registry = TypeRegistry::instance();
        const auto *int_meta = registry.register_scalar<Int>("int");
        const auto *ts_int   = registry.ts(int_meta);
        const TSValueTypeMetaData *elem = cfg.elem == 's'   ? registry.tss(int_meta)
                                          : cfg.elem == 'd' ? registry.tsd(int_meta, ts_int)
                                                            : ts_int;
        const TSValueTypeMetaData *coll = cfg.kind == "tsd"    ? registry.tsd(int_meta, elem)
                                          : cfg.kind == "dtsl" ? registry.tsl(elem, 0)
                                                               : registry.tsl(elem, cfg.size);
        WiredFn fnv = cfg.comb == "add"      ? fn<stdlib::add_>()
                      : cfg.comb == "max"    ? fn<stdlib::max_>()
                      : cfg.comb == "graph"  ? fn<HgvSumGraph>()
                      : cfg.comb == "union"  ? fn<stdlib::bit_or>()
                      : cfg.comb == "ugraph" ? (cfg.elem == 's' ? fn<HgvUnionSetGraph>() : fn<HgvUnionDictGraph>())
                                             : fn<HgvOffsetSum>();

        Wiring w;
        record_replay::set_config(w.global_state(),
                                  record_replay::RecordReplayConfig{.backend = std::string{record_replay::TESTING}});
        auto src = call_operator(w, "replay", {scalar_arg(Value{Str{"hgv::in"}})}, true, coll);
        std::vector<WiringArg> rargs{scalar_arg(Value{fnv}), ts_arg(src.output.erased())};
        if (cfg.zero && cfg.zero_ts)
        {
            auto z = call_operator(w, "replay", {scalar_arg(Value{Str{"hgv::zero"}})}, true, elem);
            rargs.push_back(ts_arg(z.output.erased()));
        }
        else if (cfg.zero && cfg.elem == 's')
        {
            SetBuilder zs{ValuePlanFactory::instance().type_for(int_meta)};
            for (const auto e : cfg.zero_set) { (void)zs.insert(Int{e}); }
            rargs.push_back(scalar_arg(zs.build()));
        }
        else if (cfg.zero) { rargs.push_back(scalar_arg(Value{Int{cfg.zero_value}})); }
        auto red = call_operator(w, "reduce", std::move(rargs), true);
        static_cast<void>(call_operator(w, "record", {ts_arg(red.output.erased()), scalar_arg(Value{Str{"hgv::out"}})},
                                        false));
        GraphBuilder gb = std::move(w).finish();

        std::vector<std::optional<Value>> in_deltas, z_deltas;
        std::map<std::int64_t, Items>     current;       // keyed kinds: the element values replayed so far
        Items                             zero_current;  // ... and the live zero's value
        for (const auto &ops : cycles)
        {
            std::map<Int, Int>      modified;
            std::vector<Int>        removed;
            std::map<std::size_t, Int> lmod;
            std::map<Int, Value>         kmodified;  // keyed kinds
            std::map<std::size_t, Value> klmod;
            bool                    ticked = false;
            std::optional<Value>    z;
            // keyed kinds: the deltas replayed are the differences to the values at the START of the cycle
            const std::map<std::int64_t, Items> before      = current;
            const Items                         zero_before = zero_current;
            std::vector<std::int64_t>           touched;
            bool                                zero_touched = false;
            for (const Op &op : ops)
            {
                switch (op.what)
                {
                    case 's':
                        if (cfg.elem == 'i')
                        {
                            modified[Int{op.k}] = Int{op.v};
                            lmod[static_cast<std::size_t>(op.k)] = Int{op.v};
                        }
                        else
                        {
                            current[op.k] = op.items;
                            touched.push_back(op.k);
                        }
                        ticked = true;
                        break;
                    case 'd': removed.push_back(Int{op.k}); current.erase(op.k); ticked = true; break;
                    case 't': ticked = true; break;
                    case 'z':
                        if (cfg.elem == 'i') { z = Value{Int{op.v}}; }
                        else
                        {
                            zero_current = op.items;
                            zero_touched = true;
                        }
                        break;
                }
            }
            for (const auto k : touched)
            {
                auto now_it = current.find(k);
                if (now_it == current.end()) { continue; }  // set and removed in one cycle: no defined meaning
                auto  was_it = before.find(k);
                Value d      = items_delta(cfg.elem, was_it == before.end() ? Items{} : was_it->second, now_it->second);
                klmod.insert_or_assign(static_cast<std::size_t>(k), d);
                kmodified.insert_or_assign(Int{k}, std::move(d));
            }
            if (zero_touched) { z = items_delta(cfg.elem, zero_before, zero_current); }
            const bool dict = cfg.kind == "tsd";
            if (!ticked) { in_deltas.emplace_back(std::nullopt); }
            else if (cfg.elem == 'i' && dict)
            {
                in_deltas.emplace_back(static_node_detail::build_dict_delta<Int, TS<Int>>(modified, removed));
            }
            else if (cfg.elem == 'i') { in_deltas.emplace_back(static_node_detail::build_list_delta<TS<Int>>(lmod)); }
            else if (cfg.elem == 's' && dict)
            {
                in_deltas.emplace_back(static_node_detail::build_dict_delta<Int, TSS<Int>>(kmodified, removed));
            }
            else if (cfg.elem == 's') { in_deltas.emplace_back(static_node_detail::build_list_delta<TSS<Int>>(klmod)); }
            else if (dict)
            {
                in_deltas.emplace_back(static_node_detail::build_dict_delta<Int, TSD<Int, TS<Int>>>(kmodified, removed));
            }
            else { in_deltas.emplace_back(static_node_detail::build_list_delta<TSD<Int, TS<Int>>>(klmod)); }
            z_deltas.push_back(std::move(z));
        }
        testing::set_replay_deltas(gb.global_state(), "hgv::in", in_deltas);
        if (cfg.zero && cfg.zero_ts) { testing::set_replay_deltas(gb.global_state(), "hgv::zero", z_deltas); }

        eval_log().clear();
        Obs obs;
        GraphExecutorBuilder eb;
        eb.graph_builder(std::move(gb))
            .start_time(MIN_ST)
            .end_time(MIN_ST + TimeDelta{static_cast<std::int64_t>(cycles.size()) + 2});
        eb.add_lifecycle_observer(&obs);
        GraphExecutorValue executor = eb.make_executor();
        auto               view     = executor.view();
        view.run();

        auto recorded = testing::get_recorded_deltas(view.graph().global_state(), "hgv::out");
        std::vector<std::string> lines;
        CycleObs last;
        for (std::size_t i = 0; i < cycles.size(); ++i)
        {
            const bool have = i < obs.cycles.size() && obs.cycles[i].seen;
            std::ostringstream s;
            const bool rec = i < recorded.size() && recorded[i].has_value();
            if (!have)
            {
                if (rec) { s << "err:record-without-evaluation"; } else { s << "idle"; }
                lines.push_back(s.str());
                continue;
            }
            const CycleObs &o = obs.cycles[i];
            last = o;
            s << "rec=";
            if (rec) { s << canon(recorded[i]->view()); } else { s << "-"; }
            s << fmt_tail(o) << " mod=" << (o.modified ? 1 : 0) << fmt_tree(o) << fmt_evals(cfg, o);
            lines.push_back(s.str());
        }
        for (std::size_t i = cycles.size(); i < std::max(recorded.size(), obs.cycles.size()); ++i)
        {
            if ((i < recorded.size() && recorded[i].has_value()) || (i < obs.cycles.size() && obs.cycles[i].seen))
            {
                lines.push_back("err:activity-after-history");
                return lines;
            }
        }
        // final state, read after the run (the graph is stopped but still alive)
        lines.push_back("end" + fmt_tail(last) + fmt_tree(last));
        return lines;
    }
}  // namespace

int main()
{
    std::ios::sync_with_stdio(false);
    hgraph::stdlib::register_standard_operators();

    Cfg                           cfg;
    std::vector<std::vector<Op>>  cycles;
    std::vector<std::string>      pending;  // answers owed for lines that precede the run
    bool                          cfg_bad = false;

    auto flush = [&](bool with_run_line) {
        if (cycles.empty() && !with_run_line) { return; }
        std::vector<std::string> lines;
        try
        {
            if (cfg_bad) { throw std::invalid_argument("cfg"); }
            lines = run_history(cfg, cycles);
        }
        catch (const OperatorResolutionError &) { lines.assign(cycles.size() + 1, "err:resolution"); }
        catch (const std::invalid_argument &) { lines.assign(cycles.size() + 1, "err:invalid-argument"); }
        catch (const std::exception &e) { lines.assign(cycles.size() + 1, std::string{"err:exception"}); }
        if (lines.size() != cycles.size() + 1) { lines.resize(cycles.size() + 1, lines.empty() ? "err:short" : lines.back()); }
        for (std::size_t i = 0; i < cycles.size(); ++i) { std::cout << lines[i] << "\n"; }
        if (with_run_line) { std::cout << lines.back() << "\n"; }
        cycles.clear();
    };

    std::string line;
    while (std::getline(std::cin, line))
    {
        auto w = split(line);
        if (w.empty()) { flush(false); std::cout << "\n"; continue; }
        const std::string &op = w[0];
        try
        {
            if (op == "case")
            {
                flush(false);
                cfg = Cfg{};
                cfg_bad = false;
                std::cout << line << "\n";
            }
            else if (op == "cfg" && w.size() == 4)
            {
                flush(false);
                Cfg c;
                bool ok = true;
                std::string kind = w[1];
                if (kind.size() > 2 && kind[kind.size() - 2] == ':')
                {
                    c.elem = kind.back();
                    ok     = c.elem == 's' || c.elem == 'd';
                    kind   = kind.substr(0, kind.size() - 2);
                }
                if (kind == "tsd" || kind == "dtsl") { c.kind = kind; }
                else if (kind.rfind("tsl", 0) == 0 && kind.size() > 3)
                {
                    c.kind = "tsl";
                    c.size = static_cast<std::size_t>(to_i(kind.substr(3)));
                    ok     = ok && c.size >= 1 && c.size <= 64 && c.elem != 'd';
                }
                else { ok = false; }
                if (c.elem == 'i' && (w[2] == "add" || w[2] == "graph" || w[2] == "node" || w[2] == "max")) { c.comb = w[2]; }
                else if (c.elem != 'i' && (w[2] == "union" || w[2] == "ugraph")) { c.comb = w[2]; }
                else { ok = false; }
                if (w[3] == "none") { c.zero = false; }
                else if (w[3] == "ts") { c.zero = true; c.zero_ts = true; }
                else if (c.elem == 's' && w[3][0] == 'e')
                {
                    c.zero = true;
                    for (const auto &[k, v] : parse_items(w[3].size() > 1 ? w[3].substr(1) : "-", false)) { c.zero_set.push_back(k); }
                }
                else if (c.elem == 'i') { c.zero = true; c.zero_value = to_i(w[3]); }
                else { ok = false; }
                if (ok) { cfg = c; cfg_bad = false; std::cout << "ok\n"; }
                else { cfg_bad = true; std::cout << "bad-op\n"; }
            }
            else if (op == "c")
            {
                std::vector<Op> ops;
                bool            ok = true;
                for (std::size_t i = 1; i < w.size() && ok;)
                {
                    if (w[i] == "set" && i + 2 < w.size() && cfg.elem != 'i')
                    {
                        ops.push_back({'s', to_i(w[i + 1]), 0, parse_items(w[i + 2], cfg.elem == 'd')});
                        i += 3;
                    }
                    else if (w[i] == "z" && i + 1 < w.size() && cfg.elem != 'i')
                    {
                        ops.push_back({'z', 0, 0, parse_items(w[i + 1], cfg.elem == 'd')});
                        i += 2;
                    }
                    else if (w[i] == "set" && i + 2 < w.size()) { ops.push_back({'s', to_i(w[i + 1]), to_i(w[i + 2])}); i += 3; }
                    else if (w[i] == "del" && i + 1 < w.size()) { ops.push_back({'d', to_i(w[i + 1]), 0}); i += 2; }
                    else if (w[i] == "z" && i + 1 < w.size()) { ops.push_back({'z', 0, to_i(w[i + 1])}); i += 2; }
                    else if (w[i] == "tick") { ops.push_back({'t', 0, 0}); i += 1; }
                    else { ok = false; }
                }
                if (!ok) { flush(false); std::cout << "bad-op\n"; }
                else { cycles.push_back(std::move(ops)); }
            }
            else if (op == "run") { flush(true); }
            else { flush(false); std::cout << "bad-op\n"; }
        }
        catch (const std::exception &) { flush(false); std::cout << "bad-op\n"; }
    }
    flush(false);
    return 0;
}
