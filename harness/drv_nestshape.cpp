// hgv_nestshape: structured-boundary stream of C09 (a sub-graph behaves the same inlined or nested, at any depth).
//
// One sub-graph definition G (result shape R, argument shapes A..., per-leaf tick rules) is attached to the same outer
// graph in several wiring modes -- inlined (wire<G>), nested_<G> at depth 1..4, nested inside a wrapper graph that holds
// another node -- and a recorder on the OUTER result logs per engine cycle the DELTA (which leaves ticked with which
// values) and the full value.  Every mode is run from the same case lines, so a monitor can compare them.
//
// Line protocol (exactly one output line per input line):
//   case <n>                                   -> "case <n>"
//   def <res> <args> <style> <timer> <rule>..  -> "ok leaves=<L> chans=<C>" | "bad-op"
//        res   : ts b2 b3 b4 l2 l3 l4 bl lb      TS<Int> | TSB{f0..} of 2-4 | TSL<TS<Int>,2-4> | TSB{a,l:TSL2} | TSL<TSB{f0,f1},2>
//        args  : s1 s2 s3 ab al bs               1-3 scalars | a bundle TSB{f0,f1} | a list TSL2 | bundle + scalar
//                                                 (input channels: scalars one each; bundle / list two each, in order);
//                                                 only the (res, args) pairs of k_pairs are instantiated
//                cf cr cl cs cn xf sc            the body's inputs are CAPTURED outer ports (no declared argument; sc:
//                                                 one declared scalar, then two captured): cf / cr two fields of one
//                                                 outer TSB node (order f0,f1 / f1,f0), cl two elements of one outer TSL
//                                                 node, cs the same field twice, cn one field each of two nodes, xf as cf
//                                                 through context::scope / context::get; results ts b2 l3 (sc: b3);
//                                                 style pass = the second captured port is the result
//                <form><code>                    TWINS: the body applies the same node type to two elements of ONE
//                                                 structured parameter, the rules read the two twin outputs.  form: tl /
//                                                 tb = one peered TSL / TSB output, il / ib = a structural {a, b}
//                                                 initializer over two scalar writers, t2 = two separate scalar parameters
//                                                 (control); code: i ident+ident, e echo(2)+echo(2) (self-scheduling),
//                                                 m ident+echo (different node types), k echo(2)+echo(3) (different
//                                                 scalars); results l3 (l2 / b2 for tl il / tb ib with codes i e); style
//                                                 pass (l2, b2) = the parameter is returned unchanged
//                rs                              result ts: the terminal is a REF-producing selector exposed as a plain
//                                                 result; channels pick (0 = lhs, else rhs), lhs, rhs; style node only
//                P<tree>@<view>[,<view>[,<view>]] ONE structured parameter whose outer argument is ASSEMBLED, to any depth of
//                                                 the schema vocabulary k_path_sigs, from separate sources (to_tsl / to_tsb of
//                                                 to_tsl / to_tsb ..):  tree := s | l[tree..] | b[tree..] | L[tree..] | B[tree..]
//                                                 s = a scalar writer, l / b = a TSL / TSB assembled structurally from its
//                                                 children, L / B = ONE peered writer node with that (structured) output (its
//                                                 descendants are written in lower case: schema only).  One history column per
//                                                 scalar leaf, depth-first.  The body consumes 1-3 views of the parameter:
//                                                 view := w (the whole parameter) | i[.j[.k]] (tsl_element / field projections);
//                                                 a view is a scalar leaf or an inner structure consumed WHOLE by the body node;
//                                                 the body's input channels are the leaves of the views in order (gate: the
//                                                 first view).  Allowed view lists: 1-3 scalars | one structure l[ss] b[ss]
//                                                 l[sss] or w | l[ss] / b[ss] and one scalar in either order.  result l3, style
//                                                 node only.  fields of the bundles are f0 f1 f2 (positional)
//        style : node   result = the output of one body node (node-owned structure)
//                sink   as node, after a (gated) sink on the first argument (the terminal is not child node 0)
//                proj   the body node's output is TSB{h, r:R}; the sub-graph returns the field r (non-empty source path)
//                pass   the sub-graph returns its first argument unchanged (needs res == shape of the first argument)
//                comp   result = stdlib::to_tsb / to_tsl of one scalar node per leaf (a freshly COMPOSED structure)
//        timer : t0 (none) | e<p> (armed at the body's first evaluation, period p) | s<o>,<p> (armed in start() for
//                time MIN_ST+o, then period p); a timer that fires while the body's gate is closed is not re-armed
//        rule  : one per leaf  <trigger><value>
//                trigger A (any input channel ticked)  K<j> (channel j ticked)  O<j> (channel j ticked with an odd value)
//                        F (first evaluation of the body only)  T (the timer fired)  N (never)
//                value   x<j> (current value of channel j, 0 while unset)  n (tick count of this leaf)
//                        a (sum of all channel values ticked so far)  k<c> (constant)
//        the body is gated by its first argument being valid (a bundle / list is valid once one element is); the
//        other arguments are unchecked
//   c <v0|-> [<v1|-> [<v2|->]]                 -> "ok"    inputs of the cycle at time MIN_ST + (number of earlier c lines)
//   run <mode>                                 -> "ok cyc=<t,..> | <t> d={..} v={..} g={..} | ..."   or "err:<class>"
//        mode  : inl | n1 | n2 | n3 | n4 (nested_ at that depth) | nw (nested in a wrapper graph that holds a sink, depth 2)
//                s<d>@<k>: LATE start - the definition lives in a switch_ branch that is selected at cycle k (its arguments
//                may already be valid); d = 0 inlined in the branch (the reference), d = 1, 2 nested_ at that depth inside
//                the branch; only for ts:s1 b2:s2 l3:s2 b3:s3 with style node / sink / proj
//        cyc   : times of the root engine cycles;  then one entry per cycle in which the outer recorder was evaluated:
//                d = leaves that ticked AND have a value (leaf=value, leaf order), v = valid leaves,
//                g = leaves that report modified() although they have no value
//   HGV_NESTSHAPE_DV=1 (investigation aid, not part of the protocol): every entry also shows m=<root modified()> and
//   dv=<what the dense recorder captures: capture_delta / delta_is_observable>
#include "hgv_common.h"

#include <hgraph/lib/std/std_operators.h>
#include <hgraph/lib/std/operators/collection.h>
#include <hgraph/runtime/runtime.h>
#include <hgraph/types/context_wiring.h>
#include <hgraph/types/graph_wiring.h>
#include <hgraph/types/static_node.h>
#include <hgraph/types/subgraph_wiring.h>
#include <hgraph/types/time_series/ts_delta.h>

#include <algorithm>
#include <cstdlib>
#include <map>
#include <optional>
#include <set>
#include <stdexcept>

using namespace hgraph;
using namespace hgv;

namespace
{
    // ------------------------------------------------------------------ shapes
    using L    = TS<Int>;
    using R_ts = TS<Int>;
    using R_b2 = UnNamedTSB<Field<"f0", L>, Field<"f1", L>>;
    using R_b3 = UnNamedTSB<Field<"f0", L>, Field<"f1", L>, Field<"f2", L>>;
    using R_b4 = UnNamedTSB<Field<"f0", L>, Field<"f1", L>, Field<"f2", L>, Field<"f3", L>>;
    using R_l2 = TSL<L, 2>;
    using R_l3 = TSL<L, 3>;
    using R_l4 = TSL<L, 4>;
    using R_bl = UnNamedTSB<Field<"a", L>, Field<"l", R_l2>>;
    using R_lb = TSL<R_b2, 2>;

    using Toks = std::vector<std::string>;
    std::string pv(int p, std::int64_t v) { return std::to_string(p) + "=" + std::to_string(v); }
    std::string braces(const Toks &t)
    {
        std::string s = "{";
        for (std::size_t i = 0; i < t.size(); ++i) { s += (i ? "," : "") + t[i]; }
        return s + "}";
    }
    Toks g_ghost;   // leaves that report modified() while not valid (collected by `leaf`)
    template <typename I> void leaf(const I &in, int p, Toks &d, Toks &v)
    {
        if (in.modified())
        {
            if (in.valid()) { d.push_back(pv(p, in.value())); }
            else { g_ghost.push_back(std::to_string(p)); }
        }
        if (in.valid()) { v.push_back(pv(p, in.value())); }
    }

    // generic structure of a schema: children by position (TSL elements / TSB fields), scalar leaves depth-first
    template <typename T> struct Kids { static constexpr std::size_t n = 0; static constexpr char kind = 's'; };
    template <typename E, auto N> struct Kids<TSL<E, N>>
    {
        static constexpr std::size_t n = static_cast<std::size_t>(N);
        static constexpr char        kind = 'l';
        template <std::size_t> using at = E;
    };
    template <typename... F> struct Kids<UnNamedTSB<F...>>
    {
        static constexpr std::size_t n = sizeof...(F);
        static constexpr char        kind = 'b';
        template <std::size_t I> using at = typename std::tuple_element_t<I, std::tuple<F...>>::schema;
    };
    template <typename T> constexpr int leaf_count()
    {
        if constexpr (Kids<T>::n == 0) { return 1; }
        else
        {
            return []<std::size_t... I>(std::index_sequence<I...>) {
                return (0 + ... + leaf_count<typename Kids<T>::template at<I>>());
            }(std::make_index_sequence<Kids<T>::n>{});
        }
    }
    // the schema written in the tree syntax of the P<tree> argument form (lower case)
    template <typename T> std::string sig_of()
    {
        if constexpr (Kids<T>::n == 0) { return "s"; }
        else
        {
            std::string s(1, Kids<T>::kind);
            s += "[";
            [&]<std::size_t... I>(std::index_sequence<I...>) { ((s += sig_of<typename Kids<T>::template at<I>>()), ...); }(
                std::make_index_sequence<Kids<T>::n>{});
            return s + "]";
        }
    }
    // set scalar leaf j (depth-first) of an output of schema T
    template <typename T, typename O> void set_leaf(const O &out, int j, Int x)
    {
        if constexpr (Kids<T>::n == 0) { out.set(x); }
        else
        {
            [&]<std::size_t... I>(std::index_sequence<I...>) {
                int off = 0;
                (
                    [&] {
                        using K         = typename Kids<T>::template at<I>;
                        constexpr int n = leaf_count<K>();
                        if (j >= off && j < off + n) { set_leaf<K>(Out<K>{out.at(I), out.evaluation_time()}, j - off, x); }
                        off += n;
                    }(),
                    ...);
            }(std::make_index_sequence<Kids<T>::n>{});
        }
    }

    // the result shapes are specialised below; any other schema (structured ARGUMENTS) is written leaf by leaf
    template <typename R> struct Shape
    {
        static constexpr int leaves = leaf_count<R>();
        template <typename O> static void set(const O &out, int i, Int v) { set_leaf<R>(out, i, v); }
    };
    template <> struct Shape<R_ts>
    {
        static constexpr int leaves = 1;
        template <typename O> static void set(const O &out, int, Int v) { out.set(v); }
        template <typename I> static void describe(const I &in, Toks &d, Toks &v) { leaf(in, 0, d, v); }
    };
    template <> struct Shape<R_b2>
    {
        static constexpr int leaves = 2;
        template <typename O> static void set(const O &out, int i, Int v)
        {
            if (i == 0) { out.template field<"f0">().set(v); } else { out.template field<"f1">().set(v); }
        }
        template <typename I> static void describe(const I &in, Toks &d, Toks &v, int base = 0)
        {
            leaf(in.template field<"f0">(), base, d, v);
            leaf(in.template field<"f1">(), base + 1, d, v);
        }
    };
    template <> struct Shape<R_b3>
    {
        static constexpr int leaves = 3;
        template <typename O> static void set(const O &out, int i, Int v)
        {
            if (i == 0) { out.template field<"f0">().set(v); }
            else if (i == 1) { out.template field<"f1">().set(v); }
            else { out.template field<"f2">().set(v); }
        }
        template <typename I> static void describe(const I &in, Toks &d, Toks &v)
        {
            leaf(in.template field<"f0">(), 0, d, v);
            leaf(in.template field<"f1">(), 1, d, v);
            leaf(in.template field<"f2">(), 2, d, v);
        }
    };
    template <> struct Shape<R_b4>
    {
        static constexpr int leaves = 4;
        template <typename O> static void set(const O &out, int i, Int v)
        {
            if (i == 0) { out.template field<"f0">().set(v); }
            else if (i == 1) { out.template field<"f1">().set(v); }
            else if (i == 2) { out.template field<"f2">().set(v); }
            else { out.template field<"f3">().set(v); }
        }
        template <typename I> static void describe(const I &in, Toks &d, Toks &v)
        {
            leaf(in.template field<"f0">(), 0, d, v);
            leaf(in.template field<"f1">(), 1, d, v);
            leaf(in.template field<"f2">(), 2, d, v);
            leaf(in.template field<"f3">(), 3, d, v);
        }
    };
    template <auto N> struct Shape<TSL<L, N>>
    {
        static constexpr int leaves = static_cast<int>(N);
        template <typename O> static void set(const O &out, int i, Int v) { out[static_cast<std::size_t>(i)].set(v); }
        template <typename I> static void describe(const I &in, Toks &d, Toks &v, int base = 0)
        {
            for (std::size_t i = 0; i < static_cast<std::size_t>(N); ++i) { leaf(in[i], base + static_cast<int>(i), d, v); }
        }
    };
    template <> struct Shape<R_bl>
    {
        static constexpr int leaves = 3;
        template <typename O> static void set(const O &out, int i, Int v)
        {
            if (i == 0) { out.template field<"a">().set(v); }
            else { out.template field<"l">()[static_cast<std::size_t>(i - 1)].set(v); }
        }
        template <typename I> static void describe(const I &in, Toks &d, Toks &v)
        {
            leaf(in.template field<"a">(), 0, d, v);
            Shape<R_l2>::describe(in.template field<"l">(), d, v, 1);
        }
    };
    template <> struct Shape<R_lb>
    {
        static constexpr int leaves = 4;
        template <typename O> static void set(const O &out, int i, Int v)
        {
            Shape<R_b2>::set(out[static_cast<std::size_t>(i / 2)], i % 2, v);
        }
        template <typename I> static void describe(const I &in, Toks &d, Toks &v)
        {
            Shape<R_b2>::describe(in[0], d, v, 0);
            Shape<R_b2>::describe(in[1], d, v, 2);
        }
    };

    // ------------------------------------------------------------------ the case: definition + history (read by the nodes)
    struct Rule { char trig = 'N'; int tj = 0; char val = 'k'; std::int64_t vj = 0; };
    struct Def
    {
        std::string       res, args, style;
        char              timer = '0';   // '0' none, 'e' armed at first evaluation, 's' armed in start
        std::int64_t      t_off = 0, t_per = 1;
        std::vector<Rule> rules;
        int               chans = 0;    // history columns (input channels of the outer writers)
        int               bch   = 0;    // input channels of the body (cs: two body inputs read the one column)
    };
    Def                                                g_def;
    constexpr int                                      k_maxch = 8;   // history columns / body input channels
    std::vector<std::array<std::optional<Int>, k_maxch>> g_hist;   // per cycle, per channel
    constexpr std::int64_t                             k_start = 1;

    // per-run state of the body nodes (reset before every run): slot 0 = the one body node, slots 0..3 = the per-leaf nodes
    struct St { bool evaluated = false; std::int64_t acc = 0; std::int64_t count[4] = {0, 0, 0, 0}; };
    St g_st[4];

    struct Chans { int n = 0; bool tick[k_maxch] = {}; bool valid[k_maxch] = {}; Int val[k_maxch] = {}; };

    // any other schema: the scalar leaves depth-first
    template <typename A> struct Chan
    {
        static constexpr int n = leaf_count<A>();
        template <typename I> static void read(const I &in, Chans &c)
        {
            [&]<std::size_t... K>(std::index_sequence<K...>) {
                (Chan<typename Kids<A>::template at<K>>::read(In<"", typename Kids<A>::template at<K>>{in.at(K)}, c), ...);
            }(std::make_index_sequence<Kids<A>::n>{});
        }
    };
    template <> struct Chan<L>
    {
        static constexpr int n = 1;
        template <typename I> static void read(const I &in, Chans &c)
        {
            c.tick[c.n] = in.modified(); c.valid[c.n] = in.valid(); c.val[c.n] = in.valid() ? in.value() : Int{0}; ++c.n;
        }
    };
    template <> struct Chan<R_b2>
    {
        static constexpr int n = 2;
        template <typename I> static void read(const I &in, Chans &c)
        {
            Chan<L>::read(in.template field<"f0">(), c);
            Chan<L>::read(in.template field<"f1">(), c);
        }
    };
    template <> struct Chan<R_l2>
    {
        static constexpr int n = 2;
        template <typename I> static void read(const I &in, Chans &c)
        {
            Chan<L>::read(in[0], c);
            Chan<L>::read(in[1], c);
        }
    };

    // one evaluation of a body node: leaves [lo, hi) follow their rules; `slot` selects the node's private state
    template <typename SetLeaf>
    void body_step(NodeScheduler &sched, const Chans &c, int slot, int lo, int hi, SetLeaf set_leaf)
    {
        St        &st    = g_st[slot];
        const bool first = !st.evaluated;
        const bool fired = g_def.timer != '0' && sched.is_scheduled_now();
        st.evaluated     = true;
        bool any = false;
        for (int j = 0; j < c.n; ++j)
        {
            if (c.tick[j]) { any = true; st.acc += c.val[j]; }
        }
        for (int i = lo; i < hi; ++i)
        {
            const Rule &r = g_def.rules[static_cast<std::size_t>(i)];
            bool        t = false;
            switch (r.trig)
            {
                case 'A': t = any; break;
                case 'K': t = c.tick[r.tj]; break;
                case 'O': t = c.tick[r.tj] && (c.val[r.tj] % 2 != 0); break;
                case 'F': t = first; break;
                case 'T': t = fired; break;
                default: break;
            }
            if (!t) { continue; }
            std::int64_t v = 0;
            switch (r.val)
            {
                case 'x': v = c.val[r.vj]; break;
                case 'n': v = ++st.count[i]; break;
                case 'a': v = st.acc; break;
                default: v = r.vj; break;
            }
            if (r.val != 'n') { ++st.count[i]; }
            set_leaf(i, Int{v});
        }
        if (g_def.timer != '0' && (fired || (first && g_def.timer == 'e')))
        {
            sched.schedule(sched.now() + TimeDelta{g_def.t_per});
        }
    }
    void body_start(NodeScheduler &sched)
    {
        if (g_def.timer == 's') { sched.schedule(dt(k_start + g_def.t_off)); }
    }

    // ------------------------------------------------------------------ body nodes (1, 2, 3 arguments)
    template <typename R> using WithHead = UnNamedTSB<Field<"h", L>, Field<"r", R>>;

    template <typename R, typename A0> struct Body1
    {
        static constexpr auto name = "nestshape_body1";
        static void           start(NodeScheduler sched) { body_start(sched); }
        static void           eval(NodeScheduler sched, In<"a0", A0> a0, Out<R> out)
        {
            Chans c; Chan<A0>::read(a0, c);
            body_step(sched, c, 0, 0, Shape<R>::leaves, [&](int i, Int v) { Shape<R>::set(out, i, v); });
        }
    };
    template <typename R, typename A0, typename A1> struct Body2
    {
        static constexpr auto name = "nestshape_body2";
        static void           start(NodeScheduler sched) { body_start(sched); }
        static void           eval(NodeScheduler sched, In<"a0", A0> a0, In<"a1", A1, InputValidity::Unchecked> a1, Out<R> out)
        {
            Chans c; Chan<A0>::read(a0, c); Chan<A1>::read(a1, c);
            body_step(sched, c, 0, 0, Shape<R>::leaves, [&](int i, Int v) { Shape<R>::set(out, i, v); });
        }
    };
    template <typename R, typename A0, typename A1, typename A2> struct Body3
    {
        static constexpr auto name = "nestshape_body3";
        static void           start(NodeScheduler sched) { body_start(sched); }
        static void           eval(NodeScheduler sched, In<"a0", A0> a0, In<"a1", A1, InputValidity::Unchecked> a1,
                                   In<"a2", A2, InputValidity::Unchecked> a2, Out<R> out)
        {
            Chans c; Chan<A0>::read(a0, c); Chan<A1>::read(a1, c); Chan<A2>::read(a2, c);
            body_step(sched, c, 0, 0, Shape<R>::leaves, [&](int i, Int v) { Shape<R>::set(out, i, v); });
        }
    };
    // the same bodies with a head field in front of the result (the sub-graph returns the projection r)
    template <typename R, typename A0> struct BodyP1
    {
        static constexpr auto name = "nestshape_bodyp1";
        static void           start(NodeScheduler sched) { body_start(sched); }
        static void           eval(NodeScheduler sched, In<"a0", A0> a0, Out<WithHead<R>> out)
        {
            Chans c; Chan<A0>::read(a0, c);
            out.template field<"h">().set(Int{us(sched.now())});
            auto r = out.template field<"r">();
            body_step(sched, c, 0, 0, Shape<R>::leaves, [&](int i, Int v) { Shape<R>::set(r, i, v); });
        }
    };
    template <typename R, typename A0, typename A1> struct BodyP2
    {
        static constexpr auto name = "nestshape_bodyp2";
        static void           start(NodeScheduler sched) { body_start(sched); }
        static void           eval(NodeScheduler sched, In<"a0", A0> a0, In<"a1", A1, InputValidity::Unchecked> a1,
                                   Out<WithHead<R>> out)
        {
            Chans c; Chan<A0>::read(a0, c); Chan<A1>::read(a1, c);
            out.template field<"h">().set(Int{us(sched.now())});
            auto r = out.template field<"r">();
            body_step(sched, c, 0, 0, Shape<R>::leaves, [&](int i, Int v) { Shape<R>::set(r, i, v); });
        }
    };
    template <typename R, typename A0, typename A1, typename A2> struct BodyP3
    {
        static constexpr auto name = "nestshape_bodyp3";
        static void           start(NodeScheduler sched) { body_start(sched); }
        static void           eval(NodeScheduler sched, In<"a0", A0> a0, In<"a1", A1, InputValidity::Unchecked> a1,
                                   In<"a2", A2, InputValidity::Unchecked> a2, Out<WithHead<R>> out)
        {
            Chans c; Chan<A0>::read(a0, c); Chan<A1>::read(a1, c); Chan<A2>::read(a2, c);
            out.template field<"h">().set(Int{us(sched.now())});
            auto r = out.template field<"r">();
            body_step(sched, c, 0, 0, Shape<R>::leaves, [&](int i, Int v) { Shape<R>::set(r, i, v); });
        }
    };
    // one scalar node per leaf (composed results)
    template <typename A0> struct Leaf1
    {
        static constexpr auto name = "nestshape_leaf1";
        static void           start(NodeScheduler sched, Scalar<"leaf", Int> lf) { body_start(sched); }
        static void           eval(NodeScheduler sched, In<"a0", A0> a0, Scalar<"leaf", Int> lf, Out<L> out)
        {
            Chans c; Chan<A0>::read(a0, c);
            const int i = static_cast<int>(lf.value());
            body_step(sched, c, i, i, i + 1, [&](int, Int v) { out.set(v); });
        }
    };
    template <typename A0, typename A1> struct Leaf2
    {
        static constexpr auto name = "nestshape_leaf2";
        static void           start(NodeScheduler sched, Scalar<"leaf", Int> lf) { body_start(sched); }
        static void           eval(NodeScheduler sched, In<"a0", A0> a0, In<"a1", A1, InputValidity::Unchecked> a1,
                                   Scalar<"leaf", Int> lf, Out<L> out)
        {
            Chans c; Chan<A0>::read(a0, c); Chan<A1>::read(a1, c);
            const int i = static_cast<int>(lf.value());
            body_step(sched, c, i, i, i + 1, [&](int, Int v) { out.set(v); });
        }
    };
    template <typename A0, typename A1, typename A2> struct Leaf3
    {
        static constexpr auto name = "nestshape_leaf3";
        static void           start(NodeScheduler sched, Scalar<"leaf", Int> lf) { body_start(sched); }
        static void           eval(NodeScheduler sched, In<"a0", A0> a0, In<"a1", A1, InputValidity::Unchecked> a1,
                                   In<"a2", A2, InputValidity::Unchecked> a2, Scalar<"leaf", Int> lf, Out<L> out)
        {
            Chans c; Chan<A0>::read(a0, c); Chan<A1>::read(a1, c); Chan<A2>::read(a2, c);
            const int i = static_cast<int>(lf.value());
            body_step(sched, c, i, i, i + 1, [&](int, Int v) { out.set(v); });
        }
    };

    template <typename R, typename... As> struct BodyOf;
    template <typename R, typename A0> struct BodyOf<R, A0> { using node = Body1<R, A0>; using proj = BodyP1<R, A0>; using leafn = Leaf1<A0>; };
    template <typename R, typename A0, typename A1> struct BodyOf<R, A0, A1> { using node = Body2<R, A0, A1>; using proj = BodyP2<R, A0, A1>; using leafn = Leaf2<A0, A1>; };
    template <typename R, typename A0, typename A1, typename A2> struct BodyOf<R, A0, A1, A2> { using node = Body3<R, A0, A1, A2>; using proj = BodyP3<R, A0, A1, A2>; using leafn = Leaf3<A0, A1, A2>; };

    struct NullSink
    {
        static constexpr auto name = "nestshape_sink";
        template <typename A> struct For
        {
            static constexpr auto name = "nestshape_sink";
            static void           eval(In<"x", A>) {}   // gated on its input: no sampled evaluation at child start (finding F2)
        };
    };

    // composed results: only for the flat shapes
    template <typename R> struct Compose { static constexpr bool ok = false; };
    template <> struct Compose<R_b2> { static constexpr bool ok = true; template <typename... P> static Port<R_b2> make(Wiring &w, const P &...p) { return stdlib::to_tsb<R_b2>(w, p...); } };
    template <> struct Compose<R_b3> { static constexpr bool ok = true; template <typename... P> static Port<R_b3> make(Wiring &w, const P &...p) { return stdlib::to_tsb<R_b3>(w, p...); } };
    template <> struct Compose<R_b4> { static constexpr bool ok = true; template <typename... P> static Port<R_b4> make(Wiring &w, const P &...p) { return stdlib::to_tsb<R_b4>(w, p...); } };
    template <auto N> struct Compose<TSL<L, N>>
    {
        static constexpr bool ok = true;
        template <typename... P> static Port<TSL<L, N>> make(Wiring &w, const P &...p) { return stdlib::to_tsl<TSL<L, N>>(w, p...).template as<TSL<L, N>>(); }
    };

    enum Style : std::int64_t { ST_NODE = 0, ST_SINK = 1, ST_PROJ = 2, ST_PASS = 3, ST_COMP = 4 };

    // ------------------------------------------------------------------ the sub-graph definition
    template <typename R, typename A0, typename... As> struct G
    {
        static constexpr auto name = "nestshape_g";
        static Port<R>        compose(Wiring &w, Port<A0> a0, Port<As>... as, Scalar<"style", Int> style)
        {
            using B = BodyOf<R, A0, As...>;
            const auto st = style.value();
            if (st == ST_PASS)
            {
                if constexpr (std::is_same_v<R, A0>) { return a0; }
                else { throw std::logic_error("pass needs matching shapes"); }
            }
            if (st == ST_COMP)
            {
                if constexpr (Compose<R>::ok)
                {
                    return [&]<std::size_t... I>(std::index_sequence<I...>) {
                        return Compose<R>::make(w, wire<typename B::leafn>(w, a0, as..., Int{static_cast<std::int64_t>(I)}).template as<L>()...);
                    }(std::make_index_sequence<static_cast<std::size_t>(Shape<R>::leaves)>{});
                }
                else { throw std::logic_error("comp needs a flat shape"); }
            }
            if (st == ST_PROJ)
            {
                auto whole = wire<typename B::proj>(w, a0, as...);
                return Port<R>{w, subgraph_wiring_detail::tsb_field_ref(whole.erased(), 1, schema_descriptor<R>::ts_meta())};
            }
            if (st == ST_SINK) { wire<typename NullSink::template For<A0>>(w, a0); }
            return wire<typename B::node>(w, a0, as...);
        }
    };

    // depth: Deep<G> attaches itself as a nested child until the remaining depth is 0, then inlines G
    template <typename R, typename A0, typename... As> struct Deep
    {
        static constexpr auto name = "nestshape_deep";
        static Port<R>        compose(Wiring &w, Port<A0> a0, Port<As>... as, Scalar<"style", Int> style, Scalar<"depth", Int> depth)
        {
            if (depth.value() <= 0) { return wire<G<R, A0, As...>>(w, a0, as..., Int{style.value()}); }
            return nested_<Deep<R, A0, As...>>(w, a0, as..., Int{style.value()}, Int{depth.value() - 1});
        }
    };
    // wrapper: a graph holding a sink on the first argument and the nested sub-graph (nested itself by the top level)
    template <typename R, typename A0, typename... As> struct Wrap
    {
        static constexpr auto name = "nestshape_wrap";
        static Port<R>        compose(Wiring &w, Port<A0> a0, Port<As>... as, Scalar<"style", Int> style)
        {
            wire<typename NullSink::template For<A0>>(w, a0);
            return nested_<G<R, A0, As...>>(w, a0, as..., Int{style.value()});
        }
    };

    // ------------------------------------------------------------------ sub-graphs that CAPTURE outer ports
    // The compose body references ports of the OUTER wiring (closure capture, or context::get) instead of declared
    // arguments; Wiring::finish_subgraph turns every distinct captured port into an extra boundary argument
    // (graph_wiring.cpp OuterCaptureCollector::index_for / Wiring::capture_outer_source).
    const Port<L> *g_cap[2]  = {nullptr, nullptr};   // the outer ports the body captures (body inputs after the declared ones)
    bool           g_cap_ctx = false;                // capture through context::scope<"c0"/"c1"> / context::get

    Port<L> cap(Wiring &w, int i)
    {
        if (g_cap_ctx) { return context::get<L>(w, i == 0 ? "c0" : "c1"); }
        return *g_cap[i];
    }

    template <typename R, typename B, typename P0, typename... P>
    Port<R> wire_styled(Wiring &w, std::int64_t st, const P0 &p0, const P &...ps)
    {
        if (st == ST_PROJ)
        {
            auto whole = wire<typename B::proj>(w, p0, ps...);
            return Port<R>{w, subgraph_wiring_detail::tsb_field_ref(whole.erased(), 1, schema_descriptor<R>::ts_meta())};
        }
        if (st == ST_SINK) { wire<typename NullSink::template For<L>>(w, p0); }
        return wire<typename B::node>(w, p0, ps...);
    }

    // no declared argument: the body's two inputs are the captured ports
    template <typename R> struct GC0
    {
        static constexpr auto name = "nestshape_gc0";
        static Port<R>        compose(Wiring &w, Scalar<"style", Int> style)
        {
            auto c0 = cap(w, 0);
            auto c1 = cap(w, 1);
            if (style.value() == ST_PASS)
            {
                // the result IS a captured port (captured pass-through output); both captures also feed a sink.
                // (Without a consumer inside the sub-graph the returned capture is not collected before the boundary
                // ordinals are frozen and finish_subgraph throws "discovered an outer capture after boundary ordinals
                // were finalized" - nested only; the inlined wiring of the same body is fine.)
                if constexpr (std::is_same_v<R, L>)
                {
                    wire<typename NullSink::template For<L>>(w, c0);
                    wire<typename NullSink::template For<L>>(w, c1);
                    return c1;
                }
                else { throw std::logic_error("pass needs matching shapes"); }
            }
            return wire_styled<R, BodyOf<R, L, L>>(w, style.value(), c0, c1);
        }
    };
    // one declared scalar argument, then the two captured ports
    template <typename R> struct GC1
    {
        static constexpr auto name = "nestshape_gc1";
        static Port<R>        compose(Wiring &w, Port<L> a0, Scalar<"style", Int> style)
        {
            return wire_styled<R, BodyOf<R, L, L, L>>(w, style.value(), a0, cap(w, 0), cap(w, 1));
        }
    };
    template <typename R> struct DeepC0
    {
        static constexpr auto name = "nestshape_deepc0";
        static Port<R>        compose(Wiring &w, Scalar<"style", Int> style, Scalar<"depth", Int> depth)
        {
            if (depth.value() <= 0) { return wire<GC0<R>>(w, Int{style.value()}); }
            return nested_<DeepC0<R>>(w, Int{style.value()}, Int{depth.value() - 1});
        }
    };
    template <typename R> struct DeepC1
    {
        static constexpr auto name = "nestshape_deepc1";
        static Port<R>        compose(Wiring &w, Port<L> a0, Scalar<"style", Int> style, Scalar<"depth", Int> depth)
        {
            if (depth.value() <= 0) { return wire<GC1<R>>(w, a0, Int{style.value()}); }
            return nested_<DeepC1<R>>(w, a0, Int{style.value()}, Int{depth.value() - 1});
        }
    };
    // wrapper: holds a sink on the first captured port (the wrapper captures it too) and the nested sub-graph
    template <typename R> struct WrapC0
    {
        static constexpr auto name = "nestshape_wrapc0";
        static Port<R>        compose(Wiring &w, Scalar<"style", Int> style)
        {
            wire<typename NullSink::template For<L>>(w, cap(w, 0));
            return nested_<GC0<R>>(w, Int{style.value()});
        }
    };
    template <typename R> struct WrapC1
    {
        static constexpr auto name = "nestshape_wrapc1";
        static Port<R>        compose(Wiring &w, Port<L> a0, Scalar<"style", Int> style)
        {
            wire<typename NullSink::template For<L>>(w, a0);
            return nested_<GC1<R>>(w, a0, Int{style.value()});
        }
    };

    // ------------------------------------------------------------------ twins on the elements of ONE structured parameter
    // The body applies the SAME node type with equal scalars to two same-schema elements of one structured parameter
    // (a fixed TSL / a TSB), then the rule body reads the two twin outputs.  Inside a compiled child wiring the two twin
    // nodes differ only in the PATH of their boundary source (graph_wiring.cpp source_key_for / Wiring::add_node interning).
    struct TwinIdent
    {
        static constexpr auto name = "nestshape_twin_ident";
        static void           eval(In<"v", L> v, Out<L> out) { out.set(v.value()); }
    };
    // emits the input; k steps later (woken by its own scheduler only) emits input + 100
    struct TwinEcho
    {
        static constexpr auto name = "nestshape_twin_echo";
        static void           eval(In<"v", L> v, Scalar<"k", Int> k, NodeScheduler sched, State<Int> echo, Out<L> out)
        {
            if (v.modified())
            {
                out.set(v.value());
                echo.set(Int{v.value() + 100});
                sched.schedule(TimeDelta{k.value()}, std::string{"e"});
            }
            else { out.set(echo.get()); }
        }
    };
    // twin code: i ident+ident, e echo(2)+echo(2), m ident+echo(2) (different node types: control), k echo(2)+echo(3)
    // (different scalars: control)
    Port<L> twin_node(Wiring &w, const Port<L> &in, std::int64_t code, int idx)
    {
        if (code == 'i' || (code == 'm' && idx == 0)) { return wire<TwinIdent>(w, in); }
        return wire<TwinEcho>(w, in, Int{code == 'k' && idx == 1 ? 3 : 2});
    }
    template <typename P> Port<L> elem_of(Wiring &w, const Port<P> &in, std::size_t i)
    {
        if constexpr (std::is_same_v<P, R_l2>)
        {
            return Port<L>{w, subgraph_wiring_detail::tsl_element_ref(in.erased(), i, schema_descriptor<L>::ts_meta())};
        }
        else { return Port<L>{w, subgraph_wiring_detail::tsb_field_ref(in.erased(), i, schema_descriptor<L>::ts_meta())}; }
    }
    template <typename R, typename P> struct GT1
    {
        static constexpr auto name = "nestshape_gt1";
        static Port<R>        compose(Wiring &w, Port<P> in, Scalar<"style", Int> style, Scalar<"twin", Int> twin)
        {
            if (style.value() == ST_PASS)
            {
                if constexpr (std::is_same_v<R, P>) { return in; }
                else { throw std::logic_error("pass needs matching shapes"); }
            }
            auto x = twin_node(w, elem_of<P>(w, in, 0), twin.value(), 0);
            auto y = twin_node(w, elem_of<P>(w, in, 1), twin.value(), 1);
            return wire_styled<R, BodyOf<R, L, L>>(w, style.value(), x, y);
        }
    };
    template <typename R> struct GT2   // control: the twins read two SEPARATE scalar parameters
    {
        static constexpr auto name = "nestshape_gt2";
        static Port<R>        compose(Wiring &w, Port<L> a, Port<L> b, Scalar<"style", Int> style, Scalar<"twin", Int> twin)
        {
            auto x = twin_node(w, a, twin.value(), 0);
            auto y = twin_node(w, b, twin.value(), 1);
            return wire_styled<R, BodyOf<R, L, L>>(w, style.value(), x, y);
        }
    };
    template <typename R, typename P> struct DeepT1
    {
        static constexpr auto name = "nestshape_deept1";
        static Port<R> compose(Wiring &w, Port<P> in, Scalar<"style", Int> style, Scalar<"twin", Int> twin, Scalar<"depth", Int> depth)
        {
            if (depth.value() <= 0) { return wire<GT1<R, P>>(w, in, Int{style.value()}, Int{twin.value()}); }
            return nested_<DeepT1<R, P>>(w, in, Int{style.value()}, Int{twin.value()}, Int{depth.value() - 1});
        }
    };
    template <typename R> struct DeepT2
    {
        static constexpr auto name = "nestshape_deept2";
        static Port<R> compose(Wiring &w, Port<L> a, Port<L> b, Scalar<"style", Int> style, Scalar<"twin", Int> twin, Scalar<"depth", Int> depth)
        {
            if (depth.value() <= 0) { return wire<GT2<R>>(w, a, b, Int{style.value()}, Int{twin.value()}); }
            return nested_<DeepT2<R>>(w, a, b, Int{style.value()}, Int{twin.value()}, Int{depth.value() - 1});
        }
    };

    // ------------------------------------------------------------------ a REF-producing terminal exposed as a plain result
    struct RefSel
    {
        static constexpr auto name = "nestshape_refsel";
        static void           eval(In<"pick", L> pick, In<"lhs", L, InputValidity::Unchecked> lhs,
                                   In<"rhs", L, InputValidity::Unchecked> rhs, Out<REF<L>> out)
        {
            if (pick.modified()) { out.set(pick.value() != 0 ? rhs.reference() : lhs.reference()); }
        }
    };
    struct GRefT
    {
        static constexpr auto name = "nestshape_greft";
        static Port<L>        compose(Wiring &w, Port<L> pick, Port<L> a, Port<L> b) { return wire<RefSel>(w, pick, a, b).template as<L>(); }
    };
    struct DeepRef
    {
        static constexpr auto name = "nestshape_deepref";
        static Port<L>        compose(Wiring &w, Port<L> pick, Port<L> a, Port<L> b, Scalar<"depth", Int> depth)
        {
            if (depth.value() <= 0) { return wire<GRefT>(w, pick, a, b); }
            return nested_<DeepRef>(w, pick, a, b, Int{depth.value() - 1});
        }
    };

    // ------------------------------------------------------------------ harness nodes
    std::map<std::int64_t, std::pair<std::string, std::string>> g_rec;     // time -> (delta, value)
    std::set<std::int64_t>                                      g_cycles;
    bool                                                        g_show_dv = false;   // HGV_NESTSHAPE_DV=1: investigation output

    // writer of the channels [base, base + Chan<A>::n) with output shape A
    std::size_t next_write(std::size_t from, int base, int n)
    {
        for (; from < g_hist.size(); ++from)
        {
            for (int j = base; j < base + n; ++j) { if (g_hist[from][static_cast<std::size_t>(j)].has_value()) { return from; } }
        }
        return from;
    }
    template <typename A> struct Writer
    {
        static constexpr auto name = "nestshape_writer";
        static void           start(NodeScheduler sched, Scalar<"base", Int> base, Scalar<"n", Int> n)
        {
            const std::size_t i = next_write(0, static_cast<int>(base.value()), static_cast<int>(n.value()));
            if (i < g_hist.size()) { sched.schedule(dt(k_start + static_cast<std::int64_t>(i))); }
        }
        // writes the first `n` leaves of its output from the history columns [base, base + n)
        static void eval(NodeScheduler sched, Scalar<"base", Int> base, Scalar<"n", Int> n, Out<A> out)
        {
            const int  b = static_cast<int>(base.value());
            const int  cols = static_cast<int>(n.value());
            const auto i = static_cast<std::size_t>(us(sched.now()) - k_start);
            if (i < g_hist.size())
            {
                for (int j = 0; j < cols; ++j)
                {
                    const auto &v = g_hist[i][static_cast<std::size_t>(b + j)];
                    if (!v.has_value()) { continue; }
                    if constexpr (std::is_same_v<A, L>) { out.set(*v); }
                    else { Shape<A>::set(out, j, *v); }
                }
            }
            const std::size_t k = next_write(i + 1, b, cols);
            if (k < g_hist.size()) { sched.schedule(dt(k_start + static_cast<std::int64_t>(k))); }
        }
    };

    template <typename R> struct Recorder
    {
        static constexpr auto name = "nestshape_recorder";
        static void           eval(DateTime now, In<"x", R, InputValidity::Unchecked> x)
        {
            Toks d, v;
            g_ghost.clear();
            Shape<R>::describe(x, d, v);
            std::string val = braces(v) + " g=" + braces(g_ghost);
            if (g_show_dv)
            {
                std::string dv = "-";
                if (x.modified())
                {
                    Value delta = capture_delta(x.base());
                    dv = delta_is_observable(x.base(), delta.view()) ? delta.to_string() : "unobservable:" + delta.to_string();
                    dv.erase(std::remove(dv.begin(), dv.end(), ' '), dv.end());
                }
                val += " m=" + std::string(x.modified() ? "1" : "0") + " dv=" + dv;
            }
            g_rec[us(now)] = {braces(d), val};
        }
    };

    struct Obs : LifecycleObserver
    {
        void on_before_graph_evaluation(const GraphView &g) override
        {
            if (g.is_root()) { g_cycles.insert(us(g.evaluation_time())); }
        }
    };

    enum Mode { M_INL, M_N1, M_N2, M_N3, M_N4, M_NW, M_SW };

    // late start: the sub-graph lives in a switch_ branch selected at cycle g_sw_time (its arguments may be valid by
    // then); inside the branch it is inlined (g_sw_depth 0) or nested_ at depth g_sw_depth
    std::int64_t g_sw_time = 1, g_sw_depth = 0, g_sw_style = 0;
    struct KeyWriter
    {
        static constexpr auto name = "nestshape_key";
        static void           start(NodeScheduler sched) { sched.schedule(dt(k_start + g_sw_time - 1)); }
        static void           eval(Out<L> out) { out.set(Int{1}); }
    };
    template <typename R, typename A0, typename... As> struct SwBranch
    {
        static constexpr auto name = "nestshape_branch";
        static Port<R>        compose(Wiring &w, Port<A0> a0, Port<As>... as)
        {
            if (g_sw_depth <= 0) { return wire<G<R, A0, As...>>(w, a0, as..., Int{g_sw_style}); }
            return wire<Deep<R, A0, As...>>(w, a0, as..., Int{g_sw_style}, Int{g_sw_depth});
        }
    };
    template <typename R, typename... As> struct SwOk : std::false_type {};
    template <> struct SwOk<R_ts, L> : std::true_type {};
    template <> struct SwOk<R_b2, L, L> : std::true_type {};
    template <> struct SwOk<R_l3, L, L> : std::true_type {};
    template <> struct SwOk<R_b3, L, L, L> : std::true_type {};

    void execute(Wiring &&w)
    {
        GraphBuilder         gb = std::move(w).finish();
        Obs                  obs;
        GraphExecutorBuilder eb;
        const std::int64_t   end = k_start + static_cast<std::int64_t>(g_hist.size());
        eb.graph_builder(std::move(gb)).mode(GraphExecutorMode::Simulation).start_time(dt(k_start)).end_time(dt(end));
        eb.add_lifecycle_observer(&obs);
        GraphExecutorValue executor = eb.make_executor();
        executor.view().run();
    }

    template <typename R, typename A0, typename... As> struct Runner
    {
        template <std::size_t... I>
        static Port<R> attach(Wiring &w, Mode mode, Int style, const Port<A0> &a0, const std::tuple<Port<As>...> &rest, std::index_sequence<I...>)
        {
            switch (mode)
            {
                case M_INL: return wire<G<R, A0, As...>>(w, a0, std::get<I>(rest)..., style);
                case M_NW: return nested_<Wrap<R, A0, As...>>(w, a0, std::get<I>(rest)..., style);
                case M_SW:
                    if constexpr (SwOk<R, A0, As...>::value)
                    {
                        g_sw_style = style;
                        auto key   = wire<KeyWriter>(w).template as<L>();
                        return wire<stdlib::switch_>(w, key, stdlib::switch_cases({{Value{Int{1}}, fn<SwBranch<R, A0, As...>>()}}), a0,
                                                     std::get<I>(rest)...)
                            .template as<R>();
                    }
                    else { throw std::logic_error("no late-start variant for this definition"); }
                default: return wire<Deep<R, A0, As...>>(w, a0, std::get<I>(rest)..., style, Int{static_cast<std::int64_t>(mode)});
            }
        }
        static void run(Mode mode, Int style)
        {
            Wiring w{WiringKind::TopLevel, WiringOptions{}};
            int    base = 0;
            auto   mk   = [&]<typename A>(std::type_identity<A>) {
                auto p = wire<Writer<A>>(w, Int{base}, Int{Chan<A>::n}).template as<A>();
                base += Chan<A>::n;
                return p;
            };
            Port<A0>                 a0 = mk(std::type_identity<A0>{});
            std::tuple<Port<As>...>  rest{mk(std::type_identity<As>{})...};
            Port<R> out = attach(w, mode, style, a0, rest, std::index_sequence_for<As...>{});
            wire<Recorder<R>>(w, out);
            execute(std::move(w));
        }
    };

    // captured outer ports.  kind (the `args` token of the case):
    //   cf  two different fields of ONE outer TSB-producing node (f0 then f1)      cr  the same, captured in the order f1, f0
    //   cl  two elements of ONE outer TSL-producing node                           cs  the same field twice (control)
    //   cn  one field each of TWO outer nodes (control)                            xf  as cf, through context::scope / get
    //   sc  one declared scalar argument, then the two fields of one outer TSB node (RunnerC1)
    Port<L> field_of(Wiring &w, const Port<R_b2> &q, std::size_t i)
    {
        return Port<L>{w, subgraph_wiring_detail::tsb_field_ref(q.erased(), i, schema_descriptor<L>::ts_meta())};
    }
    template <typename R> struct RunnerC0
    {
        static void run(const std::string &kind, Mode mode, Int style)
        {
            Wiring  w{WiringKind::TopLevel, WiringOptions{}};
            Port<L> c0, c1;
            if (kind == "cl")
            {
                auto q = wire<Writer<R_l2>>(w, Int{0}, Int{2}).template as<R_l2>();
                c0     = Port<L>{w, subgraph_wiring_detail::tsl_element_ref(q.erased(), 0, schema_descriptor<L>::ts_meta())};
                c1     = Port<L>{w, subgraph_wiring_detail::tsl_element_ref(q.erased(), 1, schema_descriptor<L>::ts_meta())};
            }
            else if (kind == "cn")
            {
                auto q1 = wire<Writer<R_b2>>(w, Int{0}, Int{1}).template as<R_b2>();
                auto q2 = wire<Writer<R_b2>>(w, Int{1}, Int{1}).template as<R_b2>();
                c0      = field_of(w, q1, 0);
                c1      = field_of(w, q2, 0);
            }
            else if (kind == "cs")
            {
                auto q = wire<Writer<R_b2>>(w, Int{0}, Int{1}).template as<R_b2>();
                c0     = field_of(w, q, 0);
                c1     = field_of(w, q, 0);
            }
            else
            {
                auto q = wire<Writer<R_b2>>(w, Int{0}, Int{2}).template as<R_b2>();
                c0     = field_of(w, q, kind == "cr" ? 1 : 0);
                c1     = field_of(w, q, kind == "cr" ? 0 : 1);
            }
            g_cap[0]  = &c0;
            g_cap[1]  = &c1;
            g_cap_ctx = kind == "xf";
            {
                std::optional<context::scope<"c0">> s0;
                std::optional<context::scope<"c1">> s1;
                if (g_cap_ctx) { s0.emplace(w, c0); s1.emplace(w, c1); }
                Port<R> out = mode == M_INL  ? wire<GC0<R>>(w, style)
                              : mode == M_NW ? nested_<WrapC0<R>>(w, style)
                                             : wire<DeepC0<R>>(w, style, Int{static_cast<std::int64_t>(mode)});
                wire<Recorder<R>>(w, out);
                s1.reset();
                s0.reset();
            }
            execute(std::move(w));
        }
    };
    template <typename R> struct RunnerC1
    {
        static void run(const std::string &, Mode mode, Int style)
        {
            Wiring  w{WiringKind::TopLevel, WiringOptions{}};
            auto    a0 = wire<Writer<L>>(w, Int{0}, Int{1}).template as<L>();
            auto    q  = wire<Writer<R_b2>>(w, Int{1}, Int{2}).template as<R_b2>();
            Port<L> c0 = field_of(w, q, 0), c1 = field_of(w, q, 1);
            g_cap[0]   = &c0;
            g_cap[1]   = &c1;
            g_cap_ctx  = false;
            Port<R> out = mode == M_INL  ? wire<GC1<R>>(w, a0, style)
                          : mode == M_NW ? nested_<WrapC1<R>>(w, a0, style)
                                         : wire<DeepC1<R>>(w, a0, style, Int{static_cast<std::int64_t>(mode)});
            wire<Recorder<R>>(w, out);
            execute(std::move(w));
        }
    };

    // twins: form tl / tb = ONE peered TSL / TSB output as argument, il / ib = a structural {a, b} initializer over two
    // scalar writers, t2 = two separate scalar parameters (control); third letter of the token = twin code
    template <typename R, typename P> struct RunnerT1
    {
        static void run(bool initializer, std::int64_t twin, Mode mode, Int style)
        {
            Wiring  w{WiringKind::TopLevel, WiringOptions{}};
            Port<R> out;
            const Int depth{mode == M_NW ? 2 : static_cast<std::int64_t>(mode)};
            if (initializer)
            {
                auto a = wire<Writer<L>>(w, Int{0}, Int{1}).template as<L>();
                auto b = wire<Writer<L>>(w, Int{1}, Int{1}).template as<L>();
                out    = mode == M_INL ? wire<GT1<R, P>>(w, {a, b}, style, Int{twin})
                                       : wire<DeepT1<R, P>>(w, {a, b}, style, Int{twin}, depth);
            }
            else
            {
                auto q = wire<Writer<P>>(w, Int{0}, Int{2}).template as<P>();
                out    = mode == M_INL ? wire<GT1<R, P>>(w, q, style, Int{twin}) : wire<DeepT1<R, P>>(w, q, style, Int{twin}, depth);
            }
            wire<Recorder<R>>(w, out);
            execute(std::move(w));
        }
    };
    template <typename R> struct RunnerT2
    {
        static void run(std::int64_t twin, Mode mode, Int style)
        {
            Wiring  w{WiringKind::TopLevel, WiringOptions{}};
            auto    a = wire<Writer<L>>(w, Int{0}, Int{1}).template as<L>();
            auto    b = wire<Writer<L>>(w, Int{1}, Int{1}).template as<L>();
            const Int depth{mode == M_NW ? 2 : static_cast<std::int64_t>(mode)};
            Port<R> out = mode == M_INL ? wire<GT2<R>>(w, a, b, style, Int{twin}) : wire<DeepT2<R>>(w, a, b, style, Int{twin}, depth);
            wire<Recorder<R>>(w, out);
            execute(std::move(w));
        }
    };
    struct RunnerRef
    {
        static void run(Mode mode)
        {
            Wiring  w{WiringKind::TopLevel, WiringOptions{}};
            auto    p = wire<Writer<L>>(w, Int{0}, Int{1}).template as<L>();
            auto    a = wire<Writer<L>>(w, Int{1}, Int{1}).template as<L>();
            auto    b = wire<Writer<L>>(w, Int{2}, Int{1}).template as<L>();
            const Int depth{mode == M_NW ? 2 : static_cast<std::int64_t>(mode)};
            Port<L> out = mode == M_INL ? wire<GRefT>(w, p, a, b) : wire<DeepRef>(w, p, a, b, depth);
            wire<Recorder<L>>(w, out);
            execute(std::move(w));
        }
    };

    // ------------------------------------------------------------------ ONE structured parameter, assembled to any depth
    // args = P<tree>@<views>: the outer argument is built from separate sources exactly as the tree says (to_tsl / to_tsb
    // of to_tsl / to_tsb .. over scalar writers and peered structured writers); the body projects its views out of the
    // parameter (tsl_element_ref / tsb_field_ref) and feeds them to ONE rule body node.
    struct PSpec
    {
        char               kind   = 's';     // 's' scalar leaf, 'l' TSL, 'b' TSB
        bool               peered = false;   // one writer node with this output (always true for 's')
        std::vector<PSpec> kids;
        int                leaves = 1;
        std::string        sig;              // the schema in lower case
    };
    struct PDef
    {
        PSpec                                 tree;
        std::vector<std::vector<std::size_t>> views;      // projection path of every view
        std::vector<std::string>              view_sigs;  // schema of every view
    };
    PDef g_pdef;

    bool parse_ptree(const std::string &t, std::size_t &i, bool in_peered, PSpec &out)
    {
        if (i >= t.size()) { return false; }
        const char c = t[i++];
        if (c == 's') { out = PSpec{'s', true, {}, 1, "s"}; return true; }
        const char lc = static_cast<char>(c | 0x20);
        if ((lc != 'l' && lc != 'b') || (in_peered && c != lc)) { return false; }
        out        = PSpec{};
        out.kind   = lc;
        out.peered = in_peered || c != lc;
        if (i >= t.size() || t[i++] != '[') { return false; }
        out.leaves = 0;
        out.sig    = std::string(1, lc) + "[";
        while (i < t.size() && t[i] != ']')
        {
            PSpec k;
            if (!parse_ptree(t, i, out.peered, k)) { return false; }
            out.leaves += k.leaves;
            out.sig += k.sig;
            out.kids.push_back(std::move(k));
        }
        if (i >= t.size() || out.kids.empty() || out.kids.size() > 3) { return false; }
        ++i;
        out.sig += "]";
        return true;
    }
    const PSpec *pspec_at(const PSpec &root, const std::vector<std::size_t> &path)
    {
        const PSpec *cur = &root;
        for (auto k : path)
        {
            if (k >= cur->kids.size()) { return nullptr; }
            cur = &cur->kids[k];
        }
        return cur;
    }
    // the schema vocabulary of the structured parameter (every entry instantiates the wiring templates once)
    using P_l1   = TSL<L, 1>;
    using P_ll   = TSL<R_l2, 2>;                                             // {{a,b},{c,d}}
    using P_bls  = UnNamedTSB<Field<"f0", R_l2>, Field<"f1", L>>;            // {{a,b},c}
    using P_bsl  = UnNamedTSB<Field<"f0", L>, Field<"f1", R_l2>>;            // {a,{b,c}}
    using P_lb3  = TSL<R_b2, 3>;                                             // a list of three bundles
    using P_blbs = UnNamedTSB<Field<"f0", R_l3>, Field<"f1", R_b2>, Field<"f2", L>>;
    using P_lll  = TSL<P_ll, 2>;                                             // depth 3, eight leaves
    using P_b3d  = UnNamedTSB<Field<"f0", TSL<R_b2, 2>>, Field<"f1", L>, Field<"f2", R_l3>>;   // depth 3, mixed
    using P_b1d  = UnNamedTSB<Field<"f0", UnNamedTSB<Field<"f0", R_l3>>>, Field<"f1", TSL<P_l1, 2>>>;   // depth 3 with width-1 levels
    const std::vector<std::string> k_path_sigs{"l[sss]", "b[ss]", "l[l[ss]l[ss]]", "b[l[ss]s]", "b[sl[ss]]", "l[b[ss]b[ss]b[ss]]",
                                               "b[l[sss]b[ss]s]", "l[l[l[ss]l[ss]]l[l[ss]l[ss]]]", "b[l[b[ss]b[ss]]sl[sss]]",
                                               "b[b[l[sss]]l[l[s]l[s]]]"};

    // which view lists the body can consume (one rule body node): -> 0 not allowed
    enum PForm { PF_NONE = 0, PF_S1, PF_S2, PF_S3, PF_L2, PF_B2, PF_L3, PF_W, PF_L2S, PF_SL2, PF_B2S, PF_SB2 };
    PForm pform(const PDef &d)
    {
        const auto &v = d.view_sigs;
        const auto  all_s = [&] { return std::all_of(v.begin(), v.end(), [](const std::string &x) { return x == "s"; }); };
        if (v.empty() || v.size() > 3) { return PF_NONE; }
        if (all_s()) { return v.size() == 1 ? PF_S1 : v.size() == 2 ? PF_S2 : PF_S3; }
        if (v.size() == 1)
        {
            if (v[0] == "l[ss]") { return PF_L2; }
            if (v[0] == "b[ss]") { return PF_B2; }
            if (v[0] == "l[sss]") { return PF_L3; }
            return d.views[0].empty() ? PF_W : PF_NONE;
        }
        if (v.size() == 2)
        {
            if (v[0] == "l[ss]" && v[1] == "s") { return PF_L2S; }
            if (v[0] == "s" && v[1] == "l[ss]") { return PF_SL2; }
            if (v[0] == "b[ss]" && v[1] == "s") { return PF_B2S; }
            if (v[0] == "s" && v[1] == "b[ss]") { return PF_SB2; }
        }
        return PF_NONE;
    }
    bool parse_pargs(const std::string &a, PDef &d)
    {
        const auto at = a.find('@');
        if (a.size() < 4 || a[0] != 'P' || at == std::string::npos) { return false; }
        const std::string tree = a.substr(1, at - 1);
        std::size_t       i    = 0;
        if (!parse_ptree(tree, i, false, d.tree) || i != tree.size()) { return false; }
        if (std::find(k_path_sigs.begin(), k_path_sigs.end(), d.tree.sig) == k_path_sigs.end()) { return false; }
        std::string rest = a.substr(at + 1);
        while (true)
        {
            const auto        c = rest.find(',');
            const std::string v = rest.substr(0, c);
            std::vector<std::size_t> path;
            if (v != "w")
            {
                if (v.empty() || v.size() % 2 == 0) { return false; }
                for (std::size_t k = 0; k < v.size(); ++k)
                {
                    if (k % 2 == 0 ? (v[k] < '0' || v[k] > '2') : v[k] != '.') { return false; }
                    if (k % 2 == 0) { path.push_back(static_cast<std::size_t>(v[k] - '0')); }
                }
            }
            const PSpec *sub = pspec_at(d.tree, path);
            if (sub == nullptr) { return false; }
            d.views.push_back(path);
            d.view_sigs.push_back(sub->sig);
            if (c == std::string::npos) { break; }
            rest = rest.substr(c + 1);
        }
        return pform(d) != PF_NONE;
    }
    int pdef_body_chans(const PDef &d)
    {
        int n = 0;
        for (const auto &p : d.views) { n += pspec_at(d.tree, p)->leaves; }
        return n;
    }

    // the outer argument: built bottom-up with the public API (stdlib::to_tsl / to_tsb over the children's ports)
    template <typename T> Port<T> build_source(Wiring &w, const PSpec &spec, int &base)
    {
        if constexpr (Kids<T>::n == 0)
        {
            auto p = wire<Writer<T>>(w, Int{base}, Int{1}).template as<T>();
            base += 1;
            return p;
        }
        else
        {
            if (spec.peered)
            {
                auto p = wire<Writer<T>>(w, Int{base}, Int{leaf_count<T>()}).template as<T>();
                base += leaf_count<T>();
                return p;
            }
            return [&]<std::size_t... I>(std::index_sequence<I...>) {
                // braced initialisation: the children are built left to right (history columns in depth-first order)
                std::tuple<Port<typename Kids<T>::template at<I>>...> kids{
                    build_source<typename Kids<T>::template at<I>>(w, spec.kids[I], base)...};
                if constexpr (Kids<T>::kind == 'l') { return stdlib::to_tsl<T>(w, std::get<I>(kids)...).template as<T>(); }
                else { return stdlib::to_tsb<T>(w, std::get<I>(kids)...); }
            }(std::make_index_sequence<Kids<T>::n>{});
        }
    }

    // projection of one view out of the parameter (as tsl_element / field do it)
    WiringPortRef project_view(const WiringPortRef &root, const PSpec &tree, const std::vector<std::size_t> &path)
    {
        WiringPortRef ref = root;
        const PSpec  *cur = &tree;
        for (auto k : path)
        {
            const auto *meta = cur->kind == 'l' ? ref.schema->element_ts() : ref.schema->fields()[k].type;
            ref = cur->kind == 'l' ? subgraph_wiring_detail::tsl_element_ref(ref, k, meta) : subgraph_wiring_detail::tsb_field_ref(ref, k, meta);
            cur = &cur->kids[k];
        }
        return ref;
    }
    template <typename A> struct GP
    {
        static constexpr auto name = "nestshape_gp";
        static Port<R_l3>     compose(Wiring &w, Port<A> in, Scalar<"style", Int>)
        {
            using R = R_l3;
            std::vector<WiringPortRef> v;
            for (const auto &p : g_pdef.views) { v.push_back(project_view(in.erased(), g_pdef.tree, p)); }
            const auto s  = [&](std::size_t i) { return Port<L>{w, v[i]}; };
            const auto l2 = [&](std::size_t i) { return Port<R_l2>{w, v[i]}; };
            const auto b2 = [&](std::size_t i) { return Port<R_b2>{w, v[i]}; };
            switch (pform(g_pdef))
            {
                case PF_S1: return wire<Body1<R, L>>(w, s(0));
                case PF_S2: return wire<Body2<R, L, L>>(w, s(0), s(1));
                case PF_S3: return wire<Body3<R, L, L, L>>(w, s(0), s(1), s(2));
                case PF_L2: return wire<Body1<R, R_l2>>(w, l2(0));
                case PF_B2: return wire<Body1<R, R_b2>>(w, b2(0));
                case PF_L3: return wire<Body1<R, R_l3>>(w, Port<R_l3>{w, v[0]});
                case PF_W: return wire<Body1<R, A>>(w, in);
                case PF_L2S: return wire<Body2<R, R_l2, L>>(w, l2(0), s(1));
                case PF_SL2: return wire<Body2<R, L, R_l2>>(w, s(0), l2(1));
                case PF_B2S: return wire<Body2<R, R_b2, L>>(w, b2(0), s(1));
                case PF_SB2: return wire<Body2<R, L, R_b2>>(w, s(0), b2(1));
                default: break;
            }
            throw std::logic_error("view list not supported");
        }
    };
    template <typename A> struct DeepP
    {
        static constexpr auto name = "nestshape_deepp";
        static Port<R_l3>     compose(Wiring &w, Port<A> in, Scalar<"style", Int> style, Scalar<"depth", Int> depth)
        {
            if (depth.value() <= 0) { return wire<GP<A>>(w, in, Int{style.value()}); }
            return nested_<DeepP<A>>(w, in, Int{style.value()}, Int{depth.value() - 1});
        }
    };
    template <typename A> struct RunnerP
    {
        static bool run(Mode mode, Int style)
        {
            if (sig_of<A>() != g_pdef.tree.sig) { return false; }
            Wiring    w{WiringKind::TopLevel, WiringOptions{}};
            int       base = 0;
            Port<A>   arg  = build_source<A>(w, g_pdef.tree, base);
            const Int depth{mode == M_NW ? 2 : static_cast<std::int64_t>(mode)};
            Port<R_l3> out = mode == M_INL ? wire<GP<A>>(w, arg, style) : wire<DeepP<A>>(w, arg, style, depth);
            wire<Recorder<R_l3>>(w, out);
            execute(std::move(w));
            return true;
        }
    };
    bool run_path(Mode mode, Int style)
    {
        return RunnerP<R_l3>::run(mode, style) || RunnerP<R_b2>::run(mode, style) || RunnerP<P_ll>::run(mode, style) ||
               RunnerP<P_bls>::run(mode, style) || RunnerP<P_bsl>::run(mode, style) || RunnerP<P_lb3>::run(mode, style) ||
               RunnerP<P_blbs>::run(mode, style) || RunnerP<P_lll>::run(mode, style) || RunnerP<P_b3d>::run(mode, style) ||
               RunnerP<P_b1d>::run(mode, style);
    }

    // the vocabulary of (result, arguments) pairs (kept small: every pair instantiates the wiring templates)
    const std::set<std::string> k_pairs{"ts:s1", "ts:ab", "b2:s2", "b2:ab", "b2:bs", "b3:s3", "b3:s1", "b4:s2", "b4:al", "l2:s1", "l2:al",
                                        "l3:s2", "l3:bs", "l4:s1", "l4:s3", "bl:s2", "bl:ab", "lb:s2", "lb:al",
                                        // captured outer ports (args = capture kind)
                                        "ts:cf", "ts:cr", "ts:cl", "ts:cs", "ts:cn", "ts:xf", "b2:cf", "b2:cr", "b2:cl", "b2:cs", "b2:cn", "b2:xf",
                                        "l3:cf", "l3:cr", "l3:cl", "l3:cs", "l3:cn", "l3:xf", "b3:sc",
                                        // twins on one structured parameter: tl tb il ib t2 + twin code i e m k; pass for equal shapes
                                        "l3:tli", "l3:tle", "l3:tlm", "l3:tlk", "l3:tbi", "l3:tbe", "l3:tbm", "l3:tbk", "l3:ili", "l3:ile", "l3:ilm",
                                        "l3:ilk", "l3:ibi", "l3:ibe", "l3:ibm", "l3:ibk", "l3:t2i", "l3:t2e", "l3:t2m", "l3:t2k",
                                        "l2:tli", "l2:tle", "l2:ili", "l2:ile", "b2:tbi", "b2:tbe", "b2:ibi", "b2:ibe",
                                        // a REF-producing terminal exposed as a plain result (channels: pick, lhs, rhs)
                                        "ts:rs"};
    bool run_def(Mode mode, Int style)
    {
        const std::string p = g_def.res + ":" + g_def.args;
        if (g_def.args[0] == 'P') { return run_path(mode, style); }
#ifndef HGV_NESTSHAPE_PATH_ONLY   // (development aid: compile the P<tree> kind alone)
        if (g_def.args[0] == 'c' || g_def.args[0] == 'x')
        {
            if (g_def.res == "ts") { RunnerC0<R_ts>::run(g_def.args, mode, style); }
            else if (g_def.res == "b2") { RunnerC0<R_b2>::run(g_def.args, mode, style); }
            else if (g_def.res == "l3") { RunnerC0<R_l3>::run(g_def.args, mode, style); }
            else { return false; }
            return true;
        }
        if (p == "b3:sc") { RunnerC1<R_b3>::run(g_def.args, mode, style); return true; }
        if (p == "ts:rs") { RunnerRef::run(mode); return true; }
        if (g_def.args.size() == 3)
        {
            const std::string  form = g_def.args.substr(0, 2);
            const std::int64_t twin = g_def.args[2];
            const bool         init = form[0] == 'i';
            if (form == "t2") { RunnerT2<R_l3>::run(twin, mode, style); }
            else if (g_def.res == "l3" && form[1] == 'l') { RunnerT1<R_l3, R_l2>::run(init, twin, mode, style); }
            else if (g_def.res == "l3" && form[1] == 'b') { RunnerT1<R_l3, R_b2>::run(init, twin, mode, style); }
            else if (g_def.res == "l2") { RunnerT1<R_l2, R_l2>::run(init, twin, mode, style); }
            else if (g_def.res == "b2") { RunnerT1<R_b2, R_b2>::run(init, twin, mode, style); }
            else { return false; }
            return true;
        }
        if (p == "ts:s1") { Runner<R_ts, L>::run(mode, style); }
        else if (p == "ts:ab") { Runner<R_ts, R_b2>::run(mode, style); }
        else if (p == "b2:s2") { Runner<R_b2, L, L>::run(mode, style); }
        else if (p == "b2:ab") { Runner<R_b2, R_b2>::run(mode, style); }
        else if (p == "b2:bs") { Runner<R_b2, R_b2, L>::run(mode, style); }
        else if (p == "b3:s3") { Runner<R_b3, L, L, L>::run(mode, style); }
        else if (p == "b3:s1") { Runner<R_b3, L>::run(mode, style); }
        else if (p == "b4:s2") { Runner<R_b4, L, L>::run(mode, style); }
        else if (p == "b4:al") { Runner<R_b4, R_l2>::run(mode, style); }
        else if (p == "l2:s1") { Runner<R_l2, L>::run(mode, style); }
        else if (p == "l2:al") { Runner<R_l2, R_l2>::run(mode, style); }
        else if (p == "l3:s2") { Runner<R_l3, L, L>::run(mode, style); }
        else if (p == "l3:bs") { Runner<R_l3, R_b2, L>::run(mode, style); }
        else if (p == "l4:s1") { Runner<R_l4, L>::run(mode, style); }
        else if (p == "l4:s3") { Runner<R_l4, L, L, L>::run(mode, style); }
        else if (p == "bl:s2") { Runner<R_bl, L, L>::run(mode, style); }
        else if (p == "bl:ab") { Runner<R_bl, R_b2>::run(mode, style); }
        else if (p == "lb:s2") { Runner<R_lb, L, L>::run(mode, style); }
        else if (p == "lb:al") { Runner<R_lb, R_l2>::run(mode, style); }
        else { return false; }
        return true;
#else
        return false;
#endif
    }

    // ------------------------------------------------------------------ parsing
    bool to_int(const std::string &s, std::int64_t &v)
    {
        try { std::size_t u = 0; v = std::stoll(s, &u); return u == s.size() && !s.empty(); }
        catch (...) { return false; }
    }
    int leaves_of(const std::string &r)
    {
        static const std::map<std::string, int> m{{"ts", 1}, {"b2", 2}, {"b3", 3}, {"b4", 4}, {"l2", 2}, {"l3", 3}, {"l4", 4}, {"bl", 3}, {"lb", 4}};
        auto it = m.find(r);
        return it == m.end() ? 0 : it->second;
    }
    int chans_of(const std::string &a)
    {
        static const std::map<std::string, int> m{{"s1", 1}, {"s2", 2}, {"s3", 3}, {"ab", 2}, {"al", 2}, {"bs", 3}, {"cf", 2}, {"cr", 2},
                                                  {"cl", 2}, {"cs", 1}, {"cn", 2}, {"xf", 2}, {"sc", 3}, {"rs", 3}};
        if (a.size() == 3) { return 2; }   // twin forms
        auto it = m.find(a);
        return it == m.end() ? 0 : it->second;
    }
    bool parse_rule(const std::string &s, int chans, Rule &r)
    {
        std::size_t i = 0;
        if (s.empty()) { return false; }
        r.trig = s[i++];
        if (r.trig == 'K' || r.trig == 'O')
        {
            if (i >= s.size() || s[i] < '0' || s[i] > '7') { return false; }
            r.tj = s[i++] - '0';
            if (r.tj >= chans) { return false; }
        }
        else if (r.trig != 'A' && r.trig != 'F' && r.trig != 'T' && r.trig != 'N') { return false; }
        if (i >= s.size()) { return false; }
        r.val = s[i++];
        if (r.val == 'x')
        {
            if (i + 1 != s.size() || s[i] < '0' || s[i] > '7') { return false; }
            r.vj = s[i] - '0';
            return r.vj < chans;
        }
        if (r.val == 'n' || r.val == 'a') { return i == s.size(); }
        if (r.val == 'k') { return to_int(s.substr(i), r.vj) && r.vj >= -99 && r.vj <= 9999; }
        return false;
    }
    bool parse_timer(const std::string &s, Def &d)
    {
        if (s == "t0") { d.timer = '0'; return true; }
        if (s.size() < 2) { return false; }
        if (s[0] == 'e') { d.timer = 'e'; return to_int(s.substr(1), d.t_per) && d.t_per >= 1 && d.t_per <= 9; }
        if (s[0] == 's')
        {
            const auto c = s.find(',');
            if (c == std::string::npos) { return false; }
            d.timer = 's';
            return to_int(s.substr(1, c - 1), d.t_off) && to_int(s.substr(c + 1), d.t_per) && d.t_off >= 0 && d.t_off <= 9 &&
                   d.t_per >= 1 && d.t_per <= 9;
        }
        return false;
    }
    bool parse_def(const std::vector<std::string> &ws, Def &d)
    {
        if (ws.size() < 6) { return false; }
        d.res = ws[1]; d.args = ws[2]; d.style = ws[3];
        const int nl = leaves_of(d.res);
        if (!d.args.empty() && d.args[0] == 'P')
        {
            // one structured parameter assembled to any depth: result l3, one rule body node
            PDef pd;
            if (d.res != "l3" || d.style != "node" || !parse_pargs(d.args, pd)) { return false; }
            d.chans = pd.tree.leaves;
            d.bch   = pdef_body_chans(pd);
            if (d.chans > k_maxch || d.bch > k_maxch || !parse_timer(ws[4], d) || static_cast<int>(ws.size()) != 5 + nl) { return false; }
            for (int i = 0; i < nl; ++i)
            {
                Rule r;
                if (!parse_rule(ws[static_cast<std::size_t>(5 + i)], d.bch, r)) { return false; }
                d.rules.push_back(r);
            }
            g_pdef = pd;
            return true;
        }
        d.chans      = chans_of(d.args);
        if (nl == 0 || d.chans == 0 || !k_pairs.count(d.res + ":" + d.args)) { return false; }
        static const std::set<std::string> styles{"node", "sink", "proj", "pass", "comp"};
        if (!styles.count(d.style)) { return false; }
        d.bch = d.args == "cs" ? 2 : d.chans;
        const bool captured = d.args[0] == 'c' || d.args[0] == 'x';
        const bool twins = d.args.size() == 3;
        if ((captured || d.args == "sc" || twins || d.args == "rs") && d.style == "comp") { return false; }
        if (d.args == "rs" && d.style != "node") { return false; }
        if (twins && d.style == "pass" && !(d.res != "l3" && d.args.substr(0, 2) != "t2")) { return false; }
        if (!twins && d.style == "pass" && !((d.res == "ts" && (d.args[0] == 's' || captured)) || (d.res == "b2" && (d.args == "ab" || d.args == "bs")) || (d.res == "l2" && d.args == "al"))) { return false; }
        if (d.style == "comp" && !(d.res == "b2" || d.res == "b3" || d.res == "b4" || d.res == "l2" || d.res == "l3" || d.res == "l4")) { return false; }
        if (!parse_timer(ws[4], d)) { return false; }
        if (static_cast<int>(ws.size()) != 5 + nl) { return false; }
        for (int i = 0; i < nl; ++i)
        {
            Rule r;
            if (!parse_rule(ws[static_cast<std::size_t>(5 + i)], d.bch, r)) { return false; }
            d.rules.push_back(r);
        }
        return true;
    }

    std::string classify(const std::string &what)
    {
        std::cerr << "nestshape: " << what << "\n";
        return "err:other";
    }
}  // namespace

int main()
{
    stdlib::register_standard_operators();
    g_show_dv = std::getenv("HGV_NESTSHAPE_DV") != nullptr;
    std::string line;
    bool        have_def = false;

    while (std::getline(std::cin, line))
    {
        const auto ws = split(line);
        if (ws.empty()) { std::cout << "\n"; continue; }
        if (ws[0] == "case" && ws.size() == 2)
        {
            g_def = Def{}; g_hist.clear(); have_def = false;
            std::cout << "case " << ws[1] << "\n";
        }
        else if (ws[0] == "def" && !have_def && g_hist.empty())
        {
            Def d;
            if (!parse_def(ws, d)) { std::cout << "bad-op\n"; continue; }
            g_def = d; have_def = true;
            std::cout << "ok leaves=" << d.rules.size() << " chans=" << d.chans << "\n";
        }
        else if (ws[0] == "c" && have_def && static_cast<int>(ws.size()) == 1 + g_def.chans && g_hist.size() < 64)
        {
            std::array<std::optional<Int>, k_maxch> row{};
            bool                              ok = true;
            for (int j = 0; j < g_def.chans; ++j)
            {
                const auto &t = ws[static_cast<std::size_t>(1 + j)];
                if (t == "-") { continue; }
                std::int64_t v = 0;
                if (!to_int(t, v) || v < -999 || v > 999) { ok = false; break; }
                row[static_cast<std::size_t>(j)] = Int{v};
            }
            if (!ok) { std::cout << "bad-op\n"; continue; }
            g_hist.push_back(row);
            std::cout << "ok\n";
        }
        else if (ws[0] == "run" && ws.size() == 2 && have_def && !g_hist.empty())
        {
            static const std::map<std::string, Mode> modes{{"inl", M_INL}, {"n1", M_N1}, {"n2", M_N2}, {"n3", M_N3}, {"n4", M_N4}, {"nw", M_NW}};
            static const std::map<std::string, Style> styles{{"node", ST_NODE}, {"sink", ST_SINK}, {"proj", ST_PROJ}, {"pass", ST_PASS}, {"comp", ST_COMP}};
            auto m = modes.find(ws[1]);
            Mode mode = M_INL;
            if (m != modes.end()) { mode = m->second; }
            else
            {
                // s<depth>@<cycle>: late start inside a switch_ branch
                const std::string &t = ws[1];
                std::int64_t       at = 0;
                static const std::set<std::string> sw_pairs{"ts:s1", "b2:s2", "l3:s2", "b3:s3"};
                if (t.size() >= 4 && t[0] == 's' && t[1] >= '0' && t[1] <= '2' && t[2] == '@' && to_int(t.substr(3), at) && at >= 1 &&
                    at <= static_cast<std::int64_t>(g_hist.size()) && sw_pairs.count(g_def.res + ":" + g_def.args) &&
                    (g_def.style == "node" || g_def.style == "sink" || g_def.style == "proj"))
                {
                    mode       = M_SW;
                    g_sw_depth = t[1] - '0';
                    g_sw_time  = at;
                }
                else { std::cout << "bad-op\n"; continue; }
            }
            for (auto &s : g_st) { s = St{}; }
            g_rec.clear(); g_cycles.clear();
            std::string result;
            try
            {
                run_def(mode, Int{static_cast<std::int64_t>(styles.at(g_def.style))});
                result = "ok cyc=";
                bool firstc = true;
                for (auto t : g_cycles) { result += (firstc ? "" : ",") + std::to_string(t); firstc = false; }
                for (const auto &[t, dv] : g_rec) { result += " | " + std::to_string(t) + " d=" + dv.first + " v=" + dv.second; }
            }
            catch (const std::exception &e) { result = classify(e.what()); }
            std::cout << result << "\n";
        }
        else { std::cout << "bad-op\n"; }
    }
    return 0;
}
