// hgv_replay (C20): record -> replay reproduces the same ticks.
//
// For a textual schema + tick history it wires a REAL graph  replay(key "in") -> record(key "out")
// through the erased, name-resolved operator path (OperatorRegistry::resolve("replay"/"record") with
// an expected output schema built at run time by TypeRegistry), runs it in simulation, reads the
// recorded dense buffer back from the graph's GlobalState, then runs a second graph that replays
// that very buffer Value and records again.  One output line per input line:
//
//   case <n>              -> case <n>
//   schema <S>            -> ok | err:schema
//   tick <cycle> <delta>  -> ok | err:parse | err:order      (cycle i = MIN_ST + i*MIN_TD, strictly increasing)
//   run                   -> rec1 n=<buffer length> <cycle>:<delta> ...   | err:run
//   rerun                 -> rec2 n=<buffer length> <cycle>:<delta> ...   | err:run
//   final                 -> val1=<state> val2=<state>       (replay node's output after each run)
//   direct                -> per input tick, on bare TSOutputs (no graph): src <- apply_delta(input);
//                            d = capture_delta(src); copy <- apply_delta(d); d2 = capture_delta(copy)
//                            prints  <cycle>:<d>|<d2>|<src state>|<copy state> ...
// (grammar of <S>, <delta>, <state>: harness/replay_text.h)
#include "hgv_common.h"
#include "replay_text.h"

#include <hgraph/lib/std/operators/impl/record_replay_memory_impl.h>
#include <hgraph/lib/std/std_operators.h>
#include <hgraph/lib/testing/record_replay.h>
#include <hgraph/runtime/runtime.h>
#include <hgraph/types/graph_wiring.h>
#include <hgraph/types/metadata/type_registry.h>
#include <hgraph/types/operator_dispatch.h>
#include <hgraph/types/record_replay.h>
#include <hgraph/types/time_series/ts_delta.h>
#include <hgraph/types/time_series/ts_input.h>

#include <optional>
#include <span>

using namespace hgraph;
using namespace hgv;
using namespace hgv::rt;

namespace
{
    WiringArg ts_arg(WiringPortRef port)
    {
        WiringArg arg;
        arg.kind = WiringArg::Kind::TimeSeries;
        arg.port = std::move(port);
        return arg;
    }

    WiringArg str_arg(const std::string &s)
    {
        WiringArg arg;
        arg.kind         = WiringArg::Kind::Scalar;
        arg.scalar_value = Value{Str{s}};
        arg.scalar_meta  = scalar_meta(ScalarK::Str);
        return arg;
    }

    OperatorWireResult call_operator(Wiring &w, std::string_view name, std::vector<WiringArg> args,
                                     std::optional<bool> output_required, const TSValueTypeMetaData *expected)
    {
        ResolvedOperatorCall resolved = OperatorRegistry::instance().resolve(
            name, std::span<const WiringArg>{args.data(), args.size()}, output_required, expected, {},
            w.operator_state(), &w);
        return resolved.impl->wire(w, resolved.map, resolved.args, resolved.kwargs);
    }

    struct RunResult
    {
        std::vector<std::optional<Value>> deltas;
        Value                             buffer;   // the recorded dense buffer itself (owning copy)
        bool                              has_buffer{false};
        std::string                       final_state;
    };

    // replay(in) -> record(out); `seed` puts the replay buffer on the builder's GlobalState.
    template <typename Seed>
    RunResult run_graph(const Sch &sch, Seed seed)
    {
        Wiring w;
        record_replay::set_config(w.global_state(),
                                  record_replay::RecordReplayConfig{.backend = std::string{record_replay::TESTING}});
        auto src = call_operator(w, "replay", {str_arg("in")}, true, sch.meta);
        if (!src.has_output) throw std::logic_error("replay has no output");
        (void)call_operator(w, "record", {ts_arg(src.output.erased()), str_arg("out")}, false, nullptr);
        GraphBuilder gb = std::move(w).finish();
        seed(gb.global_state());
        GraphExecutorBuilder eb;
        eb.graph_builder(std::move(gb)).start_time(MIN_ST).end_time(MAX_ET);
        GraphExecutorValue executor = eb.make_executor();
        auto               view     = executor.view();
        view.run();
        RunResult  r;
        const auto gs = view.graph().global_state();
        r.deltas      = testing::get_recorded_deltas(gs, "out");
        const ValueView buffer = gs.get("out");
        if (buffer.valid())
        {
            r.buffer     = Value{buffer};
            r.has_buffer = true;
        }
        const auto graph = view.graph();
        for (std::size_t i = 0; i < 2; ++i)
        {
            auto node = graph.node_at(i);
            if (node.has_output())
            {
                r.final_state = print_state(sch, node.output(graph.evaluation_time()));
                break;
            }
        }
        return r;
    }

    std::string print_recording(const Sch &sch, const char *tag, const RunResult &r)
    {
        std::string out = std::string(tag) + " n=" + std::to_string(r.deltas.size());
        for (std::size_t i = 0; i < r.deltas.size(); ++i)
        {
            if (!r.deltas[i].has_value()) continue;
            out += " " + std::to_string(i) + ":" + print_delta(sch, r.deltas[i]->view());
        }
        return out;
    }

    std::string err_class(const std::exception &e)
    {
        if (dynamic_cast<const ParseError *>(&e)) return "parse";
        if (dynamic_cast<const OperatorResolutionError *>(&e)) return "resolve";
        if (dynamic_cast<const std::invalid_argument *>(&e)) return "invalid";
        if (dynamic_cast<const std::logic_error *>(&e)) return "logic";
        return "other";
    }
}  // namespace

int main(int argc, char **argv)
{
    std::ios::sync_with_stdio(false);
    const bool verbose = argc > 1 && std::string(argv[1]) == "-v";
    hgraph::stdlib::register_standard_operators();

    std::unique_ptr<Sch>                            sch;
    std::vector<std::pair<std::size_t, std::string>> ticks;   // (cycle, delta text)
    std::optional<RunResult>                        run1, run2;
    std::string                                     line;

    auto build_seed = [&]() {
        std::vector<std::optional<Value>> seq;
        for (auto &[cycle, text] : ticks)
        {
            while (seq.size() < cycle) seq.emplace_back(std::nullopt);
            Cursor c{text};
            Value  v = parse_delta(*sch, c);
            if (!c.eof()) throw ParseError("trailing input");
            seq.emplace_back(std::move(v));
        }
        return seq;
    };

    while (std::getline(std::cin, line))
    {
        auto w = split(line);
        if (w.empty()) { std::cout << "\n"; continue; }
        const std::string &op = w[0];
        try
        {
            if (op == "case")
            {
                sch.reset(); ticks.clear(); run1.reset(); run2.reset();
                std::cout << line << "\n";
            }
            else if (op == "schema" && w.size() == 2)
            {
                try
                {
                    Cursor c{w[1]};
                    auto   s = parse_schema(c);
                    if (!c.eof()) throw ParseError("trailing input");
                    sch = std::move(s);
                    std::cout << "ok\n";
                }
                catch (const std::exception &e)
                {
                    if (verbose) std::cerr << e.what() << "\n";
                    std::cout << "err:schema\n";
                }
            }
            else if (op == "tick" && w.size() == 3)
            {
                if (!sch) { std::cout << "err:schema\n"; continue; }
                const long long cyc = std::stoll(w[1]);
                if (cyc < 0 || (!ticks.empty() && static_cast<std::size_t>(cyc) <= ticks.back().first))
                {
                    std::cout << "err:order\n";
                    continue;
                }
                try
                {
                    Cursor c{w[2]};
                    (void)parse_delta(*sch, c);
                    if (!c.eof()) throw ParseError("trailing input");
                    ticks.emplace_back(static_cast<std::size_t>(cyc), w[2]);
                    std::cout << "ok\n";
                }
                catch (const ParseError &e)
                {
                    if (verbose) std::cerr << e.what() << "\n";
                    std::cout << "err:parse\n";
                }
            }
            else if (op == "run" && w.size() == 1)
            {
                if (!sch) { std::cout << "err:schema\n"; continue; }
                auto seq = build_seed();
                run1     = run_graph(*sch, [&](GlobalStateView gs) { testing::set_replay_deltas(gs, "in", seq); });
                run2.reset();
                std::cout << print_recording(*sch, "rec1", *run1) << "\n";
            }
            else if (op == "rerun" && w.size() == 1)
            {
                if (!sch || !run1) { std::cout << "err:norun\n"; continue; }
                // replay the recording itself: the typed dense buffer Value read from run 1's GlobalState
                run2 = run_graph(*sch, [&](GlobalStateView gs) {
                    if (run1->has_buffer) gs.set("in", run1->buffer);
                });
                std::cout << print_recording(*sch, "rec2", *run2) << "\n";
            }
            else if (op == "final" && w.size() == 1)
            {
                if (!run1 || !run2) { std::cout << "err:norun\n"; continue; }
                std::cout << "val1=" << run1->final_state << " val2=" << run2->final_state << "\n";
            }
            else if (op == "direct" && w.size() == 1)
            {
                if (!sch) { std::cout << "err:schema\n"; continue; }
                auto     seq = build_seed();
                TSOutput src{sch->meta};
                TSOutput dst{sch->meta};
                TSInput  in_src{TSInputBuilderFactory::checked_builder_for(*sch->meta, TSEndpointSchema::peered(sch->meta))};
                TSInput  in_dst{TSInputBuilderFactory::checked_builder_for(*sch->meta, TSEndpointSchema::peered(sch->meta))};
                in_src.view(nullptr, MIN_ST).bind_output(src.view(MIN_ST));
                in_dst.view(nullptr, MIN_ST).bind_output(dst.view(MIN_ST));
                std::string out = "direct";
                for (std::size_t i = 0; i < seq.size(); ++i)
                {
                    if (!seq[i].has_value()) continue;
                    const DateTime t = MIN_ST + MIN_TD * static_cast<std::int64_t>(i);
                    apply_delta(src.view(t), seq[i]->view());
                    auto iv = in_src.view(nullptr, t);
                    out += " " + std::to_string(i) + ":";
                    if (!iv.modified())
                    {
                        out += "-|-|" + print_state(*sch, src.view(t)) + "|" + print_state(*sch, dst.view(t));
                        continue;
                    }
                    Value d = capture_delta(iv);
                    out += print_delta(*sch, d.view());
                    out += delta_is_observable(iv, d.view()) ? "" : "!unobservable";
                    apply_delta(dst.view(t), d.view());
                    auto iv2 = in_dst.view(nullptr, t);
                    out += "|";
                    if (iv2.modified()) { Value d2 = capture_delta(iv2); out += print_delta(*sch, d2.view()); }
                    else { out += "-"; }
                    out += "|" + print_state(*sch, src.view(t)) + "|" + print_state(*sch, dst.view(t));
                }
                std::cout << out << "\n";
            }
            else { std::cout << "bad-op\n"; }
        }
        catch (const std::exception &e)
        {
            if (verbose) std::cerr << "exception: " << e.what() << "\n";
            std::cout << "err:run:" << err_class(e) << "\n";
        }
    }
    return 0;
}
