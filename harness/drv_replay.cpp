// hgv_replay (C20): record -> replay reproduces the same ticks.
//
// For a textual schema + tick history it wires a REAL graph  replay(key "in") -> record(key "out")
// through the erased, name-resolved operator path (OperatorRegistry::resolve("replay"/"record") with
// an expected output schema built at run time by TypeRegistry), runs it in simulation, reads the
// recorded dense buffer back from the graph's GlobalState, then runs a second graph that replays
// that very buffer Value and records again.  One output line per input line:
//
//   case <n>              -> case <n>
//   schema <S>            -> ok | err:schema
//   tick <cycle> <delta>  -> ok | err:parse | err:order      (cycle i = MIN_ST + i*MIN_TD, strictly increasing)
//   run                   -> rec1 n=<buffer length> <cycle>:<delta> ...   | err:run
//   rerun                 -> rec2 n=<buffer length> <cycle>:<delta> ...   | err:run
//   final                 -> val1=<state> val2=<state>       (replay node's output after each run)
//   direct                -> per input tick, on bare TSOutputs (no graph): src <- apply_delta(input);
//                            d = capture_delta(src); copy <- apply_delta(d); d2 = capture_delta(copy)
//                            prints  <cycle>:<d>|<d2>|<src state>|<copy state> ...
//   states                -> states <cycle>:<state in run 1>|<state in run 2> ...   per cycle in which the stream ticked in
//                            either run (- = no tick), read by a probe node next to the record node
//   source raw|delta      -> ok      raw: the ticks of this case are WRITTEN to the source through the raw output API
//                            (harness/replay_raw.h: list.at(i), set add/remove, dict at/erase, ...), not applied with
//                            apply_delta; `run` is then the graph  hgv_rawsrc -> record(out)  and `direct` writes its
//                            source the same way.  (after `schema`, before the first tick; default: delta)
//   touch <cycle> <i>     -> ok | err:mode | err:order | err:parse   raw source, top-level dynamic TSL only: the source calls
//                            as_list().at(i) in that cycle WITHOUT writing the child (before the cycle's `tick`, if any)
// (grammar of <S>, <delta>, <state>: harness/replay_text.h)
#include "hgv_common.h"
#include "replay_text.h"
#include "replay_raw.h"

#include <hgraph/lib/std/operators/impl/record_replay_memory_impl.h>
#include <hgraph/lib/std/std_operators.h>
#include <hgraph/lib/testing/record_replay.h>
#include <hgraph/runtime/runtime.h>
#include <hgraph/types/graph_wiring.h>
#include <hgraph/types/metadata/type_registry.h>
#include <hgraph/types/operator_dispatch.h>
#include <hgraph/types/record_replay.h>
#include <hgraph/types/time_series/ts_delta.h>
#include <hgraph/types/time_series/ts_input.h>

#include <map>
#include <optional>
#include <span>

using namespace hgraph;
using namespace hgv;
using namespace hgv::rt;

namespace
{
    WiringArg ts_arg(WiringPortRef port)
    {
        WiringArg arg;
        arg.kind = WiringArg::Kind::TimeSeries;
        arg.port = std::move(port);
        return arg;
    }

    WiringArg str_arg(const std::string &s)
    {
        WiringArg arg;
        arg.kind         = WiringArg::Kind::Scalar;
        arg.scalar_value = Value{Str{s}};
        arg.scalar_meta  = scalar_meta(ScalarK::Str);
        return arg;
    }

    OperatorWireResult call_operator(Wiring &w, std::string_view name, std::vector<WiringArg> args,
                                     std::optional<bool> output_required, const TSValueTypeMetaData *expected)
    {
        ResolvedOperatorCall resolved = OperatorRegistry::instance().resolve(
            name, std::span<const WiringArg>{args.data(), args.size()}, output_required, expected, {},
            w.operator_state(), &w);
        return resolved.impl->wire(w, resolved.map, resolved.args, resolved.kwargs);
    }

    // probe key -> cycle -> state text of the observed stream at the end of that cycle (cycles in which it ticked)
    std::map<std::string, std::map<std::size_t, std::string>> g_states;
    const Sch                                               *g_probe_sch{nullptr};

    struct StateProbe
    {
        static constexpr auto name = "c20_state_probe";
        static void eval(In<"ts", TsVar<"S">, InputValidity::Unchecked> ts, Scalar<"key", Str> key, DateTime now)
        {
            if (!ts.base().modified()) { return; }
            g_states[key.value()].insert_or_assign(testing::cycle_offset(now), print_state(*g_probe_sch, ts.base()));
        }
    };

    struct RunResult
    {
        std::vector<std::optional<Value>> deltas;
        Value                             buffer;   // the recorded dense buffer itself (owning copy)
        bool                              has_buffer{false};
        std::string                       final_state;
        std::map<std::size_t, std::string> states;   // probe: cycle -> state
    };

    // replay(in) -> record(out); `seed` puts the replay buffer on the builder's GlobalState.
    // `raw`: the source is hgv_rawsrc playing g_raw_script instead of replay(in).
    template <typename Seed>
    RunResult run_graph(const Sch &sch, Seed seed, bool raw = false)
    {
        Wiring w;
        record_replay::set_config(w.global_state(),
                                  record_replay::RecordReplayConfig{.backend = std::string{record_replay::TESTING}});
        auto src = call_operator(w, raw ? "hgv_rawsrc" : "replay", {str_arg("in")}, true, sch.meta);
        if (!src.has_output) throw std::logic_error("source has no output");
        const WiringPortRef port = src.output.erased();
        (void)call_operator(w, "record", {ts_arg(port), str_arg("out")}, false, nullptr);
        g_probe_sch = &sch;
        g_states.erase("probe");
        (void)wire<StateProbe>(w, Port<void>{w, port}, Str{"probe"});
        GraphBuilder gb = std::move(w).finish();
        seed(gb.global_state());
        GraphExecutorBuilder eb;
        eb.graph_builder(std::move(gb)).start_time(MIN_ST).end_time(MAX_ET);
        GraphExecutorValue executor = eb.make_executor();
        auto               view     = executor.view();
        view.run();
        RunResult  r;
        r.states      = g_states["probe"];
        const auto gs = view.graph().global_state();
        r.deltas      = testing::get_recorded_deltas(gs, "out");
        const ValueView buffer = gs.get("out");
        if (buffer.valid())
        {
            r.buffer     = Value{buffer};
            r.has_buffer = true;
        }
        const auto graph = view.graph();
        for (std::size_t i = 0; i < 3; ++i)
        {
            auto node = graph.node_at(i);
            if (node.has_output())
            {
                r.final_state = print_state(sch, node.output(graph.evaluation_time()));
                break;
            }
        }
        return r;
    }

    std::string print_recording(const Sch &sch, const char *tag, const RunResult &r)
    {
        std::string out = std::string(tag) + " n=" + std::to_string(r.deltas.size());
        for (std::size_t i = 0; i < r.deltas.size(); ++i)
        {
            if (!r.deltas[i].has_value()) continue;
            out += " " + std::to_string(i) + ":" + print_delta(sch, r.deltas[i]->view());
        }
        return out;
    }

    std::string err_class(const std::exception &e)
    {
        if (dynamic_cast<const ParseError *>(&e)) return "parse";
        if (dynamic_cast<const OperatorResolutionError *>(&e)) return "resolve";
        if (dynamic_cast<const std::invalid_argument *>(&e)) return "invalid";
        if (dynamic_cast<const std::logic_error *>(&e)) return "logic";
        return "other";
    }
}  // namespace

int main(int argc, char **argv)
{
    std::ios::sync_with_stdio(false);
    const bool verbose = argc > 1 && std::string(argv[1]) == "-v";
    hgraph::stdlib::register_standard_operators();
    register_rawsrc();

    std::unique_ptr<Sch>                            sch;
    std::vector<std::pair<std::size_t, std::string>> ticks;   // (cycle, delta text)
    std::vector<std::pair<std::size_t, std::size_t>> touches; // (cycle, index), raw source only
    bool                                            raw = false;
    std::optional<RunResult>                        run1, run2;
    std::string                                     line;

    auto build_seed = [&]() {
        std::vector<std::optional<Value>> seq;
        for (auto &[cycle, text] : ticks)
        {
            while (seq.size() < cycle) seq.emplace_back(std::nullopt);
            Cursor c{text};
            Value  v = parse_delta(*sch, c);
            if (!c.eof()) throw ParseError("trailing input");
            seq.emplace_back(std::move(v));
        }
        return seq;
    };

    auto build_script = [&]() { return build_raw_script(*sch, ticks, touches); };

    while (std::getline(std::cin, line))
    {
        auto w = split(line);
        if (w.empty()) { std::cout << "\n"; continue; }
        const std::string &op = w[0];
        try
        {
            if (op == "case")
            {
                sch.reset(); ticks.clear(); touches.clear(); raw = false; run1.reset(); run2.reset();
                std::cout << line << "\n";
            }
            else if (op == "schema" && w.size() == 2)
            {
                try
                {
                    Cursor c{w[1]};
                    auto   s = parse_schema(c);
                    if (!c.eof()) throw ParseError("trailing input");
                    sch = std::move(s);
                    ticks.clear(); touches.clear(); raw = false; run1.reset(); run2.reset();
                    std::cout << "ok\n";
                }
                catch (const std::exception &e)
                {
                    if (verbose) std::cerr << e.what() << "\n";
                    std::cout << "err:schema\n";
                }
            }
            else if (op == "tick" && w.size() == 3)
            {
                if (!sch) { std::cout << "err:schema\n"; continue; }
                const long long cyc = std::stoll(w[1]);
                if (!raw_order_ok(cyc, true, ticks, touches))
                {
                    std::cout << "err:order\n";
                    continue;
                }
                try
                {
                    Cursor c{w[2]};
                    (void)parse_delta(*sch, c);
                    if (!c.eof()) throw ParseError("trailing input");
                    ticks.emplace_back(static_cast<std::size_t>(cyc), w[2]);
                    std::cout << "ok\n";
                }
                catch (const ParseError &e)
                {
                    if (verbose) std::cerr << e.what() << "\n";
                    std::cout << "err:parse\n";
                }
            }
            else if (op == "source" && w.size() == 2 && (w[1] == "raw" || w[1] == "delta"))
            {
                if (!sch) { std::cout << "err:schema\n"; continue; }
                if (!ticks.empty() || !touches.empty()) { std::cout << "err:order\n"; continue; }
                raw = w[1] == "raw";
                std::cout << "ok\n";
            }
            else if (op == "touch" && w.size() == 3)
            {
                if (!sch) { std::cout << "err:schema\n"; continue; }
                if (!raw || sch->kind != Kind::TSL || !sch->dyn) { std::cout << "err:mode\n"; continue; }
                long long cyc = -1, idx = -1;
                try { cyc = std::stoll(w[1]); idx = std::stoll(w[2]); }
                catch (...) { std::cout << "err:parse\n"; continue; }
                if (cyc < 0 || idx < 0 || static_cast<std::size_t>(idx) >= DYN_MAX) { std::cout << "err:parse\n"; continue; }
                if (!raw_order_ok(cyc, false, ticks, touches))
                {
                    std::cout << "err:order\n";
                    continue;
                }
                touches.emplace_back(static_cast<std::size_t>(cyc), static_cast<std::size_t>(idx));
                std::cout << "ok\n";
            }
            else if (op == "run" && w.size() == 1)
            {
                if (!sch) { std::cout << "err:schema\n"; continue; }
                if (raw)
                {
                    g_raw_script = build_script();
                    run1         = run_graph(*sch, [&](GlobalStateView) {}, true);
                    run2.reset();
                    std::cout << print_recording(*sch, "rec1", *run1) << "\n";
                    continue;
                }
                auto seq = build_seed();
                run1     = run_graph(*sch, [&](GlobalStateView gs) { testing::set_replay_deltas(gs, "in", seq); });
                run2.reset();
                std::cout << print_recording(*sch, "rec1", *run1) << "\n";
            }
            else if (op == "rerun" && w.size() == 1)
            {
                if (!sch || !run1) { std::cout << "err:norun\n"; continue; }
                // replay the recording itself: the typed dense buffer Value read from run 1's GlobalState
                run2 = run_graph(*sch, [&](GlobalStateView gs) {
                    if (run1->has_buffer) gs.set("in", run1->buffer);
                });
                std::cout << print_recording(*sch, "rec2", *run2) << "\n";
            }
            else if (op == "final" && w.size() == 1)
            {
                if (!run1 || !run2) { std::cout << "err:norun\n"; continue; }
                std::cout << "val1=" << run1->final_state << " val2=" << run2->final_state << "\n";
            }
            else if (op == "states" && w.size() == 1)
            {
                if (!run1 || !run2) { std::cout << "err:norun\n"; continue; }
                std::map<std::size_t, std::pair<std::string, std::string>> rows;
                for (const auto &[cycle, text] : run1->states) { rows[cycle] = {text, "-"}; }
                for (const auto &[cycle, text] : run2->states)
                {
                    auto it = rows.find(cycle);
                    if (it == rows.end()) { rows[cycle] = {"-", text}; }
                    else { it->second.second = text; }
                }
                std::string out = "states";
                for (const auto &[cycle, pr] : rows) { out += " " + std::to_string(cycle) + ":" + pr.first + "|" + pr.second; }
                std::cout << out << "\n";
            }
            else if (op == "direct" && w.size() == 1)
            {
                if (!sch) { std::cout << "err:schema\n"; continue; }
                RawScript script;
                if (raw) { script = build_script(); }
                auto     seq = raw ? std::vector<std::optional<Value>>{} : build_seed();
                if (raw)
                {
                    // one slot per cycle up to the last step; the slot only says "a step happens here"
                    for (const auto &st : script.steps)
                    {
                        while (seq.size() < st.cycle) seq.emplace_back(std::nullopt);
                        seq.emplace_back(Value{true});
                    }
                }
                std::size_t next_step = 0;
                TSOutput src{sch->meta};
                TSOutput dst{sch->meta};
                TSInput  in_src{TSInputBuilderFactory::checked_builder_for(*sch->meta, TSEndpointSchema::peered(sch->meta))};
                TSInput  in_dst{TSInputBuilderFactory::checked_builder_for(*sch->meta, TSEndpointSchema::peered(sch->meta))};
                in_src.view(nullptr, MIN_ST).bind_output(src.view(MIN_ST));
                in_dst.view(nullptr, MIN_ST).bind_output(dst.view(MIN_ST));
                std::string out = "direct";
                for (std::size_t i = 0; i < seq.size(); ++i)
                {
                    if (!seq[i].has_value()) continue;
                    const DateTime t = MIN_ST + MIN_TD * static_cast<std::int64_t>(i);
                    if (raw) { raw_step(*sch, src.view(t), script.steps[next_step++]); }
                    else { apply_delta(src.view(t), seq[i]->view()); }
                    auto iv = in_src.view(nullptr, t);
                    out += " " + std::to_string(i) + ":";
                    if (!iv.modified())
                    {
                        out += "-|-|" + print_state(*sch, src.view(t)) + "|" + print_state(*sch, dst.view(t));
                        continue;
                    }
                    Value d = capture_delta(iv);
                    out += print_delta(*sch, d.view());
                    out += delta_is_observable(iv, d.view()) ? "" : "!unobservable";
                    apply_delta(dst.view(t), d.view());
                    auto iv2 = in_dst.view(nullptr, t);
                    out += "|";
                    if (iv2.modified()) { Value d2 = capture_delta(iv2); out += print_delta(*sch, d2.view()); }
                    else { out += "-"; }
                    out += "|" + print_state(*sch, src.view(t)) + "|" + print_state(*sch, dst.view(t));
                }
                std::cout << out << "\n";
            }
            else { std::cout << "bad-op\n"; }
        }
        catch (const std::exception &e)
        {
            if (verbose) std::cerr << "exception: " << e.what() << "\n";
            std::cout << "err:run:" << err_class(e) << "\n";
        }
    }
    return 0;
}
