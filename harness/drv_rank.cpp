// hgv_rank: builds a real hgraph::Wiring from a textual program and calls the real
// Wiring::finish() (graph_wiring.cpp build_ranked_graph: Kahn pass, cycle detection, edge
// emission; graph.cpp compute_push_source_nodes_end).  One output line per input line.
//
//   case <id>                         -> "case <id>"   (fresh Wiring)
//   node <label> <push:0|1> <in>*     -> "ok" | "bad-op"
//        <in> = r:<label>  rank-carrying input (WiringInputRef.rank_dependency = true)
//               f:<label>  rank-free input     (WiringInputRef.rank_dependency = false)
//               R:/F:<label>  the same, but always routed through a delayed_binding handle
//        A producer label that is not declared yet (forward reference, self loop) is wired through
//        the erased delayed_binding handle and bound when the producer's `node` line arrives.
//        0-3 inputs; push sources take no rank-free input (bad-op).
//   dep <label> <depends_on>          -> "ok" | "err:other" | "bad-op"   (Wiring::add_rank_dependency)
//   pair <capture> <source>           -> "ok" | "err:other" | "bad-op"   (Wiring::add_same_cycle_pair)
//   finish                            -> "order=<l>,.. edges=<src>><dst>.<slot>,.. push=<n>"
//                                        | "err:cycle" | "err:other"
//   anything else                     -> "bad-op"
#include "hgv_common.h"

#include <hgraph/runtime/push_source_node.h>
#include <hgraph/types/graph_wiring.h>
#include <hgraph/types/static_node.h>

#include <algorithm>
#include <array>
#include <map>
#include <memory>
#include <optional>
#include <stdexcept>
#include <tuple>

using namespace hgraph;
using namespace hgv;

namespace
{
    // Labelled dummy static nodes.  The scalar `label` is distinct per statement, so Wiring::add_node
    // never interns two of them into one instance.
    struct Dummy0
    {
        static constexpr auto name              = "hgv_dummy0";
        static constexpr bool schedule_on_start = true;
        static void           eval(Scalar<"label", Int> label, Out<TS<Int>> out) { out.set(label.value()); }
    };
    struct Dummy1
    {
        static constexpr auto name = "hgv_dummy1";
        static void eval(In<"a", TS<Int>> a, Scalar<"label", Int> label, Out<TS<Int>> out) { out.set(label.value()); }
    };
    struct Dummy2
    {
        static constexpr auto name = "hgv_dummy2";
        static void eval(In<"a", TS<Int>> a, In<"b", TS<Int>> b, Scalar<"label", Int> label, Out<TS<Int>> out)
        {
            out.set(label.value());
        }
    };
    struct Dummy3
    {
        static constexpr auto name = "hgv_dummy3";
        static void eval(In<"a", TS<Int>> a, In<"b", TS<Int>> b, In<"c", TS<Int>> c, Scalar<"label", Int> label,
                         Out<TS<Int>> out)
        {
            out.set(label.value());
        }
    };

    struct PushTag
    {
    };

    // The concrete-node tail of wire<X>() (graph_wiring.h wire_static_node_normal), with explicit
    // WiringInputRef so that rank_dependency can be chosen per input.
    template <typename X>
    WiringPortRef add_dummy(Wiring &w, const std::vector<WiringInputRef> &inputs, Int label, const std::string &name)
    {
        using signature    = StaticNodeSignature<X>;
        const auto binding = value_type_for_wiring(signature::scalar_schema());
        Value      scalars{binding};
        {
            auto mutation                                        = scalars.as_bundle().begin_mutation();
            mutation["label"].template checked_mutable_as<Int>() = label;
        }
        std::vector<WiringPortRef> sources;
        for (const auto &in : inputs) sources.push_back(in.source);
        NodeBuilder builder = graph_wiring_detail::build_node_builder<X>();
        builder.input_endpoint(graph_wiring_detail::input_endpoint_for_sources(
            builder.type().schema() != nullptr ? builder.type().schema()->input_schema : nullptr,
            std::span<const WiringPortRef>{sources.data(), sources.size()}));
        builder.label(name);
        return w.add_node(std::type_index(typeid(X)), std::move(builder),
                          std::span<const WiringInputRef>{inputs.data(), inputs.size()}, std::move(scalars));
    }

    struct Prog
    {
        std::unique_ptr<Wiring>                               w;
        std::map<std::string, WiringPortRef>                  ports;     // declared nodes
        std::map<std::string, ErasedDelayedBindingWiringPort> pending;   // forward references by label
        Int                                                   next_label{0};
    };

    Prog fresh()
    {
        Prog p;
        p.w = std::make_unique<Wiring>();
        return p;
    }

    std::string classify(const std::exception &e)
    {
        const std::string msg = e.what();
        return msg.find("cycle in the wiring graph") != std::string::npos ? "err:cycle" : "err:other";
    }
}  // namespace

int main()
{
    std::ios::sync_with_stdio(false);
    const TSValueTypeMetaData *ts_int = ts_type<TS<Int>>();
    Prog                       prog   = fresh();
    std::string                line;
    while (std::getline(std::cin, line))
    {
        auto tok = split(line);
        if (tok.empty()) { std::cout << "\n"; continue; }
        const std::string &op = tok[0];
        try
        {
            if (op == "case" && tok.size() == 2)
            {
                prog = fresh();
                std::cout << line << "\n";
            }
            else if (op == "node" && tok.size() >= 3 && tok.size() <= 6 && (tok[2] == "0" || tok[2] == "1"))
            {
                const std::string &label = tok[1];
                const bool         push  = tok[2] == "1";
                bool               bad   = prog.ports.count(label) != 0;
                for (std::size_t i = 3; i < tok.size() && !bad; ++i)
                {
                    const std::string &t = tok[i];
                    if (t.size() < 3 || t[1] != ':' || std::string("rfRF").find(t[0]) == std::string::npos) bad = true;
                    else if (push && (t[0] == 'f' || t[0] == 'F')) bad = true;
                }
                if (bad) { std::cout << "bad-op\n"; continue; }
                Wiring                     &w = *prog.w;
                std::vector<WiringInputRef> inputs;
                for (std::size_t i = 3; i < tok.size(); ++i)
                {
                    const char        kind     = tok[i][0];
                    const std::string producer = tok[i].substr(2);
                    const bool        rank     = kind == 'r' || kind == 'R';
                    const bool        force    = kind == 'R' || kind == 'F';
                    WiringPortRef     source;
                    auto              declared = prog.ports.find(producer);
                    if (declared != prog.ports.end() && !force) { source = declared->second; }
                    else if (declared != prog.ports.end())
                    {
                        ErasedDelayedBindingWiringPort handle{w, ts_int};
                        source = handle.port();
                        handle.bind(declared->second);
                    }
                    else
                    {
                        auto it = prog.pending.find(producer);
                        if (it == prog.pending.end())
                        {
                            it = prog.pending.emplace(producer, ErasedDelayedBindingWiringPort{w, ts_int}).first;
                        }
                        source = it->second.port();
                    }
                    inputs.push_back(WiringInputRef{.source = std::move(source), .target_path = {}, .rank_dependency = rank});
                }
                WiringPortRef out;
                if (push)
                {
                    NodeBuilder builder = make_push_source_node(*ts_int);
                    builder.label(label);
                    out = w.add_unique_node(std::type_index(typeid(PushTag)), std::move(builder),
                                            std::span<const WiringInputRef>{inputs.data(), inputs.size()}, Value{});
                }
                else
                {
                    const Int id = prog.next_label++;
                    switch (inputs.size())
                    {
                        case 0: out = add_dummy<Dummy0>(w, inputs, id, label); break;
                        case 1: out = add_dummy<Dummy1>(w, inputs, id, label); break;
                        case 2: out = add_dummy<Dummy2>(w, inputs, id, label); break;
                        default: out = add_dummy<Dummy3>(w, inputs, id, label); break;
                    }
                }
                prog.ports.emplace(label, out);
                if (auto it = prog.pending.find(label); it != prog.pending.end())
                {
                    it->second.bind(out);
                    prog.pending.erase(it);
                }
                std::cout << "ok\n";
            }
            else if ((op == "dep" || op == "pair") && tok.size() == 3)
            {
                auto a = prog.ports.find(tok[1]);
                auto b = prog.ports.find(tok[2]);
                if (a == prog.ports.end() || b == prog.ports.end()) { std::cout << "bad-op\n"; continue; }
                if (op == "dep") prog.w->add_rank_dependency(a->second.peered_node(), b->second.peered_node());
                else prog.w->add_same_cycle_pair(a->second.peered_node(), b->second.peered_node());
                std::cout << "ok\n";
            }
            else if (op == "finish" && tok.size() == 1)
            {
                // the wiring is consumed by finish() whether it succeeds or not: later lines start afresh
                std::unique_ptr<Wiring> consumed = std::move(prog.w);
                prog                             = fresh();
                GraphBuilder             graph   = std::move(*consumed).finish();
                std::vector<std::string> order;
                for (const NodeBuilder &nb : graph.nodes()) order.emplace_back(nb.label());
                std::vector<std::tuple<std::string, std::string, std::string>> edges;
                for (const GraphEdge &e : graph.edges())
                {
                    std::string path;
                    for (std::size_t p : e.target_path) path += "." + std::to_string(p);
                    for (std::size_t p : e.source_path) path += "@" + std::to_string(p);
                    edges.emplace_back(order.at(graph_edge_source_node(e.source_node)), order.at(e.target_node), path);
                }
                std::sort(edges.begin(), edges.end());
                const std::size_t push_end = graph.root_type().schema()->push_source_nodes_end;
                std::ostringstream os;
                os << "order=";
                for (std::size_t i = 0; i < order.size(); ++i) os << (i ? "," : "") << order[i];
                os << " edges=";
                for (std::size_t i = 0; i < edges.size(); ++i)
                    os << (i ? "," : "") << std::get<0>(edges[i]) << ">" << std::get<1>(edges[i]) << std::get<2>(edges[i]);
                os << " push=" << push_end;
                std::cout << os.str() << "\n";
            }
            else { std::cout << "bad-op\n"; }
        }
        catch (const std::exception &e) { std::cout << classify(e) << "\n"; }
    }
    return 0;
}
