// hgv_tslmap: runs a REAL graph
//     replay(dynamic TSL<TS<Int>> "a") [, replay(dynamic TSL<TS<Int>> "b")] [, replay(TS<Int> "z")] -> map_(f, ...) -> record
// compiled from the working tree, in simulation, for a textual growth/tick history and prints what was observed
// per engine cycle.  map_ over a DYNAMIC list is the node src/hgraph/runtime/tsl_map_node.cpp (own child store,
// own child scheduling, own output list); map_ over a fixed-size list is a wiring-time expansion and is not run here.
// One output line per input line.
//
//   case <id>                      -> "case <id>"      (flushes a pending history first)
//   cfg <fn> <ndx>                 -> "ok" | "bad-op"
//        fn : inc | acc | addidx | echo1 | echo2 | echo3 | echov | even | neg | addb | bmod | pair
//             inc     stateless           out = v + 1
//             acc     stateful            out = running sum of the ticks
//             addidx  index-consuming     out = v + 1000 * ndx                       (needs ndx = 1)
//             echoK   self-scheduling     on a tick: out = v, and K steps later out = v + 100 (a newer tick replaces
//                                         the pending one)
//             echov   self-scheduling     as echoK with K = 1 + (v mod 3): a newer tick can move the wake-up earlier
//             even    sometimes invalid   out = v only when v is even
//             neg     throwing            throws on v < 0, else out = running sum
//             addb    broadcast argument  out = v + z            (z: a TS<Int> bound whole to every child)
//             bmod    broadcast argument  out = v + z only in the cycles in which z is MODIFIED for the child (a tick of z,
//                                         or the child's first cycle: the broadcast is sampled at the child's start)
//             pair    two multiplexed dynamic lists of differing lengths: out = a[i] + 1000 * b[i]
//        ndx: 0 | 1   the function takes the list index as first argument `ndx` (a tag node then maps every child
//                     graph to its index, so lifecycle / evaluation events are printed per index)
//        (map_ over a dynamic list has NO error output: exception_time_series on it is rejected at wiring time with
//         "error capture is only supported on native nodes"; a throwing child ends the run)
//   c [set <i> <v> | bset <i> <v> | z <v>]*
//        one engine cycle (MIN_ST + n); `set i v` with i beyond the current length grows the list (the elements in
//        between exist and stay unset).  Answered when the run happens:
//        "rec=<delta|-> val=<value|_> len=<n> ev=<events|-> run=<indices|-> act=<n> cg=<n>"
//          delta : {i=v,..} sorted by index;  value: {i=v,..} every element of the output list, not valid ones as i=_
//          len   : size of the output list (also while the list is not valid yet);  ev: child-graph stop events (-i, sorted) then start events (+i, sorted),
//                  `?` when the index is unknown;  run: indices of the child graphs evaluated in this cycle, sorted
//          act/cg: TslMapNodeView::active_count() / child_graph_count() after the cycle
//        "idle" the root graph was not evaluated in that cycle
//   run                            -> "end ev=<stop events at node stop> n=<number of them> late=<stop events of children
//                                      that only came AFTER the run had returned (at executor / storage destruction)>"
// A history is run when `run`, the next `case` or EOF is read.  Errors -> "err:<class>".
#include "hgv_common.h"

#include <hgraph/lib/std/std_nodes.h>
#include <hgraph/lib/std/std_operators.h>
#include <hgraph/lib/std/operators/impl/record_replay_memory_impl.h>
#include <hgraph/lib/testing/record_replay.h>
#include <hgraph/runtime/lifecycle_observer.h>
#include <hgraph/runtime/tsl_map_node.h>
#include <hgraph/runtime/runtime.h>
#include <hgraph/types/graph_wiring.h>
#include <hgraph/types/metadata/type_registry.h>
#include <hgraph/types/operator_dispatch.h>
#include <hgraph/types/static_node.h>
#include <hgraph/types/subgraph_wiring.h>
#include <hgraph/types/wired_fn.h>

#include <algorithm>
#include <map>
#include <optional>
#include <set>
#include <stdexcept>

using namespace hgraph;
using namespace hgv;

namespace
{
    using IntList = TSL<TS<Int>>;

    // ---- child graph -> index registry (filled by the tag node, read by the observer) -------------
    std::map<const void *, Int> g_graph_ndx;

    // ---- vocabulary nodes (the same functions as harness/drv_map.cpp) ------------------------------
    struct TTag
    {
        static constexpr auto name = "hgvt_tag";
        static void eval(NodeView node, In<"ndx", TS<Int>> ndx) { g_graph_ndx[node.graph().data()] = ndx.value(); }
    };

    struct TInc
    {
        static constexpr auto name = "hgvt_inc";
        static void eval(In<"ts", TS<Int>> ts, Out<TS<Int>> out) { out.set(ts.value() + Int{1}); }
    };

    struct TAcc
    {
        static constexpr auto name = "hgvt_acc";
        static void start(State<Int> total) { total.set(Int{0}); }
        static void eval(In<"ts", TS<Int>> ts, State<Int> total, Out<TS<Int>> out)
        {
            total.set(total.get() + ts.value());
            out.set(total.get());
        }
    };

    struct TAddIdx
    {
        static constexpr auto name = "hgvt_addidx";
        static void eval(In<"ndx", TS<Int>> ndx, In<"ts", TS<Int>> ts, Out<TS<Int>> out)
        {
            out.set(ts.value() + Int{1000} * ndx.value());
        }
    };

    template <int K>
    struct TEcho
    {
        static constexpr const char *name = K == 1 ? "hgvt_echo1" : K == 2 ? "hgvt_echo2" : "hgvt_echo3";
        static void start(State<Int> echo) { echo.set(Int{0}); }
        static void eval(In<"ts", TS<Int>> ts, NodeScheduler sched, State<Int> echo, Out<TS<Int>> out)
        {
            if (ts.modified())
            {
                out.set(ts.value());
                echo.set(ts.value() + Int{100});
                sched.schedule(TimeDelta{K}, std::optional<std::string>{"e"});
            }
            else { out.set(echo.get()); }
        }
    };

    struct TEchoV
    {
        static constexpr auto name = "hgvt_echov";
        static void start(State<Int> echo) { echo.set(Int{0}); }
        static void eval(In<"ts", TS<Int>> ts, NodeScheduler sched, State<Int> echo, Out<TS<Int>> out)
        {
            if (ts.modified())
            {
                out.set(ts.value());
                echo.set(ts.value() + Int{100});
                sched.schedule(TimeDelta{1 + ((ts.value() % 3) + 3) % 3}, std::optional<std::string>{"e"});
            }
            else { out.set(echo.get()); }
        }
    };

    struct TEven
    {
        static constexpr auto name = "hgvt_even";
        static void eval(In<"ts", TS<Int>> ts, Out<TS<Int>> out)
        {
            if (ts.value() % 2 == 0) { out.set(ts.value()); }
        }
    };

    struct TNeg
    {
        static constexpr auto name = "hgvt_neg";
        static void start(State<Int> total) { total.set(Int{0}); }
        static void eval(In<"ts", TS<Int>> ts, State<Int> total, Out<TS<Int>> out)
        {
            if (ts.value() < 0) { throw std::runtime_error("neg:" + std::to_string(ts.value()) + ";"); }
            total.set(total.get() + ts.value());
            out.set(total.get());
        }
    };

    struct TAddB
    {
        static constexpr auto name = "hgvt_addb";
        static void eval(In<"ts", TS<Int>> ts, In<"z", TS<Int>> z, Out<TS<Int>> out) { out.set(ts.value() + z.value()); }
    };

    struct TBMod
    {
        static constexpr auto name = "hgvt_bmod";
        static void eval(In<"ts", TS<Int>> ts, In<"z", TS<Int>> z, Out<TS<Int>> out)
        {
            if (z.modified()) { out.set(ts.value() + z.value()); }
        }
    };

    struct TPair
    {
        static constexpr auto name = "hgvt_pair";
        static void eval(In<"lhs", TS<Int>> lhs, In<"rhs", TS<Int>> rhs, Out<TS<Int>> out)
        {
            out.set(lhs.value() + Int{1000} * rhs.value());
        }
    };

    // ---- mapped functions (sub-graphs) -------------------------------------------------------------
    using P  = Port<TS<Int>>;
    using NP = NamedPort<"ndx", TS<Int>>;

    template <typename Node, int Id>
    struct G1
    {
        static constexpr const char *names[] = {"hgvt_g_inc", "hgvt_g_acc", "hgvt_g_echo1", "hgvt_g_echo2", "hgvt_g_echo3",
                                                "hgvt_g_even", "hgvt_g_neg", "hgvt_g_echov"};
        static constexpr const char *name = names[Id];
        static P compose(Wiring &w, P ts) { return wire<Node>(w, ts); }
    };

    template <typename Node, int Id>
    struct G1N
    {
        static constexpr const char *names[] = {"hgvt_n_inc", "hgvt_n_acc", "hgvt_n_echo1", "hgvt_n_echo2", "hgvt_n_echo3",
                                                "hgvt_n_even", "hgvt_n_neg", "hgvt_n_echov"};
        static constexpr const char *name = names[Id];
        static P compose(Wiring &w, NP ndx, P ts)
        {
            wire<TTag>(w, ndx);
            return wire<Node>(w, ts);
        }
    };

    struct GAddIdx
    {
        static constexpr auto name = "hgvt_n_addidx";
        static P compose(Wiring &w, NP ndx, P ts)
        {
            wire<TTag>(w, ndx);
            return wire<TAddIdx>(w, ndx, ts);
        }
    };

    struct GAddB
    {
        static constexpr auto name = "hgvt_g_addb";
        static P compose(Wiring &w, P ts, P z) { return wire<TAddB>(w, ts, z); }
    };
    struct GAddBN
    {
        static constexpr auto name = "hgvt_n_addb";
        static P compose(Wiring &w, NP ndx, P ts, P z)
        {
            wire<TTag>(w, ndx);
            return wire<TAddB>(w, ts, z);
        }
    };

    struct GBMod
    {
        static constexpr auto name = "hgvt_g_bmod";
        static P compose(Wiring &w, P ts, P z) { return wire<TBMod>(w, ts, z); }
    };
    struct GBModN
    {
        static constexpr auto name = "hgvt_n_bmod";
        static P compose(Wiring &w, NP ndx, P ts, P z)
        {
            wire<TTag>(w, ndx);
            return wire<TBMod>(w, ts, z);
        }
    };

    struct GPair
    {
        static constexpr auto name = "hgvt_g_pair";
        static P compose(Wiring &w, P lhs, P rhs) { return wire<TPair>(w, lhs, rhs); }
    };
    struct GPairN
    {
        static constexpr auto name = "hgvt_n_pair";
        static P compose(Wiring &w, NP ndx, P lhs, P rhs)
        {
            wire<TTag>(w, ndx);
            return wire<TPair>(w, lhs, rhs);
        }
    };

    // ---- configuration / history ------------------------------------------------------------------
    struct Cfg
    {
        std::string fn{"inc"};
        bool        ndx{false};
    };

    bool fn_known(const std::string &f)
    {
        static const std::set<std::string> k{"inc", "acc", "addidx", "echo1", "echo2", "echo3", "echov", "even", "neg", "addb", "bmod", "pair"};
        return k.count(f) > 0;
    }

    struct Op
    {
        std::string  what;
        std::int64_t i{0}, v{0};
    };

    template <typename Node, int Id>
    WiredFn unary(bool ndx) { return ndx ? fn<G1N<Node, Id>>() : fn<G1<Node, Id>>(); }

    // ---- observation ---------------------------------------------------------------------------------
    struct Ev
    {
        char               kind;   // '+' start, '-' stop, 'r' evaluated
        std::optional<Int> ndx;
        const void        *mem;
    };

    struct CycleObs
    {
        bool            seen{false};
        std::string     val{"_"};
        std::size_t     len{0}, act{0}, cg{0};
        std::vector<Ev> events;
    };

    std::string join_sorted(std::vector<std::pair<std::pair<int, Int>, std::string>> items)
    {
        std::stable_sort(items.begin(), items.end(), [](const auto &a, const auto &b) { return a.first < b.first; });
        std::string out;
        for (auto &it : items)
        {
            if (!out.empty()) { out += ","; }
            out += it.second;
        }
        return out;
    }

    std::string list_state(const TSOutputView &out, std::size_t &len)
    {
        auto l = out.as_list();
        len    = l.size();
        if (!out.valid()) { return "_"; }
        std::string s = "{";
        for (std::size_t i = 0; i < len; ++i)
        {
            auto child = l.at(i);
            if (i != 0) { s += ","; }
            s += std::to_string(i) + "=" + (child.valid() ? std::to_string(child.value().checked_as<Int>()) : std::string{"_"});
        }
        return s + "}";
    }

    std::string list_delta_text(const ValueView &v)
    {
        std::vector<std::pair<std::pair<int, Int>, std::string>> items;
        for (auto &&[kv, dv] : v.as_map().entries())
        {
            const Int k = kv.checked_as<Int>();
            items.push_back({{0, k}, std::to_string(k) + "=" + std::to_string(dv.checked_as<Int>())});
        }
        return "{" + join_sorted(std::move(items)) + "}";
    }

    struct Obs final : LifecycleObserver
    {
        std::vector<CycleObs>      cycles;
        std::vector<Ev>            pending;       // events since the last completed root evaluation
        std::vector<Ev>            shutdown;
        std::optional<std::size_t> main_map;
        bool                       stopping{false};

        bool is_main_child(const GraphView &g)
        {
            if (!g.valid() || g.is_root() || !g.is_nested()) { return false; }
            auto parent = g.as_nested().parent_node();
            if (!parent.graph().is_root() || !parent.is<TslMapNodeView>()) { return false; }
            if (!main_map.has_value()) { locate(parent.graph()); }
            return main_map.has_value() && parent.node_index() == *main_map;
        }

        void locate(const GraphView &root)
        {
            for (std::size_t i = 0; i < root.node_count(); ++i)
            {
                if (root.node_at(i).is<TslMapNodeView>()) { main_map = i; return; }
            }
        }

        std::optional<Int> ndx_of(const void *mem) const
        {
            auto it = g_graph_ndx.find(mem);
            if (it == g_graph_ndx.end()) { return std::nullopt; }
            return it->second;
        }

        void on_before_start_graph(const GraphView &g) override
        {
            if (is_main_child(g)) { g_graph_ndx.erase(g.data()); }
        }
        void on_after_start_graph(const GraphView &g) override
        {
            if (is_main_child(g)) { pending.push_back(Ev{'+', std::nullopt, g.data()}); }
        }
        void on_before_stop_graph(const GraphView &g) override
        {
            if (g.valid() && g.is_root()) { stopping = true; return; }
            if (is_main_child(g)) { (stopping ? shutdown : pending).push_back(Ev{'-', ndx_of(g.data()), g.data()}); }
        }
        void on_before_graph_evaluation(const GraphView &g) override
        {
            if (!g.is_root() && is_main_child(g)) { pending.push_back(Ev{'r', std::nullopt, g.data()}); }
        }
        void on_after_graph_evaluation(const GraphView &g) override
        {
            if (!g.is_root()) { return; }
            const auto i = testing::cycle_offset(g.evaluation_time());
            if (i >= cycles.size()) { cycles.resize(i + 1); }
            CycleObs &o = cycles[i];
            o.seen      = true;
            if (!main_map.has_value()) { locate(g); }
            if (main_map.has_value())
            {
                auto node = g.node_at(*main_map);
                o.val     = list_state(node.output(g.evaluation_time()), o.len);
                auto mv   = node.as<TslMapNodeView>();
                o.act     = mv.active_count();
                o.cg      = mv.child_graph_count();
            }
            // indices of graphs started (and tagged) in this cycle are known by now
            for (Ev &e : pending)
            {
                if (!e.ndx.has_value()) { e.ndx = ndx_of(e.mem); }
            }
            o.events = std::move(pending);
            pending.clear();
        }
    };

    std::string events_text(const std::vector<Ev> &events, bool runs)
    {
        std::vector<std::pair<std::pair<int, Int>, std::string>> items;
        for (const Ev &e : events)
        {
            if (runs != (e.kind == 'r')) { continue; }
            const Int k     = e.ndx.value_or(Int{std::numeric_limits<std::int32_t>::max()});
            const int group = e.kind == '-' ? 0 : 1;
            items.push_back({{group, k}, (runs ? std::string{} : std::string(1, e.kind)) +
                                             (e.ndx.has_value() ? std::to_string(*e.ndx) : std::string{"?"})});
        }
        auto s = join_sorted(std::move(items));
        return s.empty() ? "-" : s;
    }

    std::size_t count_kind(const std::vector<Ev> &events, char kind)
    {
        return static_cast<std::size_t>(std::count_if(events.begin(), events.end(), [&](const Ev &e) { return e.kind == kind; }));
    }

    // ---- one run ------------------------------------------------------------------------------------------
    std::vector<std::string> run_history(const Cfg &cfg, const std::vector<std::vector<Op>> &cycles)
    {
        const bool bcast = cfg.fn == "addb" || cfg.fn == "bmod";
        const bool two   = cfg.fn == "pair";
        g_graph_ndx.clear();

        Wiring w{WiringKind::TopLevel, WiringOptions{}};
        auto          a = wire<stdlib::replay_impl, IntList>(w, Str{"hgv::a"});
        Port<IntList> m;
        if (bcast)
        {
            auto z = wire<stdlib::replay_impl, TS<Int>>(w, Str{"hgv::z"});
            m      = cfg.fn == "bmod" ? wire<stdlib::map_>(w, cfg.ndx ? fn<GBModN>() : fn<GBMod>(), a, z).as<IntList>()
                                      : wire<stdlib::map_>(w, cfg.ndx ? fn<GAddBN>() : fn<GAddB>(), a, z).as<IntList>();
        }
        else if (two)
        {
            auto b = wire<stdlib::replay_impl, IntList>(w, Str{"hgv::b"});
            m      = wire<stdlib::map_>(w, cfg.ndx ? fn<GPairN>() : fn<GPair>(), a, b).as<IntList>();
        }
        else
        {
            WiredFn f = cfg.fn == "inc"     ? unary<TInc, 0>(cfg.ndx)
                        : cfg.fn == "acc"   ? unary<TAcc, 1>(cfg.ndx)
                        : cfg.fn == "echo1" ? unary<TEcho<1>, 2>(cfg.ndx)
                        : cfg.fn == "echo2" ? unary<TEcho<2>, 3>(cfg.ndx)
                        : cfg.fn == "echo3" ? unary<TEcho<3>, 4>(cfg.ndx)
                        : cfg.fn == "echov" ? unary<TEchoV, 7>(cfg.ndx)
                        : cfg.fn == "even"  ? unary<TEven, 5>(cfg.ndx)
                        : cfg.fn == "neg"   ? unary<TNeg, 6>(cfg.ndx)
                                            : fn<GAddIdx>();
            m = wire<stdlib::map_>(w, f, a).as<IntList>();
        }
        wire<stdlib::dense_record_impl>(w, m, Str{"hgv::out"});
        GraphBuilder gb = std::move(w).finish();

        std::vector<std::optional<Value>> a_deltas, b_deltas, z_deltas;
        for (const auto &ops : cycles)
        {
            std::map<std::size_t, Int> amod, bmod;
            std::optional<Value>       z;
            for (const Op &op : ops)
            {
                if (op.what == "set") { amod[static_cast<std::size_t>(op.i)] = Int{op.v}; }
                else if (op.what == "bset") { bmod[static_cast<std::size_t>(op.i)] = Int{op.v}; }
                else if (op.what == "z") { z = Value{Int{op.v}}; }
            }
            if (amod.empty()) { a_deltas.emplace_back(std::nullopt); }
            else { a_deltas.emplace_back(static_node_detail::build_list_delta<TS<Int>>(amod)); }
            if (bmod.empty()) { b_deltas.emplace_back(std::nullopt); }
            else { b_deltas.emplace_back(static_node_detail::build_list_delta<TS<Int>>(bmod)); }
            z_deltas.push_back(std::move(z));
        }
        testing::set_replay_deltas(gb.global_state(), "hgv::a", a_deltas);
        if (two) { testing::set_replay_deltas(gb.global_state(), "hgv::b", b_deltas); }
        if (bcast) { testing::set_replay_deltas(gb.global_state(), "hgv::z", z_deltas); }

        Obs                      obs;
        std::vector<std::string> lines;
        bool                     failed      = false;
        std::size_t              stops_in_run = 0;   // child stop events seen until view.run() returned (node stop)
        {
            GraphExecutorBuilder eb;
            eb.graph_builder(std::move(gb))
                .mode(GraphExecutorMode::Simulation)
                .start_time(MIN_ST)
                .end_time(MIN_ST + TimeDelta{static_cast<std::int64_t>(cycles.size())});
            eb.add_lifecycle_observer(&obs);
            GraphExecutorValue executor = eb.make_executor();
            auto               view     = executor.view();
            // an uncaptured child exception ends the run: the cycles before it are still reported
            std::size_t failed_at = cycles.size();
            try { view.run(); }
            catch (const std::exception &e)
            {
                if (std::getenv("HGV_DEBUG")) { std::cerr << e.what() << "\n"; }
                failed_at = testing::cycle_offset(view.graph().evaluation_time());
                failed    = true;
            }
            stops_in_run = obs.shutdown.size();

            auto                              recorded = testing::get_recorded_deltas(view.graph().global_state(), "hgv::out");
            for (std::size_t i = 0; i < cycles.size(); ++i)
            {
                if (i >= failed_at)
                {
                    lines.push_back("err:exception");
                    continue;
                }
                const bool have = i < obs.cycles.size() && obs.cycles[i].seen;
                const bool rec  = i < recorded.size() && recorded[i].has_value();
                if (!have)
                {
                    lines.push_back(rec ? "err:record-without-evaluation" : "idle");
                    continue;
                }
                const CycleObs    &o = obs.cycles[i];
                std::ostringstream s;
                s << "rec=" << (rec ? list_delta_text(recorded[i]->view()) : std::string{"-"});
                s << " val=" << o.val << " len=" << o.len << " ev=" << events_text(o.events, false)
                  << " run=" << events_text(o.events, true) << " act=" << o.act << " cg=" << o.cg;
                lines.push_back(s.str());
            }
        }
        // children stopped by the node's stop (inside run()) vs. children that were only stopped when the executor and
        // the node storage were destroyed
        std::vector<Ev> at_stop(obs.shutdown.begin(), obs.shutdown.begin() + static_cast<std::ptrdiff_t>(std::min(stops_in_run, obs.shutdown.size())));
        const auto      late = obs.shutdown.size() - at_stop.size();
        lines.push_back(failed ? std::string{"err:exception"}
                               : "end ev=" + events_text(at_stop, false) + " n=" + std::to_string(count_kind(at_stop, '-')) +
                                     " late=" + std::to_string(late));
        return lines;
    }
}  // namespace

int main()
{
    std::ios::sync_with_stdio(false);
    hgraph::stdlib::register_standard_operators();
    (void)TypeRegistry::instance().register_scalar<Int>("int");

    Cfg                          cfg;
    std::vector<std::vector<Op>> cycles;
    bool                         cfg_bad = false;

    auto flush = [&](bool with_run_line) {
        if (cycles.empty() && !with_run_line) { return; }
        std::vector<std::string> lines;
        try
        {
            if (cfg_bad) { throw std::invalid_argument("cfg"); }
            if (cycles.empty()) { lines = {"end ev=- n=0 late=0"}; }   // nothing to run
            else { lines = run_history(cfg, cycles); }
        }
        catch (const OperatorResolutionError &) { lines.assign(cycles.size() + 1, "err:resolution"); }
        catch (const std::invalid_argument &e)
        {
            lines.assign(cycles.size() + 1, "err:invalid-argument");
            if (std::getenv("HGV_DEBUG")) { std::cerr << e.what() << "\n"; }
        }
        catch (const std::exception &e)
        {
            lines.assign(cycles.size() + 1, std::string{"err:exception"});
            if (std::getenv("HGV_DEBUG")) { std::cerr << e.what() << "\n"; }
        }
        if (lines.size() != cycles.size() + 1) { lines.resize(cycles.size() + 1, lines.empty() ? "err:short" : lines.back()); }
        for (std::size_t i = 0; i < cycles.size(); ++i) { std::cout << lines[i] << "\n"; }
        if (with_run_line) { std::cout << lines.back() << "\n"; }
        cycles.clear();
    };

    std::string line;
    while (std::getline(std::cin, line))
    {
        auto w = split(line);
        if (w.empty()) { flush(false); std::cout << "\n"; continue; }
        const std::string &op = w[0];
        try
        {
            if (op == "case")
            {
                flush(false);
                cfg     = Cfg{};
                cfg_bad = false;
                std::cout << line << "\n";
            }
            else if (op == "cfg" && w.size() == 3)
            {
                flush(false);
                Cfg  c;
                bool ok = fn_known(w[1]) && (w[2] == "0" || w[2] == "1");
                c.fn    = w[1];
                c.ndx   = w[2] == "1";
                if (c.fn == "addidx" && !c.ndx) { ok = false; }
                if (ok) { cfg = c; cfg_bad = false; std::cout << "ok\n"; }
                else { cfg_bad = true; std::cout << "bad-op\n"; }
            }
            else if (op == "c")
            {
                std::vector<Op> ops;
                bool            ok = true;
                for (std::size_t i = 1; i < w.size() && ok;)
                {
                    if ((w[i] == "set" || w[i] == "bset") && i + 2 < w.size())
                    {
                        const auto idx = to_i(w[i + 1]);
                        if (idx < 0 || idx > 4096) { ok = false; break; }
                        ops.push_back({w[i], idx, to_i(w[i + 2])});
                        i += 3;
                    }
                    else if (w[i] == "z" && i + 1 < w.size()) { ops.push_back({"z", 0, to_i(w[i + 1])}); i += 2; }
                    else { ok = false; }
                }
                if (!ok) { flush(false); std::cout << "bad-op\n"; }
                else { cycles.push_back(std::move(ops)); }
            }
            else if (op == "run") { flush(true); }
            else { flush(false); std::cout << "bad-op\n"; }
        }
        catch (const std::exception &) { flush(false); std::cout << "bad-op\n"; }
    }
    flush(false);
    return 0;
}
