#!/bin/bash
# tools/make_seed_kit.sh <n>: scratch area for a seed-writing sub-agent: /tmp/seed<n>/repo (detached worktree
# of /repo HEAD) and /tmp/seed<n>/kit (build scripts only: gen_build.py, shims, stubs, a pre-built object
# copy, an empty harness/ where the agent puts drv_demo.cpp).  Nothing of the checks is in the kit.
set -e
N=$1; D=/tmp/seed$N
rm -rf $D; mkdir -p $D/kit/tools $D/kit/harness $D/kit/.build
git -C /repo worktree prune
git -C /repo worktree add --detach $D/repo HEAD >/dev/null
cp /verif/tools/gen_build.py $D/kit/tools/
cp -r /verif/build $D/kit/build
cp -r /verif/.build/obj /verif/.build/gen /verif/.build/libhgv.a $D/kit/.build/
cat > $D/kit/harness/drv_demo.cpp <<'EOC'
// write your demonstration here; `make -C .build $PWD/.build/hgv_demo` builds it against $HGV_REPO
#include <iostream>
int main() { std::cout << "PASS\n"; return 0; }
EOC
( cd $D/kit && HGV_REPO=$D/repo python3 tools/gen_build.py >/dev/null )
find $D/kit/.build \( -name '*.o' -o -name '*.a' \) -print0 | xargs -0 touch
echo $D
