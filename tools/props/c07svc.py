"""C07 (service transport contexts stream) - a process runs a HISTORY of builds of small subscription-service client
graphs (key script -> subscription key capture(path) / subscription key source(path) -> observer).  runtime/service_node.cpp
keeps PROCESS-LIFETIME transport contexts, found or created at build time - the key-source context keyed on (service path,
storage offset), the key-capture context keyed on (service path, storage offset, same_cycle); the context is also the
runtime type id under which the node type is interned, and its `same_cycle` decides whether a key change is published in
the same engine cycle (Direct) or on the next one (RequestDeferred).  What a graph does must follow from its own recipe
alone: every step must print what the same step prints when it is the ONLY thing a fresh process does.

Merged into tools/props/c07.py the way c07cfg.py is:
    streams += sv.streams(...); monitor/features/nontrivial/valid_case dispatch on stream.startswith("svcctx-");
    the module lists, the rule text, the trusted base and the assumptions are appended."""
import os
import re
import subprocess
from concurrent.futures import ThreadPoolExecutor
from vlib import Case, Stream, BUILD, VERIF, model_cmd

ID = "C07SVC"
LEAN_MODULES = ["HgVerif.Props.C07Svc"]
THEOREMS = [
    "HgVerif.SvcCtx.capture_context_mode_is_requested",
    "HgVerif.SvcCtx.source_context_is_requested",
    "HgVerif.SvcCtx.node_type_is_requested",
    "HgVerif.SvcCtx.build_mode_is_requested",
    "HgVerif.SvcCtx.registry_append_only",
    "HgVerif.SvcCtx.registry_entries_never_change",
    "HgVerif.SvcCtx.build_trace_history_free",
    "HgVerif.SvcCtx.fresh_reference_reproduces",
    "HgVerif.SvcCtx.svc_step_trace_history_free",
    "HgVerif.SvcCtx.svc_history_prefix_irrelevant",
    "HgVerif.SvcCtx.direct_publishes_same_cycle",
    "HgVerif.SvcCtx.deferred_publishes_next_cycle",
    "HgVerif.SvcCtx.deferred_never_same_cycle",
    "HgVerif.SvcCtx.modeless_key_leaks_mode",
    "HgVerif.SvcCtx.modeless_first_step_unaffected",
    "HgVerif.SvcCtx.modeless_other_path_unaffected",
]
CXX_TARGETS = ["hgv_svcctx"]
RULE = ("svcctx streams: histories of 2-5 builds (plus builder reuse) in ONE driver process, each building with "
        "make_subscription_key_capture_node / make_subscription_key_source_node a client graph key script -> capture(path) / "
        "source(path) -> observer and running it in simulation: service paths shared inside a case and distinct (the paths of a "
        "case are its own, so a reported case reproduces alone), key types int / int32 / str, hand-off mode Direct "
        "(same_cycle) / deferred in both orders on a shared path, capture ranked before the source or after it, recipes repeated "
        "verbatim, mode twins (same recipe, other mode), further executors from an earlier builder; key scripts of 1-10 cycles "
        "with changes in consecutive cycles, re-sets of the same key and idle cycles; every step's output (all engine cycle "
        "times, every tick of the published key set with removed / added / members) must equal the output of the same step run "
        "ALONE in a fresh process, and must have the documented timing of ITS OWN mode (Direct: published in the cycle of the "
        "change; deferred: never in the same cycle, in order, exactly one cycle later when the source is ranked first or no two "
        "changes are consecutive); non-trivial = a (path, key type) built with BOTH modes in one case and a key change in the "
        "later one; distinct by case text")
TRUSTED = ["svcctx: the reference of a step is the driver's own output for that step as the only action of a fresh process: a "
           "defect that shows in a process without history is outside this stream (the model correspondence and the timing "
           "monitor cover it)",
           "svcctx: most reference processes are children forked from a driver process that has done nothing yet (hgv_svcctx "
           "--fresh); a sample of them is re-run in processes started from scratch every run and must agree, and every reference "
           "needed later (shrinking, replay) comes from a process started from scratch"]
ASSUMPTIONS = ["svcctx: one client per graph, root graphs only (start-phase capture and nested clients compute the same hand-off "
               "time in both modes); the storage offsets of the two context fields are whatever the node storage plan says (the "
               "theorems hold for every assignment)",
               "svcctx: a Direct capture ranked AFTER its source asks for a cycle the scan has passed (nothing is published) and a "
               "deferred capture ranked BEFORE its source delays the publication while the key changes every cycle (each hand-off "
               "overwrites the source's wake-up for the current cycle): both are modelled as coded and excluded from the exact "
               "timing rule, not from the reproducibility rule"]

SVC = [os.path.join(BUILD, "hgv_svcctx")]


# ----------------------------------------------------------------------------- the reference of one step

_REF = {}          # build line -> output line of a fresh process (None = could not be obtained)


def _fresh(ref):
    """the step as the only input of a process started from scratch"""
    try:
        r = subprocess.run(SVC, input="case 0\n" + ref + "\n", capture_output=True, text=True, timeout=60)
    except Exception:
        return None
    lines = r.stdout.split("\n")
    if r.returncode != 0 or len(lines) < 2 or lines[0] != "case 0":
        return None
    return lines[1]


def _fresh_batch(refs):
    """every step as the only case of a child forked from a driver that has done nothing yet (--fresh)"""
    text = "".join("case 0\n%s\n" % r for r in refs)
    try:
        r = subprocess.run(SVC + ["--fresh"], input=text, capture_output=True, text=True, timeout=600)
    except Exception:
        return None
    lines = r.stdout.split("\n")
    if r.returncode != 0 or len(lines) < 2 * len(refs):
        return None
    return [lines[2 * i + 1] for i in range(len(refs))]


def reference_output(ref):
    if ref not in _REF:
        _REF[ref] = _fresh(ref)
    return _REF[ref]


def prefetch(cases):
    """the references of all build lines not yet known: in forked children of eight idle driver processes, and a sample
    of them again in processes started from scratch - if any of those differs from its forked twin, every reference is taken
    from a process started from scratch"""
    want, seen = [], set()
    for c in cases:
        for l in c.lines[1:]:
            if l.startswith("build ") and l not in _REF and l not in seen:
                seen.add(l)
                want.append(l)
    if not want:
        return
    with ThreadPoolExecutor(max_workers=8) as ex:
        chunks = [want[k::8] for k in range(8)]
        parts = list(ex.map(lambda ch: _fresh_batch(ch) if ch else [], chunks))
        if all(p is not None for p in parts):
            forked = {}
            for ch, p in zip(chunks, parts):
                forked.update(zip(ch, p))
            sample = want[:: max(1, len(want) // 24)][:24]
            scratch = dict(zip(sample, ex.map(_fresh, sample)))
            if all(scratch[x] is None or scratch[x] == forked[x] for x in sample):
                _REF.update(forked)
                return
        for ref, o in zip(want, ex.map(_fresh, want)):
            _REF[ref] = o


# ----------------------------------------------------------------------------- parsing

_PUB = re.compile(r"(\d+):-\[([\d ]*)\]\+\[([\d ]*)\]=\{([\d ]*)\}")
_OUT = re.compile(r"cyc\[([\d ]*)\] pub\[(.*)\]$")


def parse_out(o):
    """-> (cycle times, [(time, removed, added, members)])"""
    m = _OUT.match(o)
    if not m:
        raise ValueError("not a trace: %s" % o[:60])
    cyc = [int(x) for x in m.group(1).split()]
    body = m.group(2)
    pubs = []
    for tok in re.findall(r"\d+:-\[[\d ]*\]\+\[[\d ]*\]=\{[\d ]*\}", body):
        g = _PUB.match(tok)
        pubs.append((int(g.group(1)), [int(x) for x in g.group(2).split()], [int(x) for x in g.group(3).split()],
                     [int(x) for x in g.group(4).split()]))
    if " ".join("%d:-[%s]+[%s]={%s}" % (t, " ".join(map(str, r)), " ".join(map(str, a)), " ".join(map(str, ms)))
                for t, r, a, ms in pubs) != body:
        raise ValueError("not a publication list: %s" % body[:60])
    return cyc, pubs


def parse_build(line):
    """-> dict(path, kt, mode, layout, script [int|None]) or None"""
    ws = line.split()
    if len(ws) < 6 or ws[0] != "build" or ws[3] not in ("direct", "deferred") or ws[4] not in ("cs", "sc"):
        return None
    try:
        script = [None if w == "_" else int(w) for w in ws[5:]]
    except ValueError:
        return None
    return {"path": ws[1], "kt": ws[2], "mode": ws[3], "layout": ws[4], "script": script}


def changes(script):
    """the effective key changes: (cycle, previous key or None, new key)"""
    out, cur = [], None
    for i, k in enumerate(script):
        if k is not None and k != cur:
            out.append((i, cur, k))
            cur = k
    return out


def has_consecutive(script):
    ch = [c[0] for c in changes(script)]
    return any(b == a + 1 for a, b in zip(ch, ch[1:]))


def step_refs(case):
    """per body line: (kind, the build line it stands for or None)"""
    builds, out = [], []
    for l in case.lines[1:]:
        ws = l.split()
        if ws and ws[0] == "build":
            builds.append(l)
            out.append(("build", l))
        elif len(ws) == 2 and ws[0] == "reuse" and ws[1].isdigit():
            i = int(ws[1])
            out.append(("reuse", builds[i] if i < len(builds) else None))
        else:
            out.append(("other", None))
    return out


# ----------------------------------------------------------------------------- monitor

def timing(b, cyc, pubs):
    """the documented timing of the step's OWN mode; -> message or None"""
    n = len(b["script"])
    start = 1
    if cyc != sorted(set(cyc)) or cyc[:n] != list(range(start, start + n)):
        return "the engine cycles %s are not the %d script cycles followed by increasing times" % (cyc[:12], n)
    if any(p[0] not in cyc for p in pubs):
        return "a publication outside every engine cycle"
    if b["mode"] == "direct" and b["layout"] == "sc":
        return None           # mis-ranked Direct transport: outside the documented behaviour (modelled as coded)
    ch = changes(b["script"])
    want = [([] if prev is None else [prev], [k], [k]) for (_, prev, k) in ch]
    got = [(r, a, ms) for (_, r, a, ms) in pubs]
    if got != want:
        return "published %s, the key script asks for %s" % (got[:6], want[:6])
    times = [p[0] for p in pubs]
    at = [start + c[0] for c in ch]
    if b["mode"] == "direct":
        if times != at:
            return "a Direct transport publishes in the cycle of the change (%s), published at %s" % (at, times)
        return None
    exact = b["layout"] == "sc" or not has_consecutive(b["script"])
    if exact and times != [t + 1 for t in at]:
        return "a deferred transport publishes one cycle after the change (%s), published at %s" % ([t + 1 for t in at], times)
    if any(t <= a for t, a in zip(times, at)) or times != sorted(set(times)):
        return "a deferred transport never publishes in the cycle of the change (changes at %s, published at %s)" % (at, times)
    return None


def monitor(stream, case, out):
    if any(o.startswith("<") for o in out):
        return ["[crash] the implementation driver died: %s" % [o for o in out if o.startswith("<")][0][:120]]
    bad = []
    nb = 0
    for k, ((kind, ref), l, o) in enumerate(zip(step_refs(case), case.lines[1:], out[1:]), 1):
        if kind == "other" or o == "bad-op":
            if kind == "build":
                nb += 1
            continue
        if ref is None:
            bad.append("[proto] step %d '%s' names no build of its case and printed %s" % (k, l, o[:80]))
            continue
        b = parse_build(ref)
        if b is None:
            continue
        want = reference_output(ref)
        if want is not None and want != "bad-op" and not want.startswith("<") and o != want:
            bad.append("[repro] a service client graph behaves differently after the builds made before it in this process than "
                       "ALONE in a fresh process: step %d '%s'%s after %d build(s) gives %s ; alone it gives %s"
                       % (k, l, "" if kind == "build" else " (= '%s')" % ref, nb, o[:170], want[:170]))
        if o.startswith("err:"):
            bad.append("[proto] step %d '%s' printed %s" % (k, l, o))
        else:
            cyc, pubs = parse_out(o)
            msg = timing(b, cyc, pubs)
            if msg:
                bad.append("[timing] a service client graph does not have the timing of its own hand-off mode: step %d '%s': %s" % (k, l, msg))
        if kind == "build":
            nb += 1
    return bad[:3]


def walk(case, out):
    """-> (features, nontrivial)"""
    feats = set()
    seen = {}            # (path, kt) -> set of modes built so far in this case
    recipes = set()
    nontriv = False
    steps = 0
    for (kind, ref), l, o in zip(step_refs(case), case.lines[1:], out[1:]):
        if kind == "other" or ref is None or o == "bad-op":
            continue
        b = parse_build(ref)
        if b is None:
            continue
        steps += 1
        if kind == "reuse":
            feats.add("reuse-builder")
            feats.add("reuse-" + b["mode"])
            continue
        feats.add("%s-%s" % (b["mode"], b["layout"]))
        feats.add("kt-" + b["kt"])
        ch = changes(b["script"])
        feats.add("changes=%d" % min(len(ch), 5))
        if has_consecutive(b["script"]):
            feats.add("consecutive-changes-" + b["mode"])
        if any(k is not None for k in b["script"]) and len(ch) < sum(1 for k in b["script"] if k is not None):
            feats.add("same-key-set-again")
        if b["script"][0] is None:
            feats.add("idle-first-cycle")
        if l in recipes:
            feats.add("recipe-repeated")
        recipes.add(l)
        key = (b["path"], b["kt"])
        modes = seen.setdefault(key, [])
        if modes and b["mode"] not in modes:
            feats.add("shared-path-%s-first" % modes[0])
            if ch:
                nontriv = True
        elif modes:
            feats.add("shared-path-same-mode")
        if any(p == b["path"] and k != b["kt"] for (p, k) in seen if (p, k) != key):
            feats.add("shared-path-other-key-type")
        modes.append(b["mode"])
        if len(seen) > 1:
            feats.add("several-paths")
    feats.add("steps=%d" % min(steps, 7))
    return feats, nontriv


def features(stream, case, out):
    return sorted(walk(case, out)[0])


def nontrivial(stream, case, out):
    return walk(case, out)[1]


def valid_case(stream, case, impl_out, model_out):
    return any(l.startswith("build ") for l in case.lines)


# ----------------------------------------------------------------------------- generators

KEYS = [1, 2, 3, 4, 7]


def gen_script(rng):
    n = rng.choice([1, 2, 3, 3, 4, 4, 5, 6, 8, 10])
    style = rng.random()
    out = []
    for i in range(n):
        if style < 0.35:          # busy: a change nearly every cycle
            out.append(rng.choice(KEYS) if rng.random() < 0.85 else None)
        elif style < 0.7:         # sparse
            out.append(rng.choice(KEYS) if rng.random() < 0.4 else None)
        else:                     # mixed, few keys (re-sets of the same key)
            out.append(rng.choice(KEYS[:2]) if rng.random() < 0.6 else None)
    if all(k is None for k in out) and rng.random() < 0.9:
        out[rng.randrange(n)] = rng.choice(KEYS)
    return out


def fmt(path, kt, mode, layout, script):
    return " ".join(["build", path, kt, mode, layout] + ["_" if k is None else str(k) for k in script])


def gen_layout(rng, mode):
    if mode == "direct":
        return "cs" if rng.random() < 0.93 else "sc"
    return "sc" if rng.random() < 0.55 else "cs"


def gen_history(rng, i):
    """2-5 builds; the paths are the case's own"""
    ns = "svc://h%d/" % i
    L = ["case %d" % i]
    n = rng.randint(2, 5)
    recipes = []            # (path, kt, mode, layout, script)
    main_kt = rng.choices(["int", "i32", "str"], weights=[6, 2, 2])[0]
    shared = rng.random() < 0.8          # most cases put both modes on one path
    first_mode = rng.choice(["direct", "deferred"])
    for j in range(n):
        r = rng.random()
        if recipes and r < 0.12:
            rec = rng.choice(recipes)                                   # the same recipe again
        elif recipes and r < 0.37:
            p, kt, m, lay, sc = rng.choice(recipes)                     # mode twin: only the mode (and the rank it needs)
            m2 = "deferred" if m == "direct" else "direct"
            lay2 = lay if rng.random() < 0.5 else gen_layout(rng, m2)
            if m2 == "direct" and rng.random() < 0.9:
                lay2 = "cs"
            rec = (p, kt, m2, lay2, sc)
        else:
            path = ns + ("a" if (shared and rng.random() < 0.75) else rng.choice(["a", "b", "c"]))
            kt = main_kt if rng.random() < 0.8 else rng.choice(["int", "i32", "str"])
            if j == 0:
                mode = first_mode
            elif shared and j == 1:
                mode = "deferred" if first_mode == "direct" else "direct"
            else:
                mode = rng.choice(["direct", "deferred"])
            rec = (path, kt, mode, gen_layout(rng, mode), gen_script(rng))
        recipes.append(rec)
        L.append(fmt(*rec))
        if rng.random() < 0.15:
            L.append("reuse %d" % rng.randrange(len(recipes)))
    return Case(L, {})


def directed(start):
    """the seeded shapes: on one path and key type, a build of one mode, then the other mode, then the first again and a
    further executor of each builder - every pair of (mode, rank), same / other key type, same / other path"""
    cases, n = [], start
    scripts = [[7, None, 8, None, None, 9], [1, 2, 3, None], [None, 5, 5, 6]]
    variants = [("direct", "cs"), ("deferred", "sc"), ("deferred", "cs"), ("direct", "sc")]
    for a in variants:
        for b in variants:
            if a[0] == b[0]:
                continue
            for si, sc in enumerate(scripts):
                for kt2, other_path in (("int", False), ("str", False), ("int", True)):
                    if si > 0 and (kt2 != "int" or other_path):
                        continue
                    ns = "svc://d%d/" % n
                    L = ["case %d" % n]; n += 1
                    L.append(fmt(ns + "a", "int", a[0], a[1], sc))
                    L.append(fmt(ns + ("b" if other_path else "a"), kt2, b[0], b[1], sc))
                    L.append(fmt(ns + "a", "int", a[0], a[1], sc))
                    L.append("reuse 0")
                    L.append("reuse 1")
                    cases.append(Case(L, {}))
    # the demo of the seeded change: both orders on two paths, rebuilt at the end
    ns = "svc://d%d/" % n
    sc = [7, None, 8, None, None, 9]
    L = ["case %d" % n, fmt(ns + "x", "int", "direct", "cs", sc), fmt(ns + "x", "int", "deferred", "cs", sc),
         fmt(ns + "y", "int", "deferred", "cs", sc), fmt(ns + "y", "int", "direct", "cs", sc),
         fmt(ns + "x", "int", "direct", "cs", sc), fmt(ns + "y", "int", "deferred", "cs", sc)]
    cases.append(Case(L, {})); n += 1
    return cases


def exhaustive(start):
    """thorough tier: every ordered pair over a small recipe vocabulary on one path"""
    cases, n = [], start
    recs = [(m, lay, kt, sc) for (m, lay) in (("direct", "cs"), ("deferred", "sc"), ("deferred", "cs"))
            for kt in ("int", "str") for sc in ([3, 4], [3, None, 4], [None, 3, 3, 4, 4])]
    for r1 in recs:
        for r2 in recs:
            ns = "svc://e%d/" % n
            L = ["case %d" % n, fmt(ns + "a", r1[2], r1[0], r1[1], r1[3]), fmt(ns + "a", r2[2], r2[0], r2[1], r2[3]), "reuse 0"]
            cases.append(Case(L, {})); n += 1
    return cases


def corpus():
    """corpus/C07SVC/*.txt: shrunk failing inputs of the seeded defect s126 and of the mutation tests"""
    cdir = os.path.join(VERIF, "corpus", "C07SVC")
    out = []
    if os.path.isdir(cdir):
        for f in sorted(os.listdir(cdir)):
            if f.endswith(".txt"):
                out.append(Case([l.rstrip("\n") for l in open(os.path.join(cdir, f)) if l.strip()], {}))
    return out


def streams(rng, tier, seed):
    n = 200 if tier == "quick" else 6000
    hist = [gen_history(rng, i) for i in range(n)]
    dire = corpus() + directed(500000)
    if tier != "quick":
        dire += exhaustive(600000)
    prefetch(hist + dire)
    # one stream (one start-up of the model driver): random histories, then the corpus and the directed shapes
    return [Stream("svcctx-history", SVC, model_cmd("SvcCtx"), hist + dire, timeout=1200)]
