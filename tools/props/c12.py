"""C12 - the output of a switch follows only the branch selected by the current key, which starts fresh."""
import os
from vlib import Case, Stream, BUILD, VERIF, model_cmd
import c12coll as coll

ID = "C12"
LEAN_MODULES = ["HgVerif.Props.C12", "HgVerif.Props.C12Sample", "HgVerif.Model.TieC12", "HgVerif.Model.Extracted"] + list(coll.LEAN_MODULES)
USES_EXTRACT = True
THEOREMS = ["HgVerif.Tie.tie_switchReloadRule",
    
    "HgVerif.Switch.inv_reachable",
    "HgVerif.Switch.switch_old_dead",
    "HgVerif.Switch.lifeStep_meaning",
    "HgVerif.Switch.at_most_one_running",
    "HgVerif.Switch.switch_reselect_fresh",
    "HgVerif.Switch.reselect_ignores_history",
    "HgVerif.Switch.timing_of_run",
    "HgVerif.Switch.switch_unmatched_error",
    "HgVerif.Switch.unmatched_run_fails",
    "HgVerif.Switch.no_slot_logic_error",
    "HgVerif.Switch.segment_follows_branch",
    "HgVerif.Switch.switch_follows_selected",
    "HgVerif.Switch.follows_selected_unique",
    "HgVerif.Switch.sampledStart_iff",
    "HgVerif.Switch.notified_iff",
    "HgVerif.Switch.sampled_view",
    "HgVerif.Switch.activation_evaluates",
    "HgVerif.Switch.activation_gate_blocks",
    "HgVerif.Switch.activation_silent",
    "HgVerif.Switch.selection_cycle_evaluates",
    "HgVerif.Switch.selection_cycle_silent",
    "HgVerif.Switch.first_binding_rule_under_approximates",
    "HgVerif.Switch.first_binding_rule_refuted",
] + list(coll.THEOREMS)
CXX_TARGETS = ["hgv_switch"] + list(coll.CXX_TARGETS)
RULE = ("key/input histories replayed into a REAL graph replay(key: TS<int>|TS<str>), replay(x)[, replay(y)[, replay(z)]] -> "
        "switch_({k: branch, ...}[, default][.reload()], x[, y[, z]]) -> record with 0-3 time-series arguments; branches "
        "from a vocabulary of 26 (stateless, stateful sum, key-consuming, self-scheduling NodeScheduler timers incl. a "
        "start-hook source, two-input, unchecked-validity, a two-node sub-graph, and 15 single nodes bound to 1-3 boundary "
        "inputs (key and/or time-series arguments) with an activity / validity policy PER BINDING: passive first + active "
        "later, optional-unset first + required later, active first + passive later, all passive, all unchecked with a "
        "passive first, only the middle / only the last of three active); scenarios incl. held inputs that became valid "
        "before the selection and are silent in the selection cycle and an input that never ticks; a case is non-trivial when it performs "
        ">= 3 activations (the A/B slot reuse path) with at least one output tick, or fails on an unmatched key after an "
        "activation; distinct by sha1 of the case body" + " " + coll.RULE)
TRUSTED = ["replay/record nodes, target links and the child graph's own node scheduling are taken as given (C01-C03, C13, C20)",
           "harness branch nodes carry a state object whose constructor/destructor log; instance identity = ordinal of the start event"] + list(coll.TRUSTED)
ASSUMPTIONS = ["a branch is one node bound to 0-3 boundary inputs (key and/or time-series arguments), each binding active or "
               "passive, required or optional; a passive input never schedules the node and is not sampled at selection "
               "(by design; pinned by the repo's own test), its value is readable",
               "ordinary output path (TS<int> result written into the switch-owned output; REF-shaped / forwarding-terminal "
               "branches use the same slot protocol and are not exercised)",
               "the engine evaluates the switch node exactly when its schedule entry equals the cycle time (C02)",
               "memory safety of reusing the two fixed graph slots is outside the model"] + list(coll.ASSUMPTIONS)
TECHNIQUE = ("Lean 4 proof: invariant over every reachable state of the switch node's A/B-slot state machine with branches as "
             "arbitrary Mealy machines with wake-up times (lifecycle monitor on the emitted event trace, state-independence of "
             "activation, error characterisation) and a refinement of the whole run to the concatenation of per-segment "
             "stand-alone runs; tied to the code by differential correspondence against a real switch_ graph and an independent "
             "Python reference monitor" + "; " + coll.TECHNIQUE)
LEVEL_TEXT = ("Kernel-checked for ARBITRARY branch behaviours (any state type, any step/start function, any wake-up times), any "
              "case table, default and reload flag, and ALL key/input histories: every event trace of the model satisfies the "
              "lifecycle monitor (at most one running child, only the running child is evaluated, a slot is empty when a child "
              "is constructed in it, a running child is never destroyed); an activation yields the start state of the selected "
              "branch whatever happened before; an unmatched key without default is exactly the error case and kills the run; "
              "the recorded output stream equals the concatenation over maximal constant-selection segments of the selected "
              "branch run alone from its start state with the valid held inputs sampled in the first cycle (child wake-ups are "
              "never lost or duplicated by the parent's single schedule entry); the sampled start is per BINDING: for a node with "
              "any number of bindings and any mix of active/passive and required/optional inputs, the new instance evaluates "
              "in the selection cycle iff SOME binding has an active target with a valid source (or the gate is explicitly "
              "empty) and the validity gate passes, seeing the current value of every valid held input (the rule 'the first "
              "binding decides' has a kernel-checked counter-witness). The executable model is compared line by line "
              "with the real runtime on generated histories." + " " + coll.LEVEL_TEXT)
LEVEL_NOTE = ("Trusted: Lean kernel + standard axioms; the hand-written model (tied by correspondence); the Python reference "
              "monitor. The child graph is a Mealy machine: its internal node scheduling, target-link sampling of nested "
              "collections and the REF/forwarding output paths are observed through traces only.")

VOC = {0: ["beat", "keyonly"], 1: ["inc", "sum", "keyadd", "timer", "dbl1", "pecho", "kpx", "kxp"],
       2: ["add2", "keyadd2", "sum2", "timer2", "gadd", "gaddr", "pp2", "orelse", "orelser", "uap2", "usum2p", "kgadd", "kmid"],
       3: ["add3", "g3", "g3l"]}
# one node bound to several boundary inputs with a policy per position
MIXED = ["pecho", "kpx", "kxp", "gadd", "gaddr", "pp2", "orelse", "orelser", "uap2", "usum2p", "kgadd", "kmid", "g3", "g3l"]
NIN_OF = {b: n for n, bs in VOC.items() for b in bs}
KEYPOOL = [1, 2, 3, 5, -4, 10, 0, 7]


# ------------------------------------------------------------------ generator

def _val(rng):
    return rng.choice([rng.randint(-9, 20), rng.randint(0, 5), 0, rng.randint(-99, 99)])


def gen_case(rng, idx, tier):
    nin = rng.choice([0, 1, 1, 1, 1, 2, 2, 2, 2, 2, 3, 3])
    ktype = rng.choice(["int", "str"])
    reload = 1 if rng.random() < 0.35 else 0
    nkeys = rng.choice([1, 2, 2, 3, 3, 4])
    keys = rng.sample(KEYPOOL, nkeys)
    voc = VOC[nin]
    if nin >= 1 and rng.random() < 0.5:
        voc = [b for b in voc if b in MIXED] + [voc[0]]          # mostly nodes with a policy per binding
    cases = [(k, rng.choice(voc)) for k in keys]
    dflt = rng.choice(voc) if rng.random() < 0.3 else "-"
    cfg = "cfg %s %d %s %d %s" % (ktype, reload, dflt, nin, " ".join("%d=%s" % kb for kb in cases))
    stray = [k for k in KEYPOOL + [99, -1] if k not in keys]
    ncyc = rng.randint(5, 16) if tier == "quick" else rng.randint(6, 40)
    scenario = rng.choice(["rapid", "fliptick", "return", "retick", "keysfirst", "inputsfirst", "quiet", "mix", "mix", "unmatched",
                           "held", "held"])
    # an optional input that never ticks at all
    never = rng.choice((["x", "x", "y", "z"])[:nin + 1]) if nin >= 2 and rng.random() < 0.4 else None
    lines = []
    cur = None

    def cyc(k=None, x=None, y=None, z=None):
        w = ["c"]
        if k is not None:
            w += ["k", str(k)]
        if x is not None and nin >= 1 and never != "x":
            w += ["x", str(x)]
        if y is not None and nin >= 2 and never != "y":
            w += ["y", str(y)]
        if z is None and nin >= 3 and y is not None and rng.random() < 0.5:
            z = _val(rng)
        if z is not None and nin >= 3 and never != "z":
            w += ["z", str(z)]
        lines.append(" ".join(w))

    def maybe(p):
        return _val(rng) if rng.random() < p else None

    def other_key():
        c = [k for k in keys if k != cur]
        return rng.choice(c) if c else keys[0]

    # prologue: inputs valid before the first key, or not
    if scenario == "held":
        # the held inputs become valid (in separate cycles) before any selection
        cyc(None, _val(rng), None)
        cyc(None, None, _val(rng), _val(rng))
    elif scenario == "inputsfirst" or (scenario not in ("keysfirst",) and rng.random() < 0.5):
        cyc(None, _val(rng), maybe(0.7))
        if rng.random() < 0.3:
            cyc(None, maybe(0.5), _val(rng))
    if scenario == "keysfirst":
        for _ in range(rng.randint(1, 3)):
            cur = other_key() if rng.random() < 0.7 else (cur if cur is not None else keys[0])
            cyc(cur)
        cyc(None, _val(rng), None)
        cyc(rng.choice([None, other_key()]), None, _val(rng))
    while len(lines) < ncyc:
        r = rng.random()
        if scenario == "rapid":
            cur = other_key()
            cyc(cur, maybe(0.3), maybe(0.2))
        elif scenario == "fliptick":
            if r < 0.6:
                cur = other_key()
                cyc(cur, _val(rng), maybe(0.5))
            else:
                cyc(None, maybe(0.7), maybe(0.4))
        elif scenario == "return":
            a = cur if cur is not None else keys[0]
            cyc(a, maybe(0.6), maybe(0.3)); cur = a
            cyc(None, _val(rng), maybe(0.5))
            b = other_key()
            cyc(b, maybe(0.3), maybe(0.3)); cur = b
            if rng.random() < 0.5:
                cyc(None, maybe(0.8), maybe(0.5))
            cyc(a, maybe(0.4), maybe(0.2)); cur = a
            cyc(None, _val(rng), maybe(0.5))
        elif scenario == "retick":
            if cur is None or r < 0.25:
                cur = other_key()
                cyc(cur, maybe(0.5), maybe(0.3))
            elif r < 0.7:
                cyc(cur, maybe(0.5), maybe(0.3))        # the same key again
            else:
                cyc(None, maybe(0.8), maybe(0.5))
        elif scenario == "quiet":
            if cur is None or r < 0.2:
                cur = other_key()
                cyc(cur, maybe(0.6), maybe(0.4))
            elif r < 0.75:
                cyc()                                    # nothing ticks: only timers can run
            else:
                cyc(None, maybe(0.9), maybe(0.5))
        elif scenario == "held":
            # selections in cycles in which no held input ticks; input ticks in between
            if cur is None or r < 0.45:
                cur = other_key() if r < 0.35 or cur is None else cur
                lines.append("c k %d" % cur)
            elif r < 0.6:
                cyc()
            else:
                cyc(None, maybe(0.5), maybe(0.5))
        elif scenario == "unmatched":
            if cur is None or r < 0.3:
                cur = other_key()
                cyc(cur, maybe(0.6), maybe(0.4))
            elif r < 0.5 and len(lines) >= 2:
                cur = rng.choice(stray)
                cyc(cur, maybe(0.5), maybe(0.3))
            else:
                cyc(None, maybe(0.8), maybe(0.5))
        else:
            if r < 0.3:
                cur = other_key()
                cyc(cur, maybe(0.4), maybe(0.3))
            elif r < 0.38 and cur is not None:
                cyc(cur, maybe(0.4), maybe(0.3))
            elif r < 0.43:
                cur = rng.choice(stray)
                cyc(cur, maybe(0.4), maybe(0.3))
            elif r < 0.6:
                cyc()
            else:
                cyc(None, maybe(0.8), maybe(0.5))
    return Case(["case %d" % idx, cfg] + lines + ["run"])


def exhaustive_small(tier):
    """Every key history of length <= L over {a, b, stray, none} x {x tick, no tick} for a fixed two-branch table
    (thorough only): all flips / returns / re-ticks / unmatched keys at small scope."""
    if tier == "quick":
        return []
    import itertools
    cases, idx = [], 800000
    for cfg in ("cfg int 0 - 1 1=sum 2=timer", "cfg int 1 - 1 1=sum 2=timer", "cfg str 0 inc 1 1=sum 2=keyadd",
                "cfg int 1 - 1 1=kpx 2=pecho"):
        for L in range(1, 6):
            for seq in itertools.product(range(8), repeat=L):
                lines = []
                for s in seq:
                    k = [None, 1, 2, 9][s % 4]
                    w = ["c"] + (["k", str(k)] if k is not None else []) + (["x", "3"] if s >= 4 else [])
                    lines.append(" ".join(w))
                idx += 1
                cases.append(Case(["case %d" % idx, cfg] + lines + ["run"]))
    return cases


def streams(rng, tier, seed):
    n = 700 if tier == "quick" else 20000
    cases = [gen_case(rng, i, tier) for i in range(n)] + exhaustive_small(tier)
    cdir = os.path.join(VERIF, "corpus", "C12")
    corpus = []
    if os.path.isdir(cdir):
        for f in sorted(os.listdir(cdir)):
            corpus.append(Case([l.rstrip("\n") for l in open(os.path.join(cdir, f)) if l.strip()]))
    return ([Stream("switch", [os.path.join(BUILD, "hgv_switch")], model_cmd("C12"), corpus + cases, timeout=3000)]
            + coll.streams(rng, tier, seed))


# ------------------------------------------------------------------ the reference: plain-Python branch functions

class _Ref:
    """One fresh stand-alone instance of a branch function: ONE node bound to the inputs `binds` (in this order), each
    binding with its own policy: `passive` inputs never schedule the node, `optional` inputs need not be valid;
    `unchecked` = every input is optional (the node runs with invalid inputs too and is sampled without a valid one)."""
    binds, unchecked, passive, optional = (), False, (), ()

    def __init__(self, now):
        self.wake = None
        self.first = True

    def sampled(self, val):
        """selected just now: is there SOME binding whose input is active and whose held source is valid"""
        return any(p not in self.passive and (val[p] is not None or self.unchecked) for p in self.binds)

    def cycle(self, now, val, tick):
        """val/tick: dicts over 'k','x','y','z' (current value or None, ticked this cycle).  -> output tick or None"""
        t = {p: (tick[p] or (self.first and val[p] is not None)) for p in self.binds}
        if self.first:
            due = self.sampled(val)
        else:
            due = any(tick[p] for p in self.binds if p not in self.passive)
        woken = self.wake == now
        self.first = False
        if not (due or woken):
            return None
        if not self.unchecked and any(val[p] is None for p in self.binds if p not in self.optional):
            if woken:
                self.wake = None
            return None
        if woken:
            self.wake = None
        return self.step(now, val, t, woken)


class _Inc(_Ref):
    binds = ("x",)
    def step(self, now, v, t, woken): return v["x"] + 1


class _Dbl1(_Ref):
    binds = ("x",)
    def step(self, now, v, t, woken): return 2 * v["x"] + 1


class _Sum(_Ref):
    binds = ("x",)
    def __init__(self, now): super().__init__(now); self.total = 0
    def step(self, now, v, t, woken):
        self.total += v["x"]
        return self.total


class _KeyAdd(_Ref):
    binds = ("k", "x")
    def step(self, now, v, t, woken): return v["k"] + v["x"]


class _KeyOnly(_Ref):
    binds = ("k",)
    def step(self, now, v, t, woken): return 2 * v["k"]


class _Add2(_Ref):
    binds = ("x", "y")
    def step(self, now, v, t, woken): return v["x"] + v["y"]


class _KeyAdd2(_Ref):
    binds = ("k", "x", "y")
    def step(self, now, v, t, woken): return v["k"] + v["x"] + v["y"]


class _Sum2(_Ref):
    binds, unchecked = ("x", "y"), True
    def __init__(self, now): super().__init__(now); self.total = 0
    def step(self, now, v, t, woken):
        for p in ("x", "y"):
            if v[p] is not None and t[p]:
                self.total += v[p]
        return self.total


class _Timer(_Ref):
    binds = ("x",)
    def __init__(self, now): super().__init__(now); self.n, self.left = 0, 0
    def step(self, now, v, t, woken):
        if t["x"]:
            self.n, self.left, self.wake = v["x"], 2, now + 2
            return 10 * self.n
        out = 10 * self.n + self.left
        self.left -= 1
        self.wake = now + 2 if self.left > 0 else None
        return out


class _Timer2(_Ref):
    binds = ("x", "y")
    def __init__(self, now): super().__init__(now); self.n, self.left, self.pend = 0, 0, None
    def step(self, now, v, t, woken):
        y = 1000 * v["y"]
        if t["x"]:
            self.n, self.left, self.wake = v["x"], 2, now + 2
            self.pend = self.wake
            return 10 * self.n + y
        if woken:
            out = 10 * self.n + self.left + y
            self.left -= 1
            self.wake = now + 2 if self.left > 0 else None
            self.pend = self.wake
            return out
        self.wake = self.pend
        return y


class _Beat(_Ref):
    binds = ()
    def __init__(self, now): super().__init__(now); self.k = 0; self.wake = now
    def step(self, now, v, t, woken):
        self.k += 1
        self.wake = now + 2 if self.k < 3 else None
        return 100 + self.k


def _q(v):
    return -1 if v is None else v


def _mixed(name, binds, passive, optional, f, unchecked=False):
    return type("_M_" + name, (_Ref,), {"binds": binds, "passive": passive, "optional": optional, "unchecked": unchecked,
                                        "step": lambda self, now, v, t, woken: f(v)})


_MIX = {
    "pecho": _mixed("pecho", ("x",), ("x",), (), lambda v: v["x"]),
    "kpx": _mixed("kpx", ("k", "x"), ("k",), (), lambda v: 1000 * v["k"] + v["x"]),
    "kxp": _mixed("kxp", ("k", "x"), ("x",), (), lambda v: 1000 * v["k"] + v["x"]),
    "gadd": _mixed("gadd", ("x", "y"), ("x",), (), lambda v: 100 * v["x"] + v["y"]),
    "gaddr": _mixed("gaddr", ("x", "y"), ("y",), (), lambda v: 100 * v["x"] + v["y"]),
    "pp2": _mixed("pp2", ("x", "y"), ("x", "y"), (), lambda v: 100 * v["x"] + v["y"]),
    "orelse": _mixed("orelse", ("x", "y"), (), ("x",), lambda v: 100 * _q(v["x"]) + v["y"]),
    "orelser": _mixed("orelser", ("x", "y"), (), ("y",), lambda v: 100 * v["x"] + _q(v["y"])),
    "uap2": _mixed("uap2", ("x", "y"), ("y",), ("x",), lambda v: 100 * _q(v["x"]) + v["y"]),
    "usum2p": _mixed("usum2p", ("x", "y"), ("x",), ("x", "y"), lambda v: 100 * _q(v["x"]) + _q(v["y"]), unchecked=True),
    "kgadd": _mixed("kgadd", ("k", "x", "y"), ("k", "x"), (), lambda v: 10000 * v["k"] + 100 * v["x"] + v["y"]),
    "kmid": _mixed("kmid", ("k", "x", "y"), ("k", "y"), (), lambda v: 10000 * v["k"] + 100 * v["x"] + v["y"]),
    "add3": _mixed("add3", ("x", "y", "z"), (), (), lambda v: v["x"] + v["y"] + v["z"]),
    "g3": _mixed("g3", ("x", "y", "z"), ("x",), ("y",), lambda v: 10000 * v["x"] + 100 * _q(v["y"]) + v["z"]),
    "g3l": _mixed("g3l", ("x", "y", "z"), ("x", "y"), (), lambda v: 10000 * v["x"] + 100 * v["y"] + v["z"]),
}

REF = {"inc": _Inc, "dbl1": _Dbl1, "sum": _Sum, "keyadd": _KeyAdd, "keyonly": _KeyOnly, "add2": _Add2, "keyadd2": _KeyAdd2,
       "sum2": _Sum2, "timer": _Timer, "timer2": _Timer2, "beat": _Beat}
REF.update(_MIX)


def _fields(line):
    d = {}
    for w in line.split():
        if "=" in w:
            k, v = w.split("=", 1)
            d[k] = v
    return d


def _parse_cfg(w):
    if len(w) < 5 or w[1] not in ("int", "str") or w[2] not in ("0", "1") or w[4] not in ("0", "1", "2", "3"):
        return None
    nin = int(w[4])
    table = []
    for t in w[5:]:
        if "=" not in t:
            return None
        k, b = t.split("=", 1)
        if NIN_OF.get(b) != nin:
            return None
        try:
            k = int(k)
        except ValueError:
            return None
        if any(k == kk for kk, _ in table):
            return None
        table.append((k, b))
    if w[3] != "-" and NIN_OF.get(w[3]) != nin:
        return None
    if not table and w[3] == "-":
        return None
    return {"ktype": w[1], "reload": w[2] == "1", "dflt": None if w[3] == "-" else w[3], "nin": nin, "table": table}


def _spec(case, out):
    """The property decided on the implementation trace alone -> (violations, features)."""
    bad, feats = [], set()
    out = list(out) + ["<missing>"] * (len(case.lines) - len(out))
    cfg = None
    st = None

    def reset():
        return {"val": {"k": None, "x": None, "y": None, "z": None}, "cur": None, "ref": None, "branch": None, "now": 1, "dead": False,
                "running": None, "stopped": set(), "live": set(), "acts": 0, "ticks": 0, "seen_keys": [], "nact_inst": 0,
                "err": False, "prev_switch": None}

    for ln, o in zip(case.lines, out):
        w = ln.split()
        if not w:
            continue
        if w[0] == "case":
            cfg, st = None, reset()
            continue
        if w[0] == "cfg":
            cfg, st = _parse_cfg(w), reset()
            if cfg is None:
                if o != "bad-op":
                    bad.append("[C12-driver] malformed cfg answered %r" % o)
                continue
            if o != "ok":
                bad.append("[C12-driver] cfg answered %r" % o)
            feats.update(["nin:%d" % cfg["nin"], "key:" + cfg["ktype"], "reload:%d" % cfg["reload"],
                          "default:%s" % ("yes" if cfg["dflt"] else "no"), "cases:%d" % len(cfg["table"])])
            for _, b in cfg["table"]:
                feats.add("branch:" + b)
            continue
        if cfg is None or w[0] not in ("c", "run"):
            continue
        if o in ("bad-op", "<missing>") or o.startswith("<"):
            bad.append("[C12-driver] driver answered %s for %r" % (o, ln))
            break
        if w[0] == "run":
            f = _fields(o)
            evs = [] if f.get("ev", "-") == "-" else f["ev"].split(",")
            _life(evs, st, bad, "end", feats)
            if st["running"] is not None:
                bad.append("[C12-old-dead] instance %s still running after the graph stopped" % st["running"])
            if st["live"]:
                bad.append("[C12-old-dead] instances %s never destroyed" % sorted(st["live"]))
            continue
        # ---- one cycle
        now = st["now"]
        st["now"] += 1
        tick = {"k": False, "x": False, "y": False, "z": False}
        i = 1
        while i + 1 < len(w):
            p = w[i]
            if p in tick:
                tick[p] = True
                st["val"][p] = int(w[i + 1])
            i += 2
        if st["dead"]:
            if o != "dead":
                bad.append("[C12-unmatched] cycle %d: the run failed earlier but the driver reports %r" % (now - 1, o))
            continue
        val = st["val"]
        if tick["x"] or tick["y"] or tick["z"]:
            feats.add("inputs-before-first-key" if st["cur"] is None and not tick["k"] else "input-tick")
        # does the key select a new instance?
        switch = False
        if tick["k"]:
            k = val["k"]
            if st["cur"] is None or cfg["reload"] or k != st["cur"]:
                switch = True
            elif k == st["cur"]:
                feats.add("same-key-retick(kept)")
        f = _fields(o)
        evs = [] if f.get("ev", "-") == "-" else f["ev"].split(",")
        if switch:
            k = val["k"]
            branch = next((b for kk, b in cfg["table"] if kk == k), cfg["dflt"])
            matched = any(kk == k for kk, _ in cfg["table"])
            if branch is None:
                feats.add("unmatched-key-error" + ("" if st["acts"] else "(first key)"))
                st["err"] = True
                if not o.startswith("err:no-branch"):
                    bad.append("[C12-unmatched] cycle %d: key %d matches no case and there is no default, but the "
                               "driver reports %r instead of the error" % (now - 1, k, o))
                st["dead"] = True
                if evs:
                    bad.append("[C12-unmatched] cycle %d: lifecycle events %s in the failing cycle" % (now - 1, evs))
                continue
            if not matched:
                feats.add("unmatched-key-default")
            if st["cur"] is not None:
                if k == st["cur"]:
                    feats.add("same-key-retick(reload)")
                elif k in st["seen_keys"]:
                    feats.add("return-to-earlier-key")
                if tick["x"] or tick["y"] or tick["z"]:
                    feats.add("flip-in-input-tick-cycle")
                if st["ref"] is not None and st["ref"].wake is not None and st["ref"].wake > now:
                    feats.add("switch-away-with-timer-pending")
                if st["prev_switch"] == now - 1:
                    feats.add("rapid-flip(consecutive cycles)")
            if all(val[p] is None for p in REF[branch].binds if p != "k") and any(p != "k" for p in REF[branch].binds):
                feats.add("key-before-inputs-valid")
            elif any(val[p] is not None and not tick[p] for p in REF[branch].binds if p != "k"):
                feats.add("held-input-sampled-at-activation")
            rb = REF[branch]
            if len(rb.binds) >= 2:
                # per-binding sampled start: which bindings can be sampled right now
                okb = [p not in rb.passive and (val[p] is not None or rb.unchecked) for p in rb.binds]
                feats.add("multi-binding-node:%d" % len(rb.binds))
                if any(okb) and not okb[0]:
                    why = "passive" if rb.binds[0] in rb.passive else "optional-and-unset" if rb.binds[0] in rb.optional else "unset"
                    feats.add("sampled-start:first-binding-%s,later-binding-sampled" % why)
                    if st["cur"] is None:
                        feats.add("sampled-start(later binding):first-activation")
                    elif k == st["cur"]:
                        feats.add("sampled-start(later binding):reload")
                    elif k in st["seen_keys"]:
                        feats.add("sampled-start(later binding):return-to-earlier-key")
                    if tick["x"] or tick["y"] or tick["z"]:
                        feats.add("sampled-start(later binding):flip-in-input-tick-cycle")
                    else:
                        feats.add("sampled-start(later binding):held-inputs-silent-in-selection-cycle")
                elif any(okb):
                    feats.add("sampled-start:first-binding-sampled")
                else:
                    feats.add("sampled-start:no-binding-sampled")
            if any(val[p] is None and not tick[p] for p in rb.binds if p in rb.optional):
                feats.add("optional-input-unset-at-selection")
            st["cur"], st["ref"], st["branch"] = k, REF[branch](now), branch
            st["seen_keys"].append(k)
            st["acts"] += 1
            st["prev_switch"] = now
            if st["acts"] >= 3:
                feats.add("slot-reuse(>=3 activations)")
        if o.startswith("err:"):
            bad.append("[C12-%s] cycle %d: the run fails (%r) although %s" %
                       ("unmatched" if o.startswith("err:no-branch") else "follows", now - 1, o,
                        "the key selects a branch" if tick["k"] else "no key ticked"))
            st["dead"] = True
            continue
        if o == "idle":
            f, evs = {"rec": "-"}, []
        # ---- the output stream: the selected branch, alone, from its start state
        exp = None
        lenient = False
        if st["ref"] is not None:
            before = st["ref"].wake
            # a branch with an explicitly empty validity gate is also evaluated at activation when none of its
            # inputs is valid (a documented runtime choice, not part of the property): either reading is accepted
            lenient = (st["ref"].first and st["ref"].unchecked and st["ref"].wake != now
                       and all(val[p] is None for p in st["ref"].binds))
            if lenient:
                feats.add("unchecked-branch-activated-without-valid-input")
            exp = st["ref"].cycle(now, val, tick)
            if before == now and not switch:
                feats.add("timer-wake-fired")
        rec = f.get("rec", "-")
        want = "-" if exp is None else str(exp)
        if lenient and rec == "-":
            want, exp = "-", None
        if rec != want and switch and rec == "-":
            bad.append("[C12-sampled] the newly selected branch does not evaluate in the selection cycle: cycle %d: nothing "
                       "recorded, but branch %s (key %s) selected now sees the held inputs %s and run alone gives %s"
                       % (now - 1, st["branch"], st["cur"],
                          {p: val[p] for p in REF[st["branch"]].binds}, want))
        elif rec != want:
            bad.append("[C12-follows] cycle %d: recorded %s, the selected branch %s (key %s) run alone from a fresh state "
                       "gives %s" % (now - 1, rec, st["branch"], st["cur"], want))
        if exp is not None:
            st["ticks"] += 1
        # ---- lifecycle of the branch graphs
        _life(evs, st, bad, "cycle %d" % (now - 1), feats)
        starts = [e for e in evs if e.startswith("S")]
        if switch:
            if len(starts) != 1:
                bad.append("[C12-fresh] cycle %d: the key selects a new instance but %d branch graphs were started (%s)"
                           % (now - 1, len(starts), evs))
            elif starts[0].split(":", 1)[1] != st["branch"]:
                bad.append("[C12-follows] cycle %d: key %s selects branch %s but %s was started"
                           % (now - 1, st["cur"], st["branch"], starts[0]))
        elif starts:
            bad.append("[C12-fresh] cycle %d: no new selection but a branch graph was started (%s)" % (now - 1, evs))
        if "ngc" in f and int(f["ngc"]) > 2:
            bad.append("[C12-old-dead] cycle %d: %s child graphs stored" % (now - 1, f["ngc"]))
    if st is not None and ((st["acts"] >= 3 and st["ticks"] >= 1) or (st["err"] and st["acts"] >= 1)):
        feats.add("nontrivial")
    return bad, feats


def _life(evs, st, bad, where, feats):
    """Lifecycle rules on the event list of one cycle: at most one running child; only the running child is
    evaluated; a stopped child never again; stop before destroy; at most two children alive."""
    for e in evs:
        kind = e[0]
        if kind == "C":
            st["built"] = st.get("built", 0) + 1
            if st["built"] > 2:
                bad.append("[C12-old-dead] %s: a child graph was constructed while both slots are occupied "
                           "(the reused slot was not emptied first)" % where)
            continue
        ident = e[1:].split(":", 1)[0]
        if kind == "S":
            if st["running"] is not None:
                bad.append("[C12-old-dead] %s: instance %s started while %s is still running" % (where, ident, st["running"]))
            st["running"] = ident
            st["live"].add(ident)
            if len(st["live"]) > 2:
                bad.append("[C12-old-dead] %s: %d child graphs alive after starting %s (the reused slot was not emptied)"
                           % (where, len(st["live"]), ident))
        elif kind == "X":
            if st["running"] != ident:
                bad.append("[C12-old-dead] %s: stop of %s, running is %s" % (where, ident, st["running"]))
            st["running"] = None
            st["stopped"].add(ident)
        elif kind in ("E", "U"):
            if ident in st["stopped"]:
                bad.append("[C12-old-dead] %s: instance %s evaluated (%s) after it was stopped" % (where, ident, e))
            elif st["running"] != ident:
                bad.append("[C12-old-dead] %s: %s but the running instance is %s" % (where, e, st["running"]))
        elif kind == "D":
            if ident == st["running"]:
                bad.append("[C12-old-dead] %s: running instance %s destroyed" % (where, ident))
            elif ident not in st["stopped"]:
                bad.append("[C12-old-dead] %s: instance %s destroyed but never stopped" % (where, ident))
            st["live"].discard(ident)
            st["built"] = st.get("built", 0) - 1


def monitor(stream, case, out):
    if stream.startswith("switchcoll"):
        return coll.monitor(stream, case, out)
    return _spec(case, out)[0][:3]


def features(stream, case, out):
    if stream.startswith("switchcoll"):
        return ["coll:" + f for f in coll.features(stream, case, out)]
    return sorted(x for x in _spec(case, out)[1] if x != "nontrivial")


def nontrivial(stream, case, out):
    if stream.startswith("switchcoll"):
        return coll.nontrivial(stream, case, out)
    return "nontrivial" in _spec(case, out)[1]


def valid_case(stream, case, impl_out, model_out):
    if stream.startswith("switchcoll"):
        return coll.valid_case(stream, case, impl_out, model_out)
    return True


def alarm_filter(stream, case, impl_out, model_out):
    """Observable: recorded ticks, output value, error classes and the lifecycle events of every cycle in their
    order.  Which of the two slots is disposed of first when the node storage is released (the order of the
    D events in the `end` line) is slot-allocation policy: diagnostic only."""
    if stream.startswith("switchcoll"):
        return coll.alarm_filter(stream, case, impl_out, model_out)
    notes, alarm = [], False
    if len(impl_out) != len(model_out):
        return True, ["line counts differ"]
    for i, (a, b) in enumerate(zip(impl_out, model_out)):
        if a == b:
            continue
        if a == "idle" and b.startswith("rec=- ") and " ev=- " in b:
            notes.append("line %d: the root graph was not evaluated in a quiet cycle" % i)
            continue
        if a.startswith("end ev=") and b.startswith("end ev="):
            ea, eb = a[7:].split(","), b[7:].split(",")
            if sorted(ea) == sorted(eb) and [e for e in ea if e[0] != "D"] == [e for e in eb if e[0] != "D"]:
                notes.append("line %d: disposal order of the two slots %s vs %s" % (i, a[7:], b[7:]))
                continue
        alarm = True
        notes.append("line %d: %r vs %r" % (i, a, b))
    return alarm, notes
