"""C18 - node scheduler: wakes at every pending time; queries agree with the pending set."""
import os
from vlib import Case, Stream, BUILD, model_cmd
import engine_common as ec
import engine_plugin as ep

ID = "C18"
LEAN_MODULES = ["HgVerif.Props.C18", "HgVerif.Model.Engine", "HgVerif.Model.Extracted"]
THEOREMS = [
    "HgVerif.NodeSched.wf_ops", "HgVerif.NodeSched.wf_reachable", "HgVerif.NodeSched.tag_holds_one_time",
    "HgVerif.NodeSched.mem_schedule", "HgVerif.NodeSched.mem_unscheduleTag", "HgVerif.NodeSched.mem_unscheduleFirst",
    "HgVerif.NodeSched.mem_advance", "HgVerif.NodeSched.popTag_eq_unscheduleTag", "HgVerif.NodeSched.popTag_result",
    "HgVerif.NodeSched.ignored_after_start", "HgVerif.NodeSched.past_ignored_in_start",
    "HgVerif.NodeSched.now_honoured_in_start",
    "HgVerif.NodeSched.isScheduled_iff", "HgVerif.NodeSched.next_is_min", "HgVerif.NodeSched.isScheduledNow_iff",
    "HgVerif.NodeSched.hasTag_iff", "HgVerif.NodeSched.tagTime_eq", "HgVerif.NodeSched.tagTime_default",
    "HgVerif.NodeSched.tagIsScheduledNow_iff",
    "HgVerif.NodeSched.armed_after_eval", "HgVerif.NodeSched.run_armed", "HgVerif.NodeSched.wake_not_late",
    "HgVerif.NodeSched.armed_after_start", "HgVerif.NodeSched.schedule_push_future", "HgVerif.NodeSched.evalPushes_future",
    "HgVerif.NodeSched.postEval_push_future",
    "HgVerif.Tie.tie_nsStartedGuard", "HgVerif.Tie.tie_nsStartGuard", "HgVerif.Tie.tie_nsPushGuard",
    "HgVerif.Tie.tie_nsAdvanceGuard", "HgVerif.Tie.tie_slotConsumed", "HgVerif.Tie.tie_slotEarlier",
]
CXX_TARGETS = ["hgv_nodesched", "hgv_engine"]
USES_EXTRACT = True
RULE = ("random operation sequences over NodeScheduler (times now-1..now+4, tags -,a,b,c, start and started views, "
        "cycles advancing now by 1-3); a case is non-trivial when it contains a tagged re-schedule, a cancel/pop of a "
        "live tag, or an advance that consumes an event; distinct by sha1 of the op list")
TRUSTED = ["std::set/std::map modelled as sorted list / association list"]
ASSUMPTIONS = ["simulation mode (on_wall_clock=false); wall-clock alarms are covered by C17",
               "the graph evaluates the node at its slot time and never skips a future slot (C02)"]

TAGS = ["-", "a", "b", "c"]


def gen_case(rng, n, idx, maxops):
    lines = ["case %d" % idx]
    now = rng.randint(1, 5)
    started = rng.random() < 0.8
    lines.append("view %d %d" % (now, 1 if started else 0))
    for _ in range(rng.randint(3, maxops)):
        r = rng.random()
        if r < 0.34:
            w = now + rng.choice([-1, 0, 1, 1, 2, 2, 3, 4])
            lines.append("sched %d %s" % (max(w, 0), rng.choice(TAGS)))
        elif r < 0.42:
            lines.append("schedd %d %s" % (rng.choice([0, 1, 2, 3]), rng.choice(TAGS)))
        elif r < 0.52:
            lines.append("unsched %s" % rng.choice(TAGS[1:]))
        elif r < 0.58:
            lines.append("unsched1")
        elif r < 0.66:
            lines.append("pop %s %d" % (rng.choice(TAGS[1:]), rng.randint(0, 9)))
        elif r < 0.68:
            lines.append("reset")
        elif r < 0.82:
            # next cycle: the engine constructs a started view at a later time, then (maybe) advances
            now += rng.randint(1, 3)
            lines.append("view %d 1" % now)
            if rng.random() < 0.7:
                lines.append("advance")
        else:
            lines.append("q")
        if rng.random() < 0.5:
            lines.append("q")
    lines.append("q")
    lines.append("dump")
    return Case(lines)


def streams(rng, tier, seed):
    n = 600 if tier == "quick" else 20000
    cases = [gen_case(rng, n, i, 30 if tier == "quick" else 60) for i in range(n)]
    # corpus first
    cdir = os.path.join(os.path.dirname(BUILD), "corpus", "C18")
    corpus = []
    if os.path.isdir(cdir):
        for f in sorted(os.listdir(cdir)):
            corpus.append(Case([l.rstrip("\n") for l in open(os.path.join(cdir, f)) if l.strip()]))
    # in-graph stream: script nodes (one and several per graph, with and without inputs) issue the
    # same operations through the injected NodeScheduler; the graph must wake them at every pending time
    m = 150 if tier == "quick" else 4000
    progs = [ec.gen_flat(rng, sched=True) for _ in range(m)]
    return [Stream("nodesched", [os.path.join(BUILD, "hgv_nodesched")], model_cmd("C18"), corpus + cases),
            ec.engine_stream("engine-sched", progs)]


def _order(tag):
    return "" if tag == "-" else tag


def _spec(case, out):
    """Set-level specification run over the op list; yields (violations, features)."""
    pend = set()   # (time, tag)
    now, started = 1, True
    bad, feats = [], set()
    for ln, o in zip(case.lines, out + ["<none>"] * len(case.lines)):
        w = ln.split()
        if not w:
            continue
        op = w[0]
        if op == "case":
            pend = set(); now, started = 1, True
        elif op == "view":
            now, started = int(w[1]), w[2] == "1"
            feats.add("view-started" if started else "view-start-phase")
        elif op in ("sched", "schedd"):
            t = int(w[1]) if op == "sched" else now + int(w[1])
            tag = w[2]
            rej = (t <= now) if started else (t < now)
            if rej:
                feats.add("sched-rejected")
            else:
                if tag != "-":
                    old = {e for e in pend if e[1] == tag}
                    if old:
                        feats.add("tag-replaced")
                    pend -= old
                if (t, tag) in pend:
                    feats.add("duplicate-untagged")
                pend.add((t, tag))
                feats.add("sched-accepted" + ("-now-in-start" if t == now else ""))
            if o != "ok":
                bad.append("schedule returned %r" % o)
        elif op == "unsched":
            old = {e for e in pend if e[1] == w[1]}
            if old:
                feats.add("cancel-live-tag")
            pend -= old
        elif op == "unsched1":
            if pend:
                e = min(pend, key=lambda e: (e[0], _order(e[1])))
                pend.discard(e)
                feats.add("cancel-first")
        elif op == "pop":
            old = [e for e in pend if e[1] == w[1]]
            exp = old[0][0] if old else int(w[2])
            if old:
                feats.add("pop-live-tag")
            pend -= set(old)
            if o != str(exp):
                bad.append("pop_tag(%s) returned %s, pending set says %s" % (w[1], o, exp))
        elif op == "reset":
            pend = set()
        elif op == "advance":
            due = {e for e in pend if e[0] <= now}
            if due:
                feats.add("advance-consumes")
            pend -= due
        elif op == "q":
            mn = min((e[0] for e in pend), default=0)
            exp = "next=%d is=%d now=%d" % (mn, 1 if pend else 0, 1 if pend and mn == now else 0)
            for tag in ("a", "b", "c"):
                ts = [e[0] for e in pend if e[1] == tag]
                if len(ts) > 1:
                    bad.append("spec error: tag %s holds %s" % (tag, ts))
                exp += " %s=%d,%d,%d" % (tag, 1 if ts else 0, ts[0] if ts else 0, 1 if ts and ts[0] == now else 0)
            if o != exp:
                bad.append("queries disagree with pending set at now=%d: got [%s] expected [%s]" % (now, o, exp))
        elif op == "dump":
            evs = "".join("(%d,%s)" % e for e in sorted(pend, key=lambda e: (e[0], _order(e[1]))))
            tags = "".join("%s:%d;" % (t, tm) for (tm, t) in sorted(pend, key=lambda e: e[1]) if t != "-")
            exp = "events=%s tags=%s" % (evs, tags)
            if o != exp:
                bad.append("state disagrees with pending set: got [%s] expected [%s]" % (o, exp))
    return bad, feats


def monitor(stream, case, out):
    if stream.startswith("engine"):
        dev, _ = ep.deviations(case, out)
        return ["[%s] %s" % (c, m) for c, m in dev if c in ("times", "userrun")][:3]
    return _spec(case, out)[0][:3]


def features(stream, case, out):
    if stream.startswith("engine"):
        return ep.features(stream, case, out)
    return sorted(_spec(case, out)[1])


def alarm_filter(stream, case, impl_out, model_out):
    if stream.startswith("engine"):
        return ep.alarm_filter(stream, case, impl_out, model_out)
    return True, []


def valid_case(stream, case, impl_out, model_out):
    if stream.startswith("engine"):
        return ep.valid_case(stream, case, impl_out, model_out)
    return True


def nontrivial(stream, case, out):
    if stream.startswith("engine"):
        return ep.nontrivial(stream, case, out) and " q=" in ec.trace_of(out)
    f = _spec(case, out)[1]
    return bool(f & {"tag-replaced", "cancel-live-tag", "pop-live-tag", "advance-consumes"})

TECHNIQUE = "Lean 4 proof (refinement of NodeScheduler to a set of pending requests + armed-slot invariant by induction over evaluations) with translator ties and differential correspondence against node_scheduler.h"
LEVEL_TEXT = ("Kernel-checked theorems over ALL operation sequences: representation invariant, set-level refinement of "
              "schedule/tagged replace/cancel/pop/reset/advance, agreement of every query with the pending set, start/"
              "started admission rules, and the wake-up invariant (after every evaluation the node's graph slot is armed "
              "in (now, earliest pending]). The model is tied to the code by extracted comparison operators and by "
              "running the real header on generated op sequences.")
LEVEL_NOTE = ("Trusted: Lean kernel; axioms propext/Classical.choice/Quot.sound; the hand-written model of "
              "NodeSchedulerState (std::set/map as lists) and of node.cpp's post-evaluation rule; the correspondence "
              "harness. Assumes the graph honours an armed slot exactly (C02). ")
